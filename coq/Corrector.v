(* C14: models of the alignment correctors.
     - the preset table of isoquant.py set_splice_correction_options (compared with the real namedtuples by the harness)
     - OverlappingFeaturesProfileConstructor.match_genomic_features (sweep + best match)
     - ExonCorrector.process_events (fuzzy junctions with the error counts as an oracle, event map, the loop with its
       index jumps, the terminal-exon branches) and correct_assigned_read, exceptions included
         Raises 1 = IndexError, Raises 2 = AssertionError, Raises 3 = the while loop never terminates
     - IlluminaExonCorrector.correct_exons
     - the BED12 row of BEDPrinter.add_read_info
   The model follows the code as it is; lemmas and theorems are in Corrector2.v. *)
From Coq Require Import ZArith NArith List Bool Lia ZifyBool.
From IQ Require Import CorrSupport Exons.
From IQ.gen Require Import Tables Prims.
Import ListNotations. Open Scope Z_scope.

(* ---------------------------------------------------------------- strategy presets *)
Record flags := mkflags { f_fuzzy : bool; f_shifts : bool; f_skipped : bool; f_terminal : bool; f_fake_terminal : bool; f_microintron : bool }.
Inductive strategy := St_none | St_default_pacbio | St_conservative_ont | St_default_ont | St_all | St_assembly.
Definition all_strategies := [St_none; St_default_pacbio; St_conservative_ont; St_default_ont; St_all; St_assembly].
(*                                     fuzzy  shifts skipped terminal fake_terminal microintron *)
Definition strategy_flags (s:strategy) : flags :=
  match s with
  | St_none             => mkflags false false false false false false
  | St_default_pacbio   => mkflags true  false true  false false true
  | St_conservative_ont => mkflags true  false true  false false false
  | St_default_ont      => mkflags true  false true  false true  true
  | St_all              => mkflags true  true  true  true  true  true
  | St_assembly         => mkflags false false true  false false false
  end.
Definition flags_eqb (a b:flags) : bool :=
  Bool.eqb (f_fuzzy a) (f_fuzzy b) && Bool.eqb (f_shifts a) (f_shifts b) && Bool.eqb (f_skipped a) (f_skipped b) &&
  Bool.eqb (f_terminal a) (f_terminal b) && Bool.eqb (f_fake_terminal a) (f_fake_terminal b) && Bool.eqb (f_microintron a) (f_microintron b).
Definition no_flags := mkflags false false false false false false.

(* SupplementaryMatchConstants *)
Definition absent_position : Z := 2147483647.
Definition undefined_position : Z := 2147483648.

(* ---------------------------------------------------------------- Python list access *)
Definition py_nth {A} (l:list A) (i:Z) : option A :=
  let n := Z.of_nat (length l) in       (* the comparisons with n come first: no huge index is ever turned into a nat *)
  if (0 <=? i) && (i <? n) then nth_error l (Z.to_nat i) else if (i <? 0) && (0 <=? n + i) then nth_error l (Z.to_nat (n + i)) else None.
(* range(a, b) *)
Fixpoint zrange_n (a:Z) (m:nat) : list Z := match m with O => [] | Datatypes.S m' => a :: zrange_n (a + 1) m' end.
Definition zrange (a b:Z) : list Z := zrange_n a (Z.to_nat (b - a)).
Fixpoint all_some {A} (l:list (option A)) : option (list A) :=
  match l with [] => Some [] | None :: _ => None | Some x :: t => match all_some t with Some r => Some (x :: r) | None => None end end.
(* [l[k] for k in range(a, b + 1)] ; None = IndexError *)
(* more than 2n consecutive indexes cannot all be valid (valid ones lie in [-n, n)): IndexError without enumerating them *)
Definition py_slice {A} (l:list A) (a b:Z) : option (list A) :=
  if 2 * Z.of_nat (length l) <? b + 1 - a then None else all_some (map (py_nth l) (zrange a (b + 1))).

Definition hull (ex:list iv) : iv := (fst (hd (0,0) ex), snd (last ex (0,0))).

(* ---------------------------------------------------------------- events *)
Record event := mkev { e_type : MES; e_iso : iv; e_read : iv }.
Definition is_type (e:event) (t:MES) : bool := MES_eqb (e_type e) t.

(* dict built by correct_misalignments; later insertions win, so new bindings go to the front and lookup takes the first *)
Definition build_map (fl:flags) (evs:list event) : list (Z * event) :=
  fold_left (fun m e =>
    if iv_eqb (e_read e) (undefined_position, undefined_position) then m
    else if fst (e_read e) =? absent_position then
      (if is_type e MES_fake_micro_intron_retention && f_microintron fl then (- snd (e_read e) - 1, e) :: m else m)
    else (fst (e_read e), e) :: m) evs [].
Definition lookup (m:list (Z * event)) (k:Z) : option event :=
  match find (fun p => fst p =? k) m with Some p => Some (snd p) | None => None end.

(* ---------------------------------------------------------------- match_genomic_features *)
Definition match_delta (a b:iv) : Z := Z.abs (fst a - fst b) + Z.abs (snd a - snd b).
(* per read feature: the known features the sweep matched to it, in order *)
Fixpoint mgf_sweep (fuel:nat) (delta:Z) (known reads:list iv) (cur:list iv) : list (list iv) :=
  match reads with
  | [] => []
  | r :: rs =>
    match known, fuel with
    | k :: ks, Datatypes.S f =>
        if py_equal_ranges r k delta then mgf_sweep f delta ks reads (k :: cur)
        else if py_overlaps r k then mgf_sweep f delta ks reads cur
        else if py_left_of r k then rev cur :: mgf_sweep f delta known rs []
        else mgf_sweep f delta ks reads cur
    | _, _ => rev cur :: map (fun _ => []) rs
    end
  end.
Definition best_match (r:iv) (ms:list iv) : option iv :=
  match ms with
  | [] => None
  | m :: _ => let best := fold_left Z.min (map (match_delta r) ms) (match_delta r m) in
              find (fun k => match_delta r k =? best) ms
  end.
Fixpoint choose_features (reads:list iv) (ms:list (list iv)) : list iv :=
  match reads with
  | [] => []
  | r :: rs => (match best_match r (hd [] ms) with Some k => k | None => r end) :: choose_features rs (tl ms)
  end.
Definition match_genomic_features (delta:Z) (known reads:list iv) : list iv :=
  choose_features reads (mgf_sweep (length known + length reads) delta known reads []).

(* ---------------------------------------------------------------- fuzzy junctions *)
Notation errs := ((Z*Z) * (Z*Z))%type.     (* ((indels, mismatches) at the left site, (indels, mismatches) at the right site) *)
Definition keep_read_site (c:Z*Z) : bool := (fst c =? 0) && (snd c <=? 1).
(* the code before fixes/C01_fuzzy_junction_keeps_exons.diff: each site independently *)
Fixpoint fuzzy_unrepaired (reads pots:list iv) (orc:list errs) : list iv :=
  match reads, pots with
  | r :: rs, k :: ks =>
      let o := hd ((0,0),(0,0)) orc in
      ((if fst r =? fst k then fst r else if keep_read_site (fst o) then fst r else fst k),
       (if snd r =? snd k then snd r else if keep_read_site (snd o) then snd r else snd k)) :: fuzzy_unrepaired rs ks (tl orc)
  | _, _ => []
  end.
(* repaired: a reference site is used only if the intron stays non-empty and the neighbouring exons stay non-empty - it must start
   after the previous corrected intron (or the read start) and end before the next read intron (or the read end) *)
Fixpoint fuzzy (region:iv) (prev_end:option Z) (reads pots:list iv) (orc:list errs) : list iv :=
  match reads, pots with
  | r :: rs, k :: ks =>
      let o := hd ((0,0),(0,0)) orc in
      let l0 := if fst r =? fst k then fst r else if keep_read_site (fst o) then fst r else fst k in
      let r0 := if snd r =? snd k then snd r else if keep_read_site (snd o) then snd r else snd k in
      let lower := match prev_end with Some e => e + 1 | None => fst region end in
      let upper := match rs with r' :: _ => fst r' - 1 | [] => snd region end in
      let l1 := if l0 <=? lower then fst r else l0 in
      let r1 := if upper <=? r0 then snd r else r0 in
      let c := if r1 <? l1 then r else (l1, r1) in
      c :: fuzzy region (Some (snd c)) rs ks (tl orc)
  | _, _ => []
  end.
(* which of the two repairs of ExonCorrector.process_events the tree under test carries *)
Record variant := mkVar { v_fuzzy : bool; v_fake : bool }.
Definition repaired : variant := mkVar true true.
Definition unrepaired : variant := mkVar false false.
(* the get_error_count calls the code makes: (start, end, intron index, left_site) *)
Fixpoint oracle_calls (i:Z) (reads pots:list iv) : list (Z*Z*Z*bool) :=
  match reads, pots with
  | r :: rs, k :: ks =>
      (if fst r =? fst k then [] else [(Z.min (fst r) (fst k), Z.max (fst r) (fst k) - 1, i, true)]) ++
      (if snd r =? snd k then [] else [(Z.min (snd r) (snd k) + 1, Z.max (snd r) (snd k), i, false)]) ++ oracle_calls (i + 1) rs ks
  | _, _ => []
  end.

(* ---------------------------------------------------------------- process_events *)
(* DropStart: the start moves and everything appended so far is discarded (repaired fake_terminal_exon_left) *)
Inductive regupd := NoUpd | SetStart (z:Z) | SetEnd (z:Z) | DropStart (z:Z).
(* one iteration of the while loop: position, next position, the fake-IR intron inserted first, the introns appended, the region update *)
Record block := mkblock { b_i : Z; b_next : Z; b_fake : list iv; b_emit : list iv; b_upd : regupd }.
Definition b_all (b:block) := b_fake b ++ b_emit b.

Definition known_structure_types : list MES :=
  [MES_extra_intron_known; MES_intron_alternation_known; MES_intron_migration; MES_exon_skipping_known; MES_exon_merge_known;
   MES_terminal_exon_shift_known; MES_mutually_exclusive_exons_known; MES_exon_gain_known; MES_exon_detach_known;
   MES_alternative_structure_known; MES_alternative_structure_novel].
Definition mes_mem (t:MES) (l:list MES) := existsb (MES_eqb t) l.

Section PE.
Variable vr : variant.
Variable fl : flags.
Variable delta : Z.
Variable read_region : iv.
Variable RI : list iv.          (* read introns *)
Variable CI : list iv.          (* introns after fuzzy-junction correction (= RI when the flag is off) *)
Variable isoreg : iv.
Variable II : list iv.          (* introns of the assigned isoform *)
Variable emap : list (Z * event).

Definition in_misalignment_set (e:event) : bool :=
  (f_shifts fl && is_type e MES_intron_shift) || (f_skipped fl && is_type e MES_exon_misalignment).

Definition opt_block {A} (o:option A) (f:A -> block) : outcome block := match o with Some x => Ok (f x) | None => Raises 1 end.

Definition step_v (i:Z) : outcome block :=
  match (match lookup emap (- i - 1) with
         | Some e => match py_nth II (fst (e_iso e)) with Some x => Ok [x] | None => Raises 1 end
         | None => Ok [] end) with
  | Raises k => Raises k
  | Ok fk =>
    match lookup emap i with
    | None => opt_block (py_nth CI i) (fun x => mkblock i (i + 1) fk [x] NoUpd)
    | Some e =>
      let a := fst (e_read e) in let b := snd (e_read e) in
      if is_type e MES_fake_terminal_exon_left && f_fake_terminal fl then
        if negb (a =? b) then Raises 2
        else opt_block (py_nth RI a) (fun x => if v_fake vr then mkblock i (b + 1) [] [] (DropStart (snd x + 1)) else mkblock i (b + 1) fk [] (SetStart (snd x + 1)))
      else if is_type e MES_fake_terminal_exon_right && f_fake_terminal fl then
        if negb (a =? b) then Raises 2 else opt_block (py_nth RI a) (fun x => mkblock i (b + 1) fk [] (SetEnd (fst x - 1)))
      else if is_type e MES_terminal_exon_misalignment_left && f_terminal fl then
        opt_block (py_nth II (fst (e_iso e))) (fun x => mkblock i (b + 1) fk [x] (SetStart (fst isoreg)))
      else if is_type e MES_terminal_exon_misalignment_right && f_terminal fl then
        opt_block (py_nth II (fst (e_iso e))) (fun x => mkblock i (b + 1) fk [x] (SetEnd (snd isoreg)))
      else
        (* `type in misalignment_set and contains_well_inside(...)`: the isoform introns are only read when the type is in the set *)
        match (if in_misalignment_set e
               then match py_nth II (fst (e_iso e)), py_nth II (snd (e_iso e)) with
                    | Some x, Some y => Ok (py_contains_well_inside read_region (fst x, snd y) delta)
                    | _, _ => Raises 1 end
               else Ok false) with
        | Raises k => Raises k
        | Ok true => if negb (a =? b) then Raises 2
                     else opt_block (py_slice II (fst (e_iso e)) (snd (e_iso e))) (fun l => mkblock i (b + 1) fk l NoUpd)
        | Ok false =>
            if mes_mem (e_type e) known_structure_types
            then opt_block (py_slice CI a b) (fun l => mkblock i (b + 1) fk l NoUpd)
            else opt_block (py_slice RI a b) (fun l => mkblock i (b + 1) fk l NoUpd)
        end
    end
  end.

Definition n_introns : Z := Z.of_nat (length CI).

Fixpoint loop_v (fuel:nat) (i:Z) : outcome (list block) :=
  if i <? n_introns then
    match fuel with
    | O => Raises 3
    | Datatypes.S f => match step_v i with
                       | Raises k => Raises k
                       | Ok b => match loop_v f (b_next b) with Ok bs => Ok (b :: bs) | Raises k => Raises k end
                       end
    end
  else Ok [].

Definition apply_upd (reg:iv) (u:regupd) : iv := match u with NoUpd => reg | SetStart z => (z, snd reg) | SetEnd z => (fst reg, z) | DropStart z => (z, snd reg) end.
Definition final_region (bs:list block) : iv := fold_left (fun r b => apply_upd r (b_upd b)) bs read_region.
Definition emitted (bs:list block) : list iv :=
  fold_left (fun acc b => match b_upd b with DropStart _ => [] | _ => acc ++ b_all b end) bs [].
(* every terminating run visits pairwise different positions in [-n, n) *)
Definition blocks_v : outcome (list block) := loop_v (2 * length CI + 2) 0.
End PE.
Notation step := (step_v repaired).
Notation loop := (loop_v repaired).
Notation blocks := (blocks_v repaired).

(* ---------------------------------------------------------------- correct_assigned_read *)
Record cin := mkcin {
  c_exons : list iv;            (* alignment_info.read_exons *)
  c_noninf : bool;              (* assignment_type == noninformative *)
  c_has_match : bool;           (* isoform_matches non-empty *)
  c_events : list event;        (* isoform_matches[0].match_subclassifications *)
  c_known : list iv;            (* gene_info.intron_profiles.features *)
  c_isoreg : iv;                (* gene_info.transcript_region(isoform) *)
  c_isointrons : list iv;       (* gene_info.all_isoforms_introns[isoform] *)
  c_oracle : list errs;         (* what get_error_count answers, per read intron *)
  c_delta : Z }.

Definition c_region (c:cin) : iv := hull (c_exons c).
Definition c_introns (c:cin) : list iv := jfb (c_exons c).
Definition potentials (c:cin) : list iv := match_genomic_features (c_delta c) (c_known c) (c_introns c).
Definition corrected_introns_v (vr:variant) (fl:flags) (c:cin) : list iv :=
  if f_fuzzy fl then (if v_fuzzy vr then fuzzy (c_region c) None (c_introns c) (potentials c) (c_oracle c)
                      else fuzzy_unrepaired (c_introns c) (potentials c) (c_oracle c))
  else c_introns c.
Definition error_count_calls (fl:flags) (c:cin) : list (Z*Z*Z*bool) :=
  if f_fuzzy fl then oracle_calls 0 (c_introns c) (potentials c) else [].
Definition c_blocks_v (vr:variant) (fl:flags) (c:cin) : outcome (list block) :=
  blocks_v vr fl (c_delta c) (c_region c) (c_introns c) (corrected_introns_v vr fl c) (c_isoreg c) (c_isointrons c) (build_map fl (c_events c)).
Definition process_events_v (vr:variant) (fl:flags) (c:cin) : outcome (iv * list iv) :=
  match c_blocks_v vr fl c with Ok bs => Ok (final_region (c_region c) bs, emitted bs) | Raises k => Raises k end.
Notation corrected_introns := (corrected_introns_v repaired).
Notation c_blocks := (c_blocks_v repaired).
Notation process_events := (process_events_v repaired).

Definition build_exons (reg:iv) (new:list iv) : list iv :=
  match new with
  | [] => [reg]
  | f :: _ => (fst reg, fst f - 1) :: jfb new ++ [(snd (last new f) + 1, snd reg)]
  end.
Definition early_return (c:cin) : bool := (length (c_exons c) =? 1)%nat || c_noninf c || negb (c_has_match c).
Definition correct_assigned_read_v (vr:variant) (fl:flags) (c:cin) : outcome (list iv) :=
  if early_return c then Ok (c_exons c)
  else match process_events_v vr fl c with Ok (reg, new) => Ok (build_exons reg new) | Raises k => Raises k end.
Notation correct_assigned_read := (correct_assigned_read_v repaired).
Notation correct_assigned_read_unrepaired := (correct_assigned_read_v unrepaired).

(* decidable well-formedness predicates *)
Fixpoint mono_b (l:list iv) : bool :=
  match l with [] => true | a :: t => (fst a <=? snd a) && (match t with [] => true | b :: _ => fst a <=? fst b end) && mono_b t end.
Fixpoint sd_b (l:list iv) : bool :=
  match l with [] => true | a :: t => (fst a <=? snd a) && (match t with [] => true | b :: _ => snd a <? fst b end) && sd_b t end.
(* exons as alignments deliver them: well-formed, at least one base between consecutive ones *)
Fixpoint sdg_b (l:list iv) : bool :=
  match l with [] => true | a :: t => (fst a <=? snd a) && (match t with [] => true | b :: _ => snd a + 1 <? fst b end) && sdg_b t end.


(* ---------------------------------------------------------------- IlluminaExonCorrector.correct_exons *)
Definition MAX_SCORE : Z := 1000000000000.
Definition ABSENT_INTRON : iv := (0, 0).
Definition EXON_LENGTH : Z := 50.
Definition SIDE_DIFF : Z := 25.
Definition skipped_score (l r old:iv) : Z := (fst old - fst l) + (snd r - snd old) - (fst r - snd l).
Definition right_length (l r old:iv) : bool :=
  (Z.abs (fst r - snd l) <=? EXON_LENGTH) && (Z.abs (fst old - fst l) <=? SIDE_DIFF) && (Z.abs (snd r - snd old) <=? SIDE_DIFF).
Definition one_differs (l r old:iv) : bool := negb (fst l =? fst old) || negb (snd r =? snd old).
(* for k in range(0, len - 1): for l in range(k, len) *)
Fixpoint kl_pairs (l:list iv) : list (iv * iv) :=
  match l with x :: ((_ :: _) as t) => map (fun y => (x, y)) (x :: t) ++ kl_pairs t | _ => [] end.
Definition ill_one (short:list iv) (i:iv) : list iv :=
  let '(score, sh, ov) :=
    fold_left (fun (st:Z * iv * list iv) s =>
      let '(score, sh, ov) := st in
      if py_overlaps i s then
        let x := Z.abs (fst i - fst s) + Z.abs (snd i - snd s) in
        (if x <? score then (x, s, ov ++ [s]) else (score, sh, ov ++ [s]))
      else st) short (MAX_SCORE, ABSENT_INTRON, []) in
  if ((fst i =? fst sh) && (snd i =? snd sh - 4)) || ((snd i =? snd sh) && (fst sh =? fst i - 4)) then [sh]
  else if (1 <? Z.of_nat (length ov)) then
    let '(_, lft, rgt) :=
      fold_left (fun (st:Z * iv * iv) xy =>
        let '(score, lft, rgt) := st in let x := fst xy in let y := snd xy in
        if snd x <? fst y then
          (if right_length x y i && one_differs x y i && (skipped_score x y i <? score) then (skipped_score x y i, x, y) else st)
        else if fst x >? snd y then
          (if right_length y x i && one_differs y x i && (skipped_score y x i <? score) then (skipped_score y x i, y, x) else st)
        else st) (kl_pairs ov) (MAX_SCORE, ABSENT_INTRON, ABSENT_INTRON) in
    if negb (iv_eqb lft ABSENT_INTRON) then [lft; rgt] else [i]
  else [i].
Definition ill_corrected_introns (short:list iv) (exons:list iv) : list iv := flat_map (ill_one short) (jfb exons).
(* `short` is the set of short-read introns in the order Python iterates over it *)
Definition illumina_correct_exons_unrepaired (short:list iv) (exons:list iv) : list iv :=
  get_exons (hull exons) (ill_corrected_introns short exons).
(* fixes/C14_illumina_read_span.diff: a correction that moves the read's ends or yields empty / overlapping exons is dropped *)
Definition valid_correction (exons cex:list iv) : bool :=
  negb (length cex =? 0)%nat && (fst (hd (0,0) cex) =? fst (hd (0,0) exons)) && (snd (last cex (0,0)) =? snd (last exons (0,0))) && sd_b cex.
Definition illumina_correct_exons (short:list iv) (exons:list iv) : list iv :=
  let cex := illumina_correct_exons_unrepaired short exons in if valid_correction exons cex then cex else exons.

(* ---------------------------------------------------------------- BED12 row *)
Record bedrow := mkbed { chromStart : Z; chromEnd : Z; thickStart : Z; thickEnd : Z; blockCount : Z; blockSizes : list Z; blockStarts : list Z }.
Definition bed_row (ex:list iv) : bedrow :=
  let s := fst (hd (0,0) ex) in
  mkbed (s - 1) (snd (last ex (0,0))) (s - 1) (s - 1) (Z.of_nat (length ex)) (bed_sizes ex) (bed_starts ex).
Definition bedrow_eqb (a b:bedrow) : bool :=
  (chromStart a =? chromStart b) && (chromEnd a =? chromEnd b) && (thickStart a =? thickStart b) && (thickEnd a =? thickEnd b) &&
  (blockCount a =? blockCount b) && zs_eqb (blockSizes a) (blockSizes b) && zs_eqb (blockStarts a) (blockStarts b).

(* ---------------------------------------------------------------- decidable well-formedness *)
(* what one loop iteration does with the position: it makes progress and does not jump beyond the read's introns *)
Definition block_ok (n:Z) (b:block) : bool := (b_i b <? b_next b) && (b_next b <=? n).
Definition inside (reg:iv) (x:iv) : bool := (fst reg <? fst x) && (snd x <? snd reg).

(* the hypothesis of corrected_exons_wf, a decidable predicate on the corrector's input: the read's exons are well-formed with
   a gap between consecutive ones; no branch raises; every event region visited makes progress and stays in range; the
   introns the branches select are well-formed, start-ordered and strictly inside the corrected read region *)
Definition events_wf_v (vr:variant) (fl:flags) (c:cin) : bool :=
  sdg_b (c_exons c) && negb (length (c_exons c) =? 0)%nat &&
  (early_return c ||
   match c_blocks_v vr fl c with
   | Ok bs => let reg := final_region (c_region c) bs in
              forallb (block_ok (Z.of_nat (length (c_introns c)))) bs &&
              mono_b (emitted bs) && (fst reg <=? snd reg) && forallb (inside reg) (emitted bs)
   | Raises _ => false
   end).
Notation events_wf := (events_wf_v repaired).

(* event regions as the comparator emits them: non-negative positions, first <= last (the first may be the `absent` marker) *)
Definition regions_ordered (evs:list event) : bool :=
  forallb (fun e => if fst (e_read e) =? absent_position then 0 <=? snd (e_read e)
                    else (0 <=? fst (e_read e)) && (fst (e_read e) <=? snd (e_read e))) evs.

(* ---------------------------------------------------------------- decidable specifications (also evaluated on implementation output) *)
Definition left_terminal_enabled (fl:flags) (e:event) : bool :=
  (is_type e MES_fake_terminal_exon_left && f_fake_terminal fl) || (is_type e MES_terminal_exon_misalignment_left && f_terminal fl).
Definition right_terminal_enabled (fl:flags) (e:event) : bool :=
  (is_type e MES_fake_terminal_exon_right && f_fake_terminal fl) || (is_type e MES_terminal_exon_misalignment_right && f_terminal fl).
Definition ends_ok (fl:flags) (c:cin) (ex:list iv) : bool :=
  negb (length ex =? 0)%nat &&
  ((fst (hd (0,0) ex) =? fst (c_region c)) || (negb (early_return c) && existsb (left_terminal_enabled fl) (c_events c))) &&
  ((snd (last ex (0,0)) =? snd (c_region c)) || (negb (early_return c) && existsb (right_terminal_enabled fl) (c_events c))).

Definition side (left:bool) (x:iv) : Z := if left then fst x else snd x.
Definition isoform_flags (fl:flags) : bool := f_shifts fl || f_skipped fl || f_terminal fl || f_microintron fl.
(* an intron coordinate of the corrected alignment is the read's own, or the corresponding coordinate of an annotated intron
   within delta of a read intron (fuzzy-junction flag), or that of an intron of the assigned isoform (a flag that inserts or
   restores isoform introns) *)
Definition site_allowed (fl:flags) (c:cin) (left:bool) (p:Z) : bool :=
  existsb (fun r => side left r =? p) (c_introns c) ||
  (f_fuzzy fl && existsb (fun r => existsb (fun k => py_equal_ranges r k (c_delta c) && (side left k =? p)) (c_known c)) (c_introns c)) ||
  (isoform_flags fl && negb (early_return c) && existsb (fun x => side left x =? p) (c_isointrons c)).
Definition sites_ok (fl:flags) (c:cin) (ex:list iv) : bool :=
  forallb (fun j => site_allowed fl c true (fst j) && site_allowed fl c false (snd j)) (jfb ex).

(* ---------------------------------------------------------------- Illumina corrector: hypothesis and site specification *)
(* the introns the short-read corrector selects are well-formed, start-ordered and strictly inside the read *)
Definition illumina_wf (short exons:list iv) : bool :=
  sdg_b exons && negb (length exons =? 0)%nat &&
  (let sel := ill_corrected_introns short exons in mono_b sel && forallb (inside (hull exons)) sel).
Definition illumina_sites_ok (short exons ex:list iv) : bool :=
  forallb (fun j => (existsb (fun r => fst r =? fst j) (jfb exons) || existsb (fun s => fst s =? fst j) short) &&
                    (existsb (fun r => snd r =? snd j) (jfb exons) || existsb (fun s => snd s =? snd j) short)) (jfb ex).

(* ---------------------------------------------------------------- BED12 validity of a row *)
Fixpoint asc_b (starts sizes:list Z) : bool :=
  match starts, sizes with
  | s1 :: ((s2 :: _) as st), z1 :: zt => (s1 + z1 <=? s2) && asc_b st zt
  | _, _ => true end.
Definition bed_valid_b (r:bedrow) : bool :=
  (0 <=? chromStart r) && (chromStart r <? chromEnd r) &&
  (0 <? blockCount r) && (blockCount r =? Z.of_nat (length (blockSizes r))) && (blockCount r =? Z.of_nat (length (blockStarts r))) &&
  forallb (fun z => 0 <? z) (blockSizes r) && (hd (-1) (blockStarts r) =? 0) && asc_b (blockStarts r) (blockSizes r) &&
  (last (blockStarts r) 0 + last (blockSizes r) 0 =? chromEnd r - chromStart r) &&
  (chromStart r <=? thickStart r) && (thickStart r <=? thickEnd r) && (thickEnd r <=? chromEnd r).

(* ---------------------------------------------------------------- pipeline level: one record of corrected_reads.bed (DESIGN Appendix E, bed_ok) *)
Record bedctx := mkctx { x_flags : flags; x_delta : Z; x_chrlen : Z; x_annot : list iv; x_illumina : bool; x_short : list iv }.
Record bedcase := mkcase {
  k_ctx : nat;                     (* which run / chromosome *)
  k_row : bedrow;
  k_tsv : list iv;                 (* exons column of read_assignments.tsv = the uncorrected alignment *)
  k_assigned : bool;               (* the first TSV line of the record names an isoform *)
  k_left : bool * bool;            (* (fake_terminal_exon, terminal_exon_misalignment) listed for the left end in that line *)
  k_right : bool * bool;
  k_iso : list iv;                 (* introns of that isoform in the GTF *)
  k_traced : option (list iv) }.   (* corrected exons the wrapper logged for this alignment *)
Definition row_exons (r:bedrow) : list iv :=
  map (fun p => (chromStart r + fst p + 1, chromStart r + fst p + snd p)) (combine (blockStarts r) (blockSizes r)).
Definition site_src (x:bedctx) (k:bedcase) (left:bool) (p:Z) : bool :=
  let fl := x_flags x in
  existsb (fun r => side left r =? p) (jfb (k_tsv k)) ||
  (k_assigned k && f_fuzzy fl &&
   existsb (fun r => existsb (fun a => py_equal_ranges r a (x_delta x) && (side left a =? p)) (x_annot x)) (jfb (k_tsv k))) ||
  (k_assigned k && isoform_flags fl && existsb (fun i => side left i =? p) (k_iso k)) ||
  (x_illumina x && negb (k_assigned k) && existsb (fun s => side left s =? p) (x_short x)).
Definition bed_ok (x:bedctx) (k:bedcase) : bool :=
  let r := k_row k in let ex := row_exons r in let fl := x_flags x in
  bed_valid_b r && (chromEnd r <=? x_chrlen x) &&
  ((fst (hd (0,0) ex) =? fst (hd (0,0) (k_tsv k))) ||
   (k_assigned k && ((fst (k_left k) && f_fake_terminal fl) || (snd (k_left k) && f_terminal fl)))) &&
  ((snd (last ex (0,0)) =? snd (last (k_tsv k) (0,0))) ||
   (k_assigned k && ((fst (k_right k) && f_fake_terminal fl) || (snd (k_right k) && f_terminal fl)))) &&
  forallb (fun j => site_src x k true (fst j) && site_src x k false (snd j)) (jfb ex) &&
  (negb ((k_assigned k && flags_eqb fl no_flags) || (negb (k_assigned k) && negb (x_illumina x))) || ivs_eqb ex (k_tsv k)).
(* the record is the row of the corrected exons the corrector returned *)
Definition bed_is_traced_row (k:bedcase) : bool :=
  match k_traced k with Some ex => bedrow_eqb (bed_row ex) (k_row k) | None => true end.
