(* Decidable comparisons for the C09 grouper correspondences (model vs real grouper; specification on the real grouper's answer). *)
From Coq Require Import ZArith List Bool Lia.
From IQ Require Import GroupedGroupers.
Import ListNotations.
Open Scope Z_scope.

Definition registered (g:option str) (reg:list str) : bool := match g with Some x => existsb (str_eqb x) reg | None => false end.
Definition is_some {A} (o:option A) : bool := match o with Some _ => true | None => false end.
Definition is_na (g:option str) : bool := ostr_eqb g (Some NA).
Fixpoint is_suffix_fuel (n:nat) (a s:str) : bool :=
  str_eqb a s || match n, s with Datatypes.S n', _ :: t => is_suffix_fuel n' a t | _, _ => false end.
Definition is_suffix (a s:str) : bool := is_suffix_fuel (length s) a s.

(* tag: (value of the tag on the alignment, answer of get_group_id, read_groups afterwards) *)
Definition check_tag (c:option str * option str * list str) : bool := let '(v, impl, reg) := c in ostr_eqb (Some (tag_group v)) impl.
Definition prop_tag (c:option str * option str * list str) : bool :=
  let '(v, impl, reg) := c in registered impl reg && match v with None => is_na impl | Some x => ostr_eqb impl (Some x) end.

(* read id: (delimiter, read name, answer, read_groups afterwards) *)
Definition check_read_id (c:str * str * option str * list str) : bool := let '(d, name, impl, reg) := c in ostr_eqb (Some (read_id_group d name)) impl.
Definition prop_read_id (c:str * str * option str * list str) : bool :=
  let '(d, name, impl, reg) := c in
  registered impl reg &&
  (if occurs d name then match impl with Some g => is_suffix (d ++ g) name && negb (occurs d g) | None => false end else is_na impl).

(* table: (read column, group column, delimiter, lines of the table, read name, answer, read_groups afterwards) *)
Definition check_table (c:Z * Z * str * list str * str * option str * list str) : bool :=
  let '(rc, gc, d, lines, name, impl, reg) := c in ostr_eqb (Some (table_group (Z.to_nat rc) (Z.to_nat gc) d lines name)) impl.
Definition prop_table (c:Z * Z * str * list str * str * option str * list str) : bool :=
  let '(rc, gc, d, lines, name, impl, reg) := c in
  registered impl reg &&
  match lookup_last (load_table (Z.to_nat rc) (Z.to_nat gc) d lines) name with
  | None => is_na impl
  | Some g => ostr_eqb impl (Some g) || (negb (str_eqb (strip g) g) || occurs [9] g || str_eqb g []) (* entries that do not survive the per-chromosome rewrite *)
  end.

(* file name: (libraries = lists of file names, file name passed to get_group_id, answer, read_groups afterwards) *)
Definition check_file_name (c:list (list str) * option str * option str * list str) : bool :=
  let '(libs, f, impl, reg) := c in ostr_eqb (Some (file_name_group (names_dict libs) f)) impl.
Definition prop_file_name (c:list (list str) * option str * option str * list str) : bool :=
  let '(libs, f, impl, reg) := c in
  registered impl reg &&
  match f with None => is_na impl | Some [] => is_na impl
  | Some x => match lookup_first (names_dict libs) x with Some l => ostr_eqb impl (Some l) | None => ostr_eqb impl (Some x) end end.
