(* C18 (and the id part of construct_fl_isoforms for C17) — decidable specifications evaluated on the implementation's outputs,
   and the glue of the correspondences. *)
From Coq Require Import ZArith List Bool Lia.
From IQ Require Import CorrSupport Ids IdsSpec Canon.
Import ListNotations. Open Scope Z_scope.

Definition introns_eqb : list intron -> list intron -> bool := list_eqb intron_eqb.
Definition bools_eqb : list bool -> list bool -> bool := list_eqb Bool.eqb.
Definition strands_eqb : list strand -> list strand -> bool := list_eqb strand_eqb.
Definition flag_eqb (a b:flag) : bool := match a, b with Unspliced, Unspliced => true | Flag x, Flag y => Bool.eqb x y | _, _ => false end.

(* a "chromosome" as a string (1-based positions) and a stored window cut out of it as set_reference_sequence does *)
Definition ref_of (text:str) (p:Z) : Z := nth (Z.to_nat (p - 1)) text 0.
Definition window_of (text:str) (ws we:Z) : window := {| wstart := ws; wseq := py_slice text (ws - 1) we |}.
Definition inside_b (w:window) (i:intron) : bool := (wstart w <=? fst i) && (fst i <? snd i) && (snd i <? wstart w + wlen w).

(* ------------------------------------------------------------------ site sets as found in src/common.py (sorted lists of pairs) *)
Definition pairs_subset (a b:list (str * str)) : bool := forallb (fun p => in_sites b p) a.
Definition sites_check (c:list (str * str) * list (str * str)) : bool :=
  pairs_subset (fst c) fwd_sites && pairs_subset fwd_sites (fst c) && pairs_subset (snd c) rev_sites && pairs_subset rev_sites (snd c).
(* the property's reading: the reverse set is the mirror image of the forward set, and the forward set is GT-AG, GC-AG, AT-AC *)
Definition sites_prop (c:list (str * str) * list (str * str)) : bool :=
  pairs_subset (snd c) (map mirror (fst c)) && pairs_subset (map mirror (fst c)) (snd c) &&
  pairs_subset (fst c) [([71;84],[65;71]); ([71;67],[65;71]); ([65;84],[65;67])] && (length (fst c) =? 3)%nat.

(* ------------------------------------------------------------------ check_sites_are_canonical: histories of queries on one gene_info *)
(* case: ((text, ws, we, queries), answers) *)
Definition history_check (c:(str * Z * Z * list (strand * list intron)) * list bool) : bool :=
  let '(text, ws, we, qs) := fst c in bools_eqb (snd (run_queries (window_of text ws we) [] qs)) (snd c).
(* every answer is the conjunction of the declarative test on the chromosome itself *)
Definition history_prop (c:(str * Z * Z * list (strand * list intron)) * list bool) : bool :=
  let '(text, ws, we, qs) := fst c in
  bools_eqb (map (fun q => forallb (canonical_ref (ref_of text) (fst q)) (snd q)) qs) (snd c).
(* does every queried intron lie inside the window?  (used by the harness to compute the known-finding key) *)
Definition history_inside (c:(str * Z * Z * list (strand * list intron)) * list bool) : bool :=
  let '(text, ws, we, qs) := fst c in forallb (fun q => forallb (inside_b (window_of text ws we)) (snd q)) qs.

(* ------------------------------------------------------------------ flags of models and reads, through one shared gene_info *)
Inductive flag_op := ReadOp (st:strand) (exons:list intron) | ModelOp (existing:option flag) (st:strand) (exons:list intron).
Fixpoint run_flag_ops (w:window) (m:memo) (ops:list flag_op) : list (option flag) :=
  match ops with
  | [] => []
  | ReadOp st ex :: t => let '(m1, f) := read_flag w m st ex in f :: run_flag_ops w m1 t
  | ModelOp e st ex :: t => let '(m1, f) := model_flag w m e st ex in f :: run_flag_ops w m1 t
  end.
Definition oflags_eqb : list (option flag) -> list (option flag) -> bool := list_eqb (opt_eqb flag_eqb).
Definition flag_ref (text:str) (st:strand) (exons:list intron) : flag :=
  match jfb exons with [] => Unspliced | l => Flag (forallb (canonical_ref (ref_of text) st) l) end.
(* case: ((text, ws, we, ops), flags); an empty window (we < ws) models a gene_info without reference *)
Definition flags_check (c:(str * Z * Z * list flag_op) * list (option flag)) : bool :=
  let '(text, ws, we, ops) := fst c in oflags_eqb (run_flag_ops (window_of text ws we) [] ops) (snd c).
Definition flags_prop (c:(str * Z * Z * list flag_op) * list (option flag)) : bool :=
  let '(text, ws, we, ops) := fst c in
  let no_ref := match wseq (window_of text ws we) with [] => true | _ => false end in
  oflags_eqb (map (fun o => match o with
                            | ReadOp st ex => if no_ref then None else Some (flag_ref text st ex)
                            | ModelOp (Some f) _ _ => Some f
                            | ModelOp None st ex => if no_ref then None else Some (flag_ref text st ex)
                            end) ops) (snd c).
Definition flags_inside (c:(str * Z * Z * list flag_op) * list (option flag)) : bool :=
  let '(text, ws, we, ops) := fst c in
  forallb (fun o => match o with ReadOp _ ex | ModelOp _ _ ex => forallb (inside_b (window_of text ws we)) (jfb ex) end) ops.

(* ------------------------------------------------------------------ common.get_intron_strand / get_strand / count_noncanonincal on plain strings *)
(* case: ((text, ref_region_start, introns, strand for the count), (strand of each intron, get_strand of all, count_noncanonincal)) *)
Definition common_check (c:(str * Z * list intron * strand) * (list strand * strand * Z)) : bool :=
  let '(text, start, l, st) := fst c in let w := {| wstart := start; wseq := text |} in
  let '(each, all, cnt) := snd c in
  strands_eqb (map (get_intron_strand w) l) each && strand_eqb (common_get_strand w l) all && (count_noncanonical w st l =? cnt).
(* get_intron_strand: '+' iff canonical on '+' in the chromosome, '-' iff canonical on '-' (introns inside the string) *)
Definition common_prop (c:(str * Z * list intron * strand) * (list strand * strand * Z)) : bool :=
  let '(text, start, l, st) := fst c in let w := {| wstart := start; wseq := text |} in
  let '(each, all, cnt) := snd c in
  (length each =? length l)%nat &&
  forallb (fun p => negb (inside_b w (fst p)) ||
                    (Bool.eqb (strand_eqb (snd p) Plus) (canonical_on w Plus (fst p)) && Bool.eqb (strand_eqb (snd p) Minus) (canonical_on w Minus (fst p)))) (combine l each).

(* ------------------------------------------------------------------ StrandDetector and get_assignment_strand: histories through one detector *)
Inductive det_op :=
  | GetStrand (l:list intron) (pa pt:bool)
  | GetClean (l:list intron)
  | ReadStrand (matched:option strand) (ext_a int_a ext_t int_t:Z) (n_exons:Z) (l:list intron).
Fixpoint run_det_ops (w:window) (d:sdict) (ops:list det_op) : sdict * list strand :=
  match ops with
  | [] => (d, [])
  | GetStrand l pa pt :: t => let '(d1, s) := detector_get_strand w d l pa pt in let '(d2, r) := run_det_ops w d1 t in (d2, s :: r)
  | GetClean l :: t => let '(d1, s) := detector_get_clean_strand w d l in let '(d2, r) := run_det_ops w d1 t in (d2, s :: r)
  | ReadStrand m ea ia et it n l :: t => let '(d1, s) := get_assignment_strand w d m ea ia et it n l in let '(d2, r) := run_det_ops w d1 t in (d2, s :: r)
  end.
Definition sdict_eqb (a b:sdict) : bool :=
  forallb (fun e => opt_eqb strand_eqb (slook (fst e) b) (Some (snd e))) a && forallb (fun e => opt_eqb strand_eqb (slook (fst e) a) (Some (snd e))) b.
(* case: ((text, isoforms used for pre-seeding, ops), (answers, final strand_dict)); the detector reads the whole chromosome (start 1) *)
Definition detector_check (c:(str * list isoform * list det_op) * (list strand * sdict)) : bool :=
  let '(text, isoforms, ops) := fst c in let w := {| wstart := 1; wseq := text |} in
  let '(d, r) := run_det_ops w (preseed w isoforms) ops in strands_eqb r (fst (snd c)) && sdict_eqb d (snd (snd c)).
(* pure specification: every answer is the decision on the tally of the evidence, whatever was asked before *)
Definition det_spec (w:window) (d0:sdict) (o:det_op) : strand :=
  match o with
  | GetStrand l pa pt => let '(f, r) := tally w d0 l in decide_strand f r pa pt
  | GetClean l => let '(f, r) := tally w d0 l in decide_clean f r
  | ReadStrand (Some s) _ _ _ _ _ _ => s
  | ReadStrand None ea ia et it n l =>
      let pa := negb (ea =? -1) || negb (ia =? -1) in let pt := negb (et =? -1) || negb (it =? -1) in
      if n =? 1 then decide_strand 0 0 pa pt else let '(f, r) := tally w d0 l in decide_strand f r pa pt
  end.
Definition detector_prop (c:(str * list isoform * list det_op) * (list strand * sdict)) : bool :=
  let '(text, isoforms, ops) := fst c in let w := {| wstart := 1; wseq := text |} in
  strands_eqb (map (det_spec w (preseed w isoforms)) ops) (fst (snd c)).

(* ------------------------------------------------------------------ construct_fl_isoforms / generate_monoexon_from_clustered *)
Definition gene_eqb (a b:model_gene) : bool := match a, b with RefGene x, RefGene y => x =? y | NovelGene x, NovelGene y => str_eqb x y | _, _ => false end.
Definition fl_out_eqb (a b:fl_out) : bool :=
  match a, b with
  | NoModel, NoModel | Known, Known => true
  | Novel s t g n, Novel s' t' g' n' => strand_eqb s s' && str_eqb t t' && gene_eqb g g' && Bool.eqb n n'
  | _, _ => false end.
(* case: ((text, params, (empty, gene strands, known introns), isoforms, (has_db, chr, db), start value, paths in processing order),
          (outputs, final distributor value, final strand_dict)) *)
Notation fl_input := (str * params * (bool * list (Z * strand) * list intron) * list isoform * (bool * str * list db_feature) * Z * list path)%type.
Definition fl_ctx (c:fl_input) :=
  let '(text, pr, (ge, gs, ki), isoforms, (has_db, chr, db), v0, ps) := c in
  let w := {| wstart := 1; wseq := text |} in
  (w, {| g_empty := ge; g_intron_genes := intron_genes_of isoforms; g_strands := gs; g_known_introns := ki |}, preseed w isoforms, db_forbidden has_db chr db).
Definition fl_check (c:fl_input * (list fl_out * Z * sdict)) : bool :=
  let '(text, pr, gg, isoforms, (has_db, chr, db), v0, ps) := fst c in
  let '(w, g, d0, forb) := fl_ctx (fst c) in
  let '((v, d), outs) := fl_run w pr g forb chr (v0, d0) ps in
  let '(outs', v', d') := snd c in list_eqb fl_out_eqb outs outs' && (v =? v') && sdict_eqb d d'.
(* C18 reading of the outputs: the strand of every reported novel model is the pure decision on the evidence of its introns
   (for a model placed in a reference gene an undecided strand is replaced by the gene's), and is never '.' below level "all"
   for a model in a new gene *)
Definition fl_strand_prop (c:fl_input * (list fl_out * Z * sdict)) : bool :=
  let '(text, pr, gg, isoforms, (has_db, chr, db), v0, ps) := fst c in
  let '(w, g, d0, forb) := fl_ctx (fst c) in
  let '(outs', _, _) := snd c in
  (length outs' =? length ps)%nat &&
  forallb (fun po => let '(p, o) := po in
             match o with
             | Novel st _ gene _ =>
                 let '(f, r) := tally w d0 (p_introns p) in let dec := decide_strand f r (p_polya p) (p_polyt p) in
                 match gene with
                 | NovelGene _ => strand_eqb st dec && (match report_level pr with ReportAll => true | _ => negb (strand_eqb st Dot) end)
                 | RefGene gid => match dec with Dot => opt_eqb strand_eqb (zlook gid (g_strands g)) (Some st) | _ => strand_eqb st dec end
                 end
             | _ => true
             end) (combine ps outs').
(* C17 reading of the outputs: transcript ids pairwise distinct, new gene ids pairwise distinct, none of them an id of the reference
   on that chromosome, generated shape with the suffix .nic iff every intron is a known intron *)
Definition fl_ids_prop (c:fl_input * (list fl_out * Z * sdict)) : bool :=
  let '(text, pr, gg, isoforms, (has_db, chr, db), v0, ps) := fst c in
  let '(w, g, d0, forb) := fl_ctx (fst c) in
  let '(outs', _, _) := snd c in
  let tids := flat_map (fun o => match o with Novel _ t _ _ => [t] | _ => [] end) outs' in
  let gids := flat_map (fun o => match o with Novel _ _ (NovelGene x) _ => [x] | _ => [] end) outs' in
  snodup tids && snodup gids &&
  forallb (fun t => negb (has_db && smem t (transcripts_of chr db))) tids && forallb (fun x => negb (has_db && smem x (genes_of chr db))) gids &&
  forallb (fun po => let '(p, o) := po in
             match o with
             | Novel _ t gene nic =>
                 Bool.eqb nic (forallb (fun i => existsb (intron_eqb i) (g_known_introns g)) (p_introns p)) &&
                 match is_transcript_id_of chr t with Some (n, nic') => Bool.eqb nic nic' && (v0 <? n) | None => false end &&
                 match gene with NovelGene x => match is_novel_gene_id_of chr x with Some n => v0 <? n | None => false end | RefGene _ => true end
             | _ => true
             end) (combine ps outs') &&
  (* a number is never used twice *)
  snodup (flat_map (fun o => match o with
                            | Novel _ t gene _ => match is_transcript_id_of chr t with Some (n, _) => [print_dec n] | None => [] end ++
                                                  match gene with NovelGene x => match is_novel_gene_id_of chr x with Some n => [print_dec n] | None => [] end | _ => [] end
                            | _ => [] end) outs').

Definition mono_out_eqb (a b:mono_out) : bool :=
  match a, b with
  | MonoNone, MonoNone | MonoSkipped, MonoSkipped => true
  | Mono s t g c, Mono s' t' g' c' => strand_eqb s s' && str_eqb t t' && str_eqb g g' && intron_eqb c c'
  | _, _ => false end.
(* case: ((cutoff, (has_db, chr, db), forward, start value, existing models, clusters), (outputs, final value)) *)
Notation mono_input := (Z * (bool * str * list db_feature) * bool * Z * list (list intron) * list cluster)%type.
Definition mono_check (c:mono_input * (list mono_out * Z)) : bool :=
  let '(cutoff, (has_db, chr, db), fw, v0, models, cs) := fst c in
  let '((v, _), outs) := mono_run cutoff (db_forbidden has_db chr db) chr fw (v0, models) cs in
  list_eqb mono_out_eqb outs (fst (snd c)) && (v =? snd (snd c)).
Definition mono_prop (c:mono_input * (list mono_out * Z)) : bool :=
  let '(cutoff, (has_db, chr, db), fw, v0, models, cs) := fst c in
  let outs := fst (snd c) in
  let tids := flat_map (fun o => match o with Mono _ t _ _ => [t] | _ => [] end) outs in
  let gids := flat_map (fun o => match o with Mono _ _ g _ => [g] | _ => [] end) outs in
  snodup tids && snodup gids &&
  forallb (fun t => negb (has_db && smem t (transcripts_of chr db))) tids && forallb (fun x => negb (has_db && smem x (genes_of chr db))) gids &&
  forallb (fun o => match o with
                    | Mono st t g _ => strand_eqb st (if fw then Plus else Minus) &&
                                       match is_transcript_id_of chr t with Some (n, nic) => negb nic && (v0 <? n) | None => false end &&
                                       match is_novel_gene_id_of chr g with Some n => v0 <? n | None => false end
                    | _ => true end) outs &&
  snodup (flat_map (fun o => match o with
                            | Mono _ t g _ => match is_transcript_id_of chr t with Some (n, _) => [print_dec n] | None => [] end ++
                                              match is_novel_gene_id_of chr g with Some n => [print_dec n] | None => [] end
                            | _ => [] end) outs).

(* ------------------------------------------------------------------ canon_ok: printed flags of a run against the FASTA *)
(* a record of the read table or a transcript of a GTF: strand as printed, exon blocks, printed flag (None: no Canonical field),
   and for every pair of consecutive blocks the dinucleotide pair the harness cut out of the FASTA:
   (bases l, l+1, bases r-1, r) of the gap l..r between them *)
Notation canon_rec := (strand * list intron * option flag * list (intron * (str * str)))%type.
Definition pair_of (tab:list (intron * (str * str))) (i:intron) : option (str * str) :=
  match find (fun e => intron_eqb (fst e) i) tab with Some e => Some (snd e) | None => None end.
Definition canonical_pairs (st:strand) (tab:list (intron * (str * str))) (l:list intron) : option bool :=
  fold_right (fun i acc => match acc, pair_of tab i with Some b, Some p => Some (in_sites (sites st) (upper_pair p) && b) | _, _ => None end) (Some true) l.
(* leniency: without a strand ('.') the property does not say which set applies: True is accepted when all introns are canonical
   on one of the strands, False always *)
Definition canon_rec_ok (must_have:bool) (r:canon_rec) : bool :=
  let '(st, exons, fl, tab) := r in
  match fl with
  | None => negb must_have
  | Some Unspliced => match jfb exons with [] => true | _ => false end
  | Some (Flag b) =>
      match jfb exons with
      | [] => false
      | l => match st with
             | Dot => negb b || match canonical_pairs Plus tab l, canonical_pairs Minus tab l with Some x, Some y => x || y | _, _ => false end
             | _ => match canonical_pairs st tab l with Some x => Bool.eqb x b | None => false end
             end
      end
  end.
Definition canon_ok (must_have:bool) (rs:list canon_rec) : bool := forallb (canon_rec_ok must_have) rs.
