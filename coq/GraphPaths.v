(* C04 - how full-length paths come about (src/graph_based_model_construction.py: IntronPathStorage.fill, IntronPathProcessor.thread_introns /
   thread_ends / thread_starts) as an EXECUTABLE function.  In this version of the code paths are not enumerated by a graph traversal: every
   non-multimapped read is threaded through the simplified graph (its corrected introns through the correction map), and a terminal vertex /
   a starting vertex is chosen among the terminal vertices attached to its last / first intron; a path with both is full-length.

   Inputs that remain as logged facts of the finished graph (not computed here): the terminal vertices attached by attach_terminal_positions and
   the intron neighbours of both edge dictionaries.

   Theorems: a full-length path consists of a starting vertex attached to its first intron, the threaded image of the read's introns, and a
   terminal vertex attached to its last intron; its introns are vertices (threaded_path_in_vertices); consecutive introns of a path need NOT be
   joined by an edge of the simplified graph (witness: remove_singleton_dead_ends cuts edges without discarding the introns). *)
From Coq Require Import ZArith NArith List Bool Lia ZifyBool.
From IQ Require Import Exons Graph GraphProofs.
Import ListNotations. Open Scope Z_scope.

Definition VERTEX_polya : Z := -10.
Definition VERTEX_read_end : Z := -11.
Definition VERTEX_polyt : Z := -20.
Definition VERTEX_read_start : Z := -21.

(* the finished graph as the path processor sees it; a terminal vertex is (kind, position) *)
Record fgraph := mkF {
  f_out : list (iv * iv);      (* (u, v): intron v in outgoing_edges[u] *)
  f_in : list (iv * iv);       (* (v, u): intron u in incoming_edges[v] *)
  f_tout : list (iv * iv);     (* (u, t): terminal vertex t (polyA / read end) in outgoing_edges[u] *)
  f_tin : list (iv * iv) }.    (* (v, t): starting vertex t (polyT / read start) in incoming_edges[v] *)
Record pparams := mkPP { pp_delta : Z; pp_apa : Z; pp_requires_polya : bool }.

Definition nbrs (E : list (iv * iv)) (u : iv) : list iv := map snd (filter (fun e => iv_eqb (fst e) u) E).
Definition of_kind (k : Z) (l : list iv) : list iv := filter (fun v => fst v =? k) l.
(* stable sort by position *)
Fixpoint insert_pos (x : iv) (l : list iv) : list iv :=
  match l with [] => [x] | y :: t => if snd x <=? snd y then x :: y :: t else y :: insert_pos x t end.
Definition sort_pos (l : list iv) : list iv := fold_right insert_pos [] l.
Definition maxz (l : list Z) : Z := fold_left Z.max l (match l with x :: _ => x | [] => 0 end).
Definition minz (l : list Z) : Z := fold_left Z.min l (match l with x :: _ => x | [] => 0 end).
Definition last2 {A} (l : list A) : option (A * option A) :=      (* (last, second last) *)
  match rev l with [] => None | x :: [] => Some (x, None) | x :: y :: _ => Some (x, Some y) end.

(* IntronPathProcessor.thread_ends(intron, end, trusted) *)
Definition thread_ends (G : fgraph) (P : pparams) (intron : iv) (e : Z) (trusted : bool) : option iv :=
  let ts := nbrs (f_tout G) intron in
  let polyas := sort_pos (of_kind VERTEX_polya ts) in
  match (if trusted then find (fun v => Z.abs (snd v - e) <=? pp_apa P) polyas else None) with
  | Some v => Some v
  | None =>
    let outs := nbrs (f_out G) intron in
    if negb (is_nil outs) && negb trusted && (e <=? maxz (map fst outs) - 1 + pp_delta P) then None
    else
      let all := sort_pos (sort_pos (of_kind VERTEX_read_end ts) ++ polyas) in
      match last2 all with
      | None => None
      | Some (rightmost, second) =>
          if trusted && (snd rightmost <=? e) && (fst rightmost =? VERTEX_read_end) then Some rightmost
          else if negb trusted && (e <=? snd rightmost + pp_apa P) && match second with None => true | Some s => snd s <? e end then Some rightmost
          else None
      end
  end.

(* IntronPathProcessor.thread_starts(intron, start, trusted) *)
Definition thread_starts (G : fgraph) (P : pparams) (intron : iv) (st : Z) (trusted : bool) : option iv :=
  let ts := nbrs (f_tin G) intron in
  let polyts := sort_pos (of_kind VERTEX_polyt ts) in
  match (if trusted then find (fun v => Z.abs (snd v - st) <=? pp_apa P) polyts else None) with
  | Some v => Some v
  | None =>
    let ins := nbrs (f_in G) intron in
    if negb (is_nil ins) && negb trusted && (minz (map snd ins) + 1 - pp_delta P <=? st) then None
    else
      let all := sort_pos (sort_pos (of_kind VERTEX_read_start ts) ++ polyts) in
      match all with
      | [] => None
      | leftmost :: rest =>
          if trusted && (st <=? snd leftmost) && (fst leftmost =? VERTEX_read_start) then Some leftmost
          else if negb trusted && (snd leftmost <=? st) && match rest with [] => true | s :: _ => st <? snd s end then Some leftmost
          else None
      end
  end.

(* a read as IntronPathStorage.fill sees it *)
Record xread := mkXR { xr_mm : bool; xr_introns : list iv; xr_start : Z; xr_end : Z; xr_end_trusted : bool; xr_start_trusted : bool }.

(* the path of one read: (starting vertex, threaded introns, terminal vertex); None when the read is skipped *)
Definition path_of_read (s : gstate) (G : fgraph) (P : pparams) (r : xread) : option (option iv * list iv * option iv) :=
  if xr_mm r then None else
  match thread s (xr_introns r) with
  | None | Some [] => None
  | Some (x :: p) =>
      let path := x :: p in
      Some (thread_starts G P x (xr_start r) (xr_start_trusted r), path, thread_ends G P (last path x) (xr_end r) (xr_end_trusted r))
  end.
Definition is_full_length (P : pparams) (t : option iv * list iv * option iv) : bool :=
  match t with
  | (Some sv, _, Some tv) => negb (pp_requires_polya P) || (fst tv =? VERTEX_polya) || (fst sv =? VERTEX_polyt)
  | _ => false
  end.
(* path tuple as the implementation stores it: [start] + introns + [end] *)
Definition flat_path (t : option iv * list iv * option iv) : list iv :=
  let '(sv, p, tv) := t in (match sv with Some v => [v] | None => [] end) ++ p ++ (match tv with Some v => [v] | None => [] end).
Definition all_paths (s : gstate) (G : fgraph) (P : pparams) (reads : list xread) : list (option iv * list iv * option iv) :=
  flat_map (fun r => match path_of_read s G P r with Some t => [t] | None => [] end) reads.
Definition fl_paths (s : gstate) (G : fgraph) (P : pparams) (reads : list xread) : list (list iv) :=
  map flat_path (filter (is_full_length P) (all_paths s G P reads)).

(* what is compared with the implementation: path_storage.paths (with counts) and path_storage.fl_paths *)
Definition count_chain (c : list iv) (l : list (list iv)) : Z := Z.of_nat (length (filter (chain_eqb c) l)).
Definition fill_ok (s : gstate) (G : fgraph) (P : pparams) (reads : list xread) (paths : list (list iv * Z)) (fl : list (list iv)) : bool :=
  let mine := map flat_path (all_paths s G P reads) in
  forallb (fun e => count_chain (fst e) mine =? snd e) paths && forallb (fun c => mem_chain c (map fst paths)) mine &&
  same_chains (fl_paths s G P reads) fl.
Definition fill_trace_ok (reads0 : list read) (ops : list op) (G : fgraph) (P : pparams) (reads : list xread) (paths : list (list iv * Z)) (fl : list (list iv)) : bool :=
  match run (init reads0) ops with Some s => fill_ok s G P reads paths fl | None => false end.

(* ================================================================== proofs *)
Lemma insert_pos_In x y l : In y (insert_pos x l) <-> y = x \/ In y l.
Proof. induction l as [|z t IH]; cbn [insert_pos]; [cbn; intuition|]. destruct (snd x <=? snd z); cbn [In]; [intuition|]. rewrite IH. intuition. Qed.
Lemma sort_pos_In y l : In y (sort_pos l) <-> In y l.
Proof. induction l as [|x t IH]; cbn [sort_pos fold_right]; [tauto|]. rewrite insert_pos_In, IH. cbn [In]. intuition. Qed.
Lemma nbrs_In E u v : In v (nbrs E u) <-> In (u, v) E.
Proof. unfold nbrs. rewrite in_map_iff. split.
  - intros ([a b] & <- & A). apply filter_In in A. destruct A as [A B]. cbn [fst snd] in *. apply iv_eqb_eq in B. subst. exact A.
  - intros A. exists (u, v). split; [reflexivity|]. apply filter_In. split; [exact A|apply iv_eqb_refl]. Qed.
Lemma last2_In {A} (l : list A) x y : last2 l = Some (x, y) -> In x l.
Proof. unfold last2. destruct (rev l) as [|a [|b t]] eqn:E; [discriminate| |]; intros H; inversion H; subst; apply in_rev; rewrite E; left; reflexivity. Qed.

Lemma last_default {A} (l : list A) a b : l <> [] -> last l a = last l b.
Proof. induction l as [|x t IH]; intros H; [congruence|]. destruct t as [|y u]; [reflexivity|]. change (last (x :: y :: u) a) with (last (y :: u) a). change (last (x :: y :: u) b) with (last (y :: u) b). apply IH. discriminate. Qed.

(* a terminal vertex chosen for a read end is one of the terminal vertices attached to that intron: a polyA site or a read end *)
Theorem thread_ends_attached : forall G P intron e trusted v, thread_ends G P intron e trusted = Some v ->
  In (intron, v) (f_tout G) /\ (fst v = VERTEX_polya \/ fst v = VERTEX_read_end).
Proof. intros G P intron e trusted v H. unfold thread_ends in H.
  assert (K : forall x k, In x (sort_pos (of_kind k (nbrs (f_tout G) intron))) -> In (intron, x) (f_tout G) /\ fst x = k).
  { intros x k A. apply (proj1 (sort_pos_In _ _)) in A. unfold of_kind in A. apply filter_In in A. destruct A as [A B]. apply nbrs_In in A. apply Z.eqb_eq in B. auto. }
  destruct (if trusted then find (fun v0 => Z.abs (snd v0 - e) <=? pp_apa P) (sort_pos (of_kind VERTEX_polya (nbrs (f_tout G) intron))) else None) as [w|] eqn:F.
  - inversion H; subst. destruct trusted; [|discriminate]. apply find_some in F. destruct (K _ _ (proj1 F)). auto.
  - destruct (negb (is_nil (nbrs (f_out G) intron)) && negb trusted && (e <=? maxz (map fst (nbrs (f_out G) intron)) - 1 + pp_delta P)); [discriminate|].
    destruct (last2 _) as [[r sec]|] eqn:L; [|discriminate]. apply last2_In in L. apply (proj1 (sort_pos_In _ _)) in L. apply in_app_or in L.
    assert (X : In (intron, r) (f_tout G) /\ (fst r = VERTEX_polya \/ fst r = VERTEX_read_end)).
    { destruct L as [L|L]; destruct (K _ _ L); auto. }
    destruct (trusted && (snd r <=? e) && (fst r =? VERTEX_read_end)); [inversion H; subst; exact X|].
    destruct (negb trusted && (e <=? snd r + pp_apa P) && match sec with None => true | Some s => snd s <? e end); [inversion H; subst; exact X|discriminate]. Qed.

Theorem thread_starts_attached : forall G P intron st trusted v, thread_starts G P intron st trusted = Some v ->
  In (intron, v) (f_tin G) /\ (fst v = VERTEX_polyt \/ fst v = VERTEX_read_start).
Proof. intros G P intron st trusted v H. unfold thread_starts in H.
  assert (K : forall x k, In x (sort_pos (of_kind k (nbrs (f_tin G) intron))) -> In (intron, x) (f_tin G) /\ fst x = k).
  { intros x k A. apply (proj1 (sort_pos_In _ _)) in A. unfold of_kind in A. apply filter_In in A. destruct A as [A B]. apply nbrs_In in A. apply Z.eqb_eq in B. auto. }
  destruct (if trusted then find (fun v0 => Z.abs (snd v0 - st) <=? pp_apa P) (sort_pos (of_kind VERTEX_polyt (nbrs (f_tin G) intron))) else None) as [w|] eqn:F.
  - inversion H; subst. destruct trusted; [|discriminate]. apply find_some in F. destruct (K _ _ (proj1 F)). auto.
  - destruct (negb (is_nil (nbrs (f_in G) intron)) && negb trusted && (minz (map snd (nbrs (f_in G) intron)) + 1 - pp_delta P <=? st)); [discriminate|].
    destruct (sort_pos (sort_pos (of_kind VERTEX_read_start (nbrs (f_tin G) intron)) ++ sort_pos (of_kind VERTEX_polyt (nbrs (f_tin G) intron)))) as [|l rest] eqn:L; [discriminate|].
    assert (X : In (intron, l) (f_tin G) /\ (fst l = VERTEX_polyt \/ fst l = VERTEX_read_start)).
    { assert (A : In l (l :: rest)) by (left; reflexivity). rewrite <- L in A. apply (proj1 (sort_pos_In _ _)) in A. apply in_app_or in A. destruct A as [A|A]; destruct (K _ _ A); auto. }
    destruct (trusted && (st <=? snd l) && (fst l =? VERTEX_read_start)); [inversion H; subst; exact X|].
    destruct (negb trusted && (snd l <=? st) && match rest with [] => true | s :: _ => st <? snd s end); [inversion H; subst; exact X|discriminate]. Qed.

(* every full-length path: a starting vertex attached to its first intron, the threaded image of the introns of a non-multimapped read running
   through vertices only, and a terminal vertex attached to its last intron *)
Theorem fl_path_spec : forall reads0 ops s G P (reads : list xread) c,
  run (init reads0) ops = Some s -> pend s = [] -> simplifiedb s = true ->
  (forall r, In r reads -> xr_mm r = false -> In (xr_introns r) (collected reads0) \/ xr_introns r = []) ->
  In c (fl_paths s G P reads) ->
  exists r sv p tv, In r reads /\ xr_mm r = false /\ c = sv :: p ++ [tv] /\ p <> [] /\ thread s (xr_introns r) = Some p /\
                    (forall v, In v p -> In v (vert s)) /\
                    In (hd sv p, sv) (f_tin G) /\ In (last p tv, tv) (f_tout G).
Proof. intros reads0 ops s G P reads c Rn Hp Hs Hr H. unfold fl_paths in H. apply in_map_iff in H. destruct H as (t & <- & H). apply filter_In in H. destruct H as [H FL].
  unfold all_paths in H. apply in_flat_map in H. destruct H as (r & Rin & H). destruct (path_of_read s G P r) as [t'|] eqn:E; [|destruct H]. destruct H as [->|[]].
  unfold path_of_read in E. destruct (xr_mm r) eqn:M; [discriminate|]. destruct (thread s (xr_introns r)) as [[|x p]|] eqn:T; try discriminate. inversion E; subst; clear E.
  unfold is_full_length in FL. destruct (thread_starts G P x (xr_start r) (xr_start_trusted r)) as [sv|] eqn:S; [|discriminate].
  change (match p with [] => x | _ :: _ => last p x end) with (last (x :: p) x) in *.
  destruct (thread_ends G P (last (x :: p) x) (xr_end r) (xr_end_trusted r)) as [tv|] eqn:Te; [|discriminate].
  exists r, sv, (x :: p), tv. split; [exact Rin|]. split; [exact M|]. split; [reflexivity|]. split; [discriminate|]. split; [exact T|]. split.
  - destruct (Hr r Rin M) as [A|A]; [eapply threaded_path_in_vertices; eauto|rewrite A in T; cbn in T; discriminate].
  - split; [exact (proj1 (thread_starts_attached _ _ _ _ _ _ S))|]. apply thread_ends_attached in Te. destruct Te as [Te _].
    assert (L : last (x :: p) tv = last (x :: p) x) by (apply last_default; discriminate).
    rewrite L. exact Te. Qed.

(* "consecutive introns of a path are joined by an edge of the simplified graph" is FALSE of the faithful system: remove_singleton_dead_ends
   empties / deletes edge sets without discarding the introns, and the read is still threaded through them *)
Fixpoint adjacent (l : list iv) : list (iv * iv) := match l with a :: ((b :: _) as t) => (a, b) :: adjacent t | _ => [] end.
Theorem path_edges_refuted : ~ (forall reads ops s r p, run (init reads) ops = Some s -> pend s = [] -> simplifiedb s = true ->
  In r (collected reads) -> thread s r = Some p -> forall e, In e (adjacent p) -> In e (edges s)).
Proof. intros H.
  specialize (H [(false, [(10, 20); (30, 40)])] [AddVertex (10, 20); AddVertex (30, 40); AddEdge (10, 20) (30, 40); CutOut (10, 20); SimplifyMap]
                (mkG [] [(30, 40); (10, 20)] [] [] []) [(10, 20); (30, 40)] [(10, 20); (30, 40)] eq_refl eq_refl eq_refl (or_introl eq_refl) eq_refl ((10, 20), (30, 40)) (or_introl eq_refl)).
  destruct H. Qed.
