(* C11: ExonCorrector.process_events (model of C14, Corrector.v) is not mirror symmetric for retained micro-introns. *)
From Coq Require Import ZArith NArith List Bool.
From IQ.gen Require Import Prims Tables.
From IQ Require Import CorrSupport Mirror.
Import ListNotations. Open Scope Z_scope.

(* ================================================================ ExonCorrector.process_events: micro-intron retention (model of C14, Corrector.v) *)
From IQ Require Corrector.
Module MicroIntron.
Import Corrector.
(* read 100-200 / 300-400 on an isoform with the extra micro-intron 150-153 inside the FIRST read exon: the corrector inserts it;
   the mirror image (L = 500: read 101-201 / 301-401, micro-intron 348-351 inside the LAST read exon) is left as it is,
   because `-i-1 in event_map` is only looked up while a read intron i follows *)
Definition c_first : cin := mkcin [(100, 200); (300, 400)] false true [mkev MES_fake_micro_intron_retention (0, 0) (absent_position, 0)]
  [(150, 153); (201, 299)] (100, 400) [(150, 153); (201, 299)] [((0, 0), (0, 0))] 6.
Definition c_last : cin := mkcin [(101, 201); (301, 401)] false true [mkev MES_fake_micro_intron_retention (1, 1) (absent_position, 1)]
  [(202, 300); (348, 351)] (101, 401) [(202, 300); (348, 351)] [((0, 0), (0, 0))] 6.
Example microintron_mirror_refuted :
  correct_assigned_read (strategy_flags St_default_ont) c_first = Ok [(100, 149); (154, 200); (300, 400)] /\
  correct_assigned_read (strategy_flags St_default_ont) c_last = Ok [(101, 201); (301, 401)] /\
  rfl 500 [(100, 149); (154, 200); (300, 400)] = [(101, 201); (301, 347); (352, 401)].
Proof. vm_compute. repeat split; reflexivity. Qed.
End MicroIntron.

