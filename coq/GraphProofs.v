(* C04 - proofs about the abstract graph system, path threading, the decision sequence of construct_fl_isoforms and the model store
   (definitions in Graph.v).  Everything is by induction over ARBITRARY operation sequences / inputs. *)
From Coq Require Import ZArith NArith List Bool Lia ZifyBool.
From IQ Require Import Exons Graph.
Import ListNotations. Open Scope Z_scope.

(* ------------------------------------------------------------------ boolean membership = membership *)
Lemma iv_eqb_eq a b : iv_eqb a b = true <-> a = b.
Proof. unfold iv_eqb. destruct a as [a1 a2], b as [b1 b2]; cbn [fst snd]. rewrite andb_true_iff, !Z.eqb_eq. split; [intros [-> ->]; reflexivity|intros H; inversion H; auto]. Qed.
Lemma iv_eqb_refl a : iv_eqb a a = true. Proof. apply iv_eqb_eq; reflexivity. Qed.
Lemma iv_eqb_neq a b : iv_eqb a b = false <-> a <> b.
Proof. split; intros H. - intros E. apply iv_eqb_eq in E. congruence. - destruct (iv_eqb a b) eqn:E; [apply iv_eqb_eq in E; contradiction|reflexivity]. Qed.
Lemma iv_dec (a b : iv) : a = b \/ a <> b.
Proof. destruct (iv_eqb a b) eqn:E; [left; apply iv_eqb_eq; exact E|right; apply iv_eqb_neq; exact E]. Qed.

Lemma mem_In x l : mem x l = true <-> In x l.
Proof. unfold mem. rewrite existsb_exists. split.
  - intros (y & Hy & E). apply iv_eqb_eq in E. subst. exact Hy.
  - intros H. exists x. split; [exact H|apply iv_eqb_refl]. Qed.
Lemma mem_nIn x l : mem x l = false <-> ~ In x l.
Proof. rewrite <- mem_In. destruct (mem x l); split; intros; congruence. Qed.
Lemma remove_iv_In x y l : In y (remove_iv x l) <-> In y l /\ y <> x.
Proof. unfold remove_iv. rewrite filter_In, negb_true_iff, iv_eqb_neq. split; intros [A B]; split; auto. Qed.
Lemma subset_spec a b : subset a b = true <-> (forall x, In x a -> In x b).
Proof. unfold subset. rewrite forallb_forall. split; intros H x Hx; [apply mem_In|apply mem_In]; auto. Qed.

Lemma chain_eqb_eq a b : chain_eqb a b = true <-> a = b.
Proof. revert b; induction a as [|x s IH]; destruct b as [|y t]; cbn [chain_eqb]; try (split; congruence).
  rewrite andb_true_iff, iv_eqb_eq, IH. split; [intros [-> ->]; reflexivity|intros H; inversion H; auto]. Qed.
Lemma mem_chain_In c l : mem_chain c l = true <-> In c l.
Proof. unfold mem_chain. rewrite existsb_exists. split.
  - intros (y & Hy & E). apply chain_eqb_eq in E. subst. exact Hy.
  - intros H. exists c. split; [exact H|apply chain_eqb_eq; reflexivity]. Qed.

(* ------------------------------------------------------------------ the substitution map *)
Lemma keys_app m1 m2 : keys (m1 ++ m2) = keys m1 ++ keys m2. Proof. apply map_app. Qed.
Lemma in_keys k v m : In (k, v) m -> In k (keys m). Proof. intros H. apply (in_map fst) in H. exact H. Qed.
Lemma keys_in k m : In k (keys m) -> exists v, In (k, v) m.
Proof. unfold keys. rewrite in_map_iff. intros ([k' v] & E & H). cbn in E. subst. eauto. Qed.
Lemma assoc_Some k v m : assoc k m = Some v -> In (k, v) m.
Proof. induction m as [|[k' v'] t IH]; cbn [assoc]; [discriminate|]. destruct (iv_eqb k k') eqn:E.
  - apply iv_eqb_eq in E. intros H; inversion H; subst. left; reflexivity.
  - intros H. right. auto. Qed.
Lemma assoc_None k m : assoc k m = None <-> ~ In k (keys m).
Proof. induction m as [|[k' v'] t IH]; cbn [assoc keys map fst]; [tauto|]. destruct (iv_eqb k k') eqn:E.
  - apply iv_eqb_eq in E. subst. split; [discriminate|intros H; exfalso; apply H; left; reflexivity].
  - apply iv_eqb_neq in E. rewrite IH. unfold keys. split; intros H; [intros [A|A]; [congruence|contradiction]|intros A; apply H; right; exact A]. Qed.
Lemma subst1_key k m : In k (keys m) -> exists v, In (k, v) m /\ subst1 m k = v.
Proof. intros H. unfold subst1. destruct (assoc k m) as [w|] eqn:E.
  - exists w. split; [apply assoc_Some; exact E|reflexivity].
  - apply assoc_None in E. contradiction. Qed.
Lemma subst1_nokey k m : ~ In k (keys m) -> subst1 m k = k.
Proof. intros H. unfold subst1. apply assoc_None in H. rewrite H. reflexivity. Qed.

(* a substitute is never an older (or the same) key; keys are pairwise distinct.  Head = oldest entry. *)
Fixpoint chron (m : list (iv * iv)) : Prop :=
  match m with [] => True | (k, v) :: t => v <> k /\ (forall e, In e t -> snd e <> k) /\ ~ In k (keys t) /\ chron t end.

Lemma chron_snoc m k v : chron m -> ~ In k (keys m) -> v <> k -> ~ In v (keys m) -> chron (m ++ [(k, v)]).
Proof. induction m as [|[k0 v0] t IH]; intros C Hk Hv Hvk.
  - cbn. split; [exact Hv|]. split; [intros e []|]. split; [intros []|exact I].
  - cbn [chron app] in *. destruct C as (C1 & C2 & C3 & C4). cbn [keys map fst] in Hk, Hvk.
    repeat split.
    + exact C1.
    + intros e He. apply in_app_or in He. destruct He as [He|[<-|[]]]; [apply C2; exact He|]. cbn. intros E. apply Hvk. left. symmetry. exact E.
    + rewrite keys_app. intros H. apply in_app_or in H. destruct H as [H|[H|[]]]; [contradiction|]. cbn in H. apply Hk. left. symmetry; exact H.
    + apply IH; [exact C4|intros A; apply Hk; right; exact A|exact Hv|intros A; apply Hvk; right; exact A]. Qed.
Lemma chron_NoDup m : chron m -> NoDup (keys m).
Proof. induction m as [|[k v] t IH]; cbn [chron keys map fst]; intros C; [constructor|]. destruct C as (_ & _ & C3 & C4). constructor; auto. Qed.
Lemma chron_of_fixed m : NoDup (keys m) -> (forall e, In e m -> ~ In (snd e) (keys m)) -> chron m.
Proof. induction m as [|[k v] t IH]; cbn [chron keys map fst]; intros N H; [exact I|]. inversion N; subst.
  repeat split.
  - intros E. apply (H (k, v)); [left; reflexivity|]. cbn. left. symmetry; exact E.
  - intros e He E. apply (H e); [right; exact He|]. left. symmetry; exact E.
  - assumption.
  - apply IH; [assumption|]. intros e He A. apply (H e); [right; exact He|right; exact A]. Qed.
Lemma NoDup_keys_fun m k v1 v2 : NoDup (keys m) -> In (k, v1) m -> In (k, v2) m -> v1 = v2.
Proof. induction m as [|[k0 v0] t IH]; cbn [keys map fst]; intros N A B; [destruct A|]. inversion N; subst.
  destruct A as [A|A], B as [B|B].
  - congruence.
  - inversion A; subst. exfalso. apply H1. eapply in_keys; exact B.
  - inversion B; subst. exfalso. apply H1. eapply in_keys; exact A.
  - eauto. Qed.
Lemma NoDup_map_filter {A B} (g : A -> B) (f : A -> bool) l : NoDup (map g l) -> NoDup (map g (filter f l)).
Proof. induction l as [|x t IH]; cbn [map filter]; intros N; [constructor|]. inversion N; subst. destruct (f x); cbn [map]; [constructor|]; auto.
  intros H. apply H1. apply in_map_iff in H. destruct H as (y & E & Hy). apply filter_In in Hy. apply in_map_iff. exists y. tauto. Qed.

(* resolve: the result is the argument or the substitute of some entry, and never a key *)
Lemma resolve_in m x : resolve m x = x \/ In (resolve m x) (map snd m).
Proof. revert x; induction m as [|[k v] t IH]; intros x; cbn [resolve map snd]; [left; reflexivity|].
  destruct (iv_eqb x k); [destruct (IH v) as [E|E]; [right; left; symmetry; exact E|right; right; exact E]|destruct (IH x) as [E|E]; [left; exact E|right; right; exact E]]. Qed.
Lemma resolve_not_key m : chron m -> forall x, ~ In (resolve m x) (keys m).
Proof. induction m as [|[k v] t IH]; intros C x; cbn [resolve keys map fst]; [intros []|]. cbn [chron] in C. destruct C as (C1 & C2 & C3 & C4).
  assert (G : forall y, y <> k -> ~ (k = resolve t y \/ In (resolve t y) (keys t))).
  { intros y Hy [E|E]; [|eapply IH; eauto]. destruct (resolve_in t y) as [R|R]; [congruence|].
    apply in_map_iff in R. destruct R as (e & Ee & He). apply (C2 e He). congruence. }
  destruct (iv_eqb x k) eqn:E; [apply G; exact C1|apply G; apply iv_eqb_neq; exact E]. Qed.

(* ------------------------------------------------------------------ the invariant of the abstract system *)
Record Inv (R : list iv) (s : gstate) : Prop := mkInv {
  i_vert : forall v, In v (vert s) -> In v R;
  i_pend : forall v, In v (pend s) -> In v R;
  i_disc : forall v, In v (disc s) -> In v R;
  i_map  : forall k v, In (k, v) (smap s) -> In k R /\ In v R /\ (In v (vert s) \/ In v (keys (smap s)) \/ In v (disc s));
  i_vk : forall v, In v (vert s) -> ~ In v (keys (smap s));
  i_vd : forall v, In v (vert s) -> ~ In v (disc s);
  i_vp : forall v, In v (vert s) -> ~ In v (pend s);
  i_pk : forall v, In v (pend s) -> ~ In v (keys (smap s));
  i_pd : forall v, In v (pend s) -> ~ In v (disc s);
  i_kd : forall v, In v (keys (smap s)) -> ~ In v (disc s);
  i_chron : chron (smap s);
  i_cover : forall v, In v R -> In v (pend s) \/ In v (vert s) \/ In v (keys (smap s)) \/ In v (disc s);
  i_edges : forall a b, In (a, b) (edges s) -> In a R /\ In b R }.

Lemma inv_init reads : Inv (read_introns reads) (init reads).
Proof. constructor; cbn [init pend vert smap disc edges keys map]; try (intros; contradiction); auto. exact I. Qed.

Ltac inv_fields H := destruct H as [Hv Hp Hd Hm Hvk Hvd Hvp Hpk Hpd Hkd Hc Hcov He].

Lemma step_cluster_common R s i : Inv R s -> In i (pend s) ->
  (forall v, In v (remove_iv i (pend s)) -> In v (pend s) /\ v <> i) /\ ~ In i (vert s) /\ ~ In i (keys (smap s)) /\ ~ In i (disc s) /\ In i R.
Proof. intros H Hi. inv_fields H. repeat split; auto.
  - apply remove_iv_In in H. tauto. - apply remove_iv_In in H. tauto. - intros A. apply (Hvp _ A Hi). Qed.

Lemma inv_simplify R s : Inv R s -> Inv R (simplify s).
Proof. intros H. inv_fields H. set (m := smap s). set (D := disc s).
  set (dead := map fst (filter (fun e => mem (resolve m (snd e)) D) m)).
  assert (Hdead : forall k, In k dead -> In k (keys m)).
  { intros k Hk. unfold dead in Hk. apply in_map_iff in Hk. destruct Hk as ([k' v] & E & Hk). apply filter_In in Hk. cbn in E. subst. eapply in_keys. exact (proj1 Hk). }
  assert (Hnew : forall k r, In (k, r) (smap (simplify s)) -> exists v, In (k, v) m /\ r = resolve m v /\ ~ In r D).
  { intros k r Hk. unfold simplify in Hk. cbn [smap] in Hk. apply in_map_iff in Hk. destruct Hk as ([k' v] & E & Hk). cbn [fst snd] in E. inversion E; subst.
    apply filter_In in Hk. destruct Hk as [A B]. cbn [snd] in B. apply negb_true_iff in B. apply mem_nIn in B. exists v. auto. }
  assert (Hkeys' : forall k, In k (keys (smap (simplify s))) -> In k (keys m)).
  { intros k Hk. apply keys_in in Hk. destruct Hk as (r & Hk). apply Hnew in Hk. destruct Hk as (v & A & _). eapply in_keys; exact A. }
  assert (Hvals : forall v, In v (map snd m) -> In v R /\ (In v (vert s) \/ In v (keys m) \/ In v D)).
  { intros v Hv'. apply in_map_iff in Hv'. destruct Hv' as ([k v'] & E & Hin). cbn in E; subst. destruct (Hm _ _ Hin) as (_ & A & B). auto. }
  assert (Hres : forall k v, In (k, v) m -> ~ In (resolve m v) D -> In (resolve m v) R /\ In (resolve m v) (vert s)).
  { intros k v Hin HnD. assert (X : In (resolve m v) R /\ (In (resolve m v) (vert s) \/ In (resolve m v) (keys m) \/ In (resolve m v) D)).
    { destruct (resolve_in m v) as [E|E]; [rewrite E; destruct (Hm _ _ Hin) as (_ & A & B); auto|apply Hvals; exact E]. }
    destruct X as (XR & [XV|[XK|XD]]); [auto| |contradiction]. exfalso. exact (resolve_not_key m Hc v XK). }
  assert (Hvert' : forall v, In v (vert (simplify s)) <-> In v (vert s)).
  { intros v. unfold simplify. cbn [vert]. rewrite filter_In, negb_true_iff. fold m D dead. split; [tauto|]. intros A. split; [exact A|].
    apply mem_nIn. intros B. apply Hdead in B. exact (Hvk _ A B). }
  assert (Hdisc' : forall v, In v (disc (simplify s)) <-> In v dead \/ In v D).
  { intros v. unfold simplify. cbn [disc]. fold m D dead. rewrite in_app_iff. tauto. }
  constructor.
  - intros v A. apply Hvert' in A. auto.
  - exact Hp.
  - intros v A. apply Hdisc' in A. destruct A as [A|A]; [|auto]. apply Hdead in A. apply keys_in in A. destruct A as (x & A). exact (proj1 (Hm _ _ A)).
  - intros k r A. apply Hnew in A. destruct A as (v & A & -> & B). destruct (Hres _ _ A B) as (X1 & X2). split; [exact (proj1 (Hm _ _ A))|]. split; [exact X1|]. left. apply Hvert'. exact X2.
  - intros v A B. apply Hvert' in A. apply Hkeys' in B. exact (Hvk _ A B).
  - intros v A B. apply Hvert' in A. apply Hdisc' in B. destruct B as [B|B]; [apply Hdead in B; exact (Hvk _ A B)|exact (Hvd _ A B)].
  - intros v A. apply Hvert' in A. exact (Hvp _ A).
  - intros v A B. apply Hkeys' in B. exact (Hpk _ A B).
  - intros v A B. apply Hdisc' in B. destruct B as [B|B]; [apply Hdead in B; exact (Hpk _ A B)|exact (Hpd _ A B)].
  - intros k A B. apply Hdisc' in B. destruct B as [B|B]; [|exact (Hkd _ (Hkeys' _ A) B)].
    apply keys_in in A. destruct A as (r & A). apply Hnew in A. destruct A as (v & A & -> & HnD).
    unfold dead in B. apply in_map_iff in B. destruct B as ([k' v'] & E & B). cbn in E; subst. apply filter_In in B. destruct B as [B1 B2]. cbn [snd] in B2. apply mem_In in B2.
    pose proof (NoDup_keys_fun m k v v' (chron_NoDup _ Hc) A B1). subst. contradiction.
  - apply chron_of_fixed.
    + unfold simplify. cbn [smap]. fold m D. unfold keys. rewrite map_map. cbn [fst]. apply NoDup_map_filter. exact (chron_NoDup _ Hc).
    + intros [k r] A B. cbn [snd] in B. apply Hkeys' in B. apply Hnew in A. destruct A as (v & A & -> & _). exact (resolve_not_key m Hc v B).
  - intros v A. destruct (Hcov _ A) as [X|[X|[X|X]]].
    + left. exact X.
    + right; left. apply Hvert'. exact X.
    + apply keys_in in X. destruct X as (x & X). destruct (mem (resolve m x) D) eqn:E.
      * right; right; right. apply Hdisc'. left. unfold dead. apply in_map_iff. exists (v, x). split; [reflexivity|]. apply filter_In. split; [exact X|exact E].
      * right; right; left. unfold simplify. cbn [smap]. fold m D. unfold keys. rewrite map_map. cbn [fst]. apply in_map_iff. exists (v, x). split; [reflexivity|]. apply filter_In. split; [exact X|]. cbn [snd]. rewrite E. reflexivity.
    + right; right; right. apply Hdisc'. right. exact X.
  - exact He. Qed.

Lemma simplify_smap_In s k r : In (k, r) (smap (simplify s)) -> exists v, In (k, v) (smap s) /\ r = resolve (smap s) v /\ ~ In r (disc s).
Proof. intros Hk. unfold simplify in Hk. cbn [smap] in Hk. apply in_map_iff in Hk. destruct Hk as ([k' v] & E & Hk). cbn [fst snd] in E. inversion E; subst.
  apply filter_In in Hk. destruct Hk as [A B]. cbn [snd] in B. apply negb_true_iff in B. apply mem_nIn in B. exists v. auto. Qed.
Lemma simplify_keys s k : In k (keys (smap (simplify s))) -> In k (keys (smap s)).
Proof. intros Hk. apply keys_in in Hk. destruct Hk as (r & Hk). apply simplify_smap_In in Hk. destruct Hk as (v & A & _). eapply in_keys; exact A. Qed.
Lemma simplify_disc s v : In v (disc (simplify s)) -> In v (keys (smap s)) \/ In v (disc s).
Proof. unfold simplify. cbn [disc]. intros A. apply in_app_or in A. destruct A as [A|A]; [left|right; exact A].
  apply in_map_iff in A. destruct A as ([k' v'] & E & A). cbn in E; subst. apply filter_In in A. eapply in_keys. exact (proj1 A). Qed.

Lemma simplify_simplified R s : Inv R s -> forall k v, In (k, v) (smap (simplify s)) -> In v (vert (simplify s)).
Proof. intros H k r A. pose proof (inv_simplify R s H) as H'. destruct (i_map _ _ H' _ _ A) as (_ & _ & X).
  apply simplify_smap_In in A. destruct A as (v & A & -> & HnD). pose proof (resolve_not_key _ (i_chron _ _ H) v) as NK.
  destruct X as [X|[X|X]]; [exact X| |].
  - exfalso. apply NK. apply simplify_keys. exact X.
  - exfalso. apply simplify_disc in X. destruct X as [X|X]; [exact (NK X)|exact (HnD X)]. Qed.

Lemma rename_edges_In a b E x y : In (x, y) (rename_edges a b E) -> (In (x, y) E) \/ y = b \/ x = b.
Proof. unfold rename_edges. intros H. apply in_app_or in H. destruct H as [H|H]; apply in_map_iff in H; destruct H as ([u v] & E' & H).
  - cbn [fst snd] in E'. destruct (iv_eqb v a); inversion E'; subst; auto.
  - cbn [fst snd] in E'. inversion E'; subst. auto. Qed.
Lemma rename_edges_src a b E x y : In (x, y) (rename_edges a b E) -> (exists y', In (x, y') E) \/ x = b.
Proof. unfold rename_edges. intros H. apply in_app_or in H. destruct H as [H|H]; apply in_map_iff in H; destruct H as ([u v] & E' & H).
  - cbn [fst snd] in E'. left. destruct (iv_eqb v a); inversion E'; subst; eauto.
  - cbn [fst snd] in E'. inversion E'; subst. auto. Qed.
Lemma rename_edges_dst a b E x y : In (x, y) (rename_edges a b E) -> (exists x', In (x', y) E) \/ y = b.
Proof. unfold rename_edges. intros H. apply in_app_or in H. destruct H as [H|H]; apply in_map_iff in H; destruct H as ([u v] & E' & H).
  - cbn [fst snd] in E'. destruct (iv_eqb v a); inversion E'; subst; eauto.
  - cbn [fst snd] in E'. inversion E'; subst. apply filter_In in H. left. exists u. tauto. Qed.

Lemma inv_substitute R s a b E' : Inv R s -> In a (vert s) -> In b (vert s) -> a <> b ->
  (forall x y, In (x, y) E' -> In x R /\ In y R) ->
  Inv R (mkG (pend s) (remove_iv a (vert s)) (smap s ++ [(a, b)]) (disc s) E').
Proof. intros H Ha Hb Hab HE. inv_fields H. constructor; cbn [pend vert smap disc edges].
  - intros v A. apply remove_iv_In in A. apply Hv. tauto.
  - exact Hp.
  - exact Hd.
  - intros k v A. apply in_app_or in A. rewrite keys_app. destruct A as [A|[A|[]]].
    + destruct (Hm _ _ A) as (X & Y & Z). split; [exact X|]. split; [exact Y|]. destruct Z as [Z|[Z|Z]]; [|right; left; apply in_or_app; left; exact Z|right; right; exact Z].
      destruct (iv_dec v a) as [->|N]; [right; left; apply in_or_app; right; left; reflexivity|left; apply remove_iv_In; auto].
    + inversion A; subst. split; [auto|]. split; [auto|]. left. apply remove_iv_In. auto.
  - intros v A B. apply remove_iv_In in A. destruct A as [A N]. rewrite keys_app in B. apply in_app_or in B. destruct B as [B|[B|[]]]; [exact (Hvk _ A B)|]. cbn in B. congruence.
  - intros v A. apply remove_iv_In in A. apply Hvd. tauto.
  - intros v A. apply remove_iv_In in A. apply Hvp. tauto.
  - intros v A B. rewrite keys_app in B. apply in_app_or in B. destruct B as [B|[B|[]]]; [exact (Hpk _ A B)|]. cbn in B. subst. exact (Hvp _ Ha A).
  - exact Hpd.
  - intros v B. rewrite keys_app in B. apply in_app_or in B. destruct B as [B|[B|[]]]; [exact (Hkd _ B)|]. cbn in B. subst. exact (Hvd _ Ha).
  - apply chron_snoc; auto.
  - intros v A. rewrite keys_app. destruct (Hcov _ A) as [X|[X|[X|X]]]; [auto| |right; right; left; apply in_or_app; auto|auto].
    destruct (iv_dec v a) as [->|N]; [right; right; left; apply in_or_app; right; left; reflexivity|right; left; apply remove_iv_In; auto].
  - exact HE. Qed.

Lemma chron_filter f m : chron m -> chron (filter f m).
Proof. induction m as [|[k v] t IH]; cbn [chron filter]; intros C; [exact I|]. destruct C as (C1 & C2 & C3 & C4). destruct (f (k, v)); [|auto]. cbn [chron]. repeat split.
  - exact C1.
  - intros e A. apply filter_In in A. apply C2. tauto.
  - intros A. apply C3. unfold keys in *. apply in_map_iff in A. destruct A as (e & E & A). apply filter_In in A. apply in_map_iff. exists e. tauto.
  - auto. Qed.
Lemma keys_filter_ne m i k : In k (keys (filter (fun e : iv * iv => negb (iv_eqb (fst e) i)) m)) <-> In k (keys m) /\ k <> i.
Proof. unfold keys. rewrite !in_map_iff. split.
  - intros ([a b] & E & A). apply filter_In in A. destruct A as [A B]. cbn [fst] in *. subst. apply negb_true_iff, iv_eqb_neq in B. split; [exists (k, b); auto|exact B].
  - intros [([a b] & E & A) N]. cbn [fst] in E. subst. exists (k, b). split; [reflexivity|]. apply filter_In. split; [exact A|]. cbn [fst]. apply negb_true_iff, iv_eqb_neq. exact N. Qed.

(* discarding a collapsed intron (a key) that a look-up had re-created: its map entry is dropped *)
Lemma inv_discard_key R s i : Inv R s -> ~ In i (vert s) -> In i (keys (smap s)) ->
  Inv R (mkG (pend s) (vert s) (filter (fun e => negb (iv_eqb (fst e) i)) (smap s)) (i :: disc s) (edges s)).
Proof. intros H Nv Hk. inv_fields H. constructor; cbn [pend vert smap disc edges].
  - exact Hv.
  - exact Hp.
  - intros v [<-|A]; [|auto]. apply keys_in in Hk. destruct Hk as (x & Hk). exact (proj1 (Hm _ _ Hk)).
  - intros k v A. apply filter_In in A. destruct A as [A _]. destruct (Hm _ _ A) as (X & Y & Z). split; [exact X|]. split; [exact Y|].
    destruct Z as [Z|[Z|Z]]; [left; exact Z| |right; right; right; exact Z]. destruct (iv_dec v i) as [->|N]; [right; right; left; reflexivity|right; left; apply keys_filter_ne; auto].
  - intros v A B. apply keys_filter_ne in B. exact (Hvk _ A (proj1 B)).
  - intros v A [<-|B]; [contradiction|exact (Hvd _ A B)].
  - exact Hvp.
  - intros v A B. apply keys_filter_ne in B. exact (Hpk _ A (proj1 B)).
  - intros v A [<-|B]; [exact (Hpk _ A Hk)|exact (Hpd _ A B)].
  - intros v A [<-|B]; apply keys_filter_ne in A; [destruct A; congruence|exact (Hkd _ (proj1 A) B)].
  - apply chron_filter. exact Hc.
  - intros v A. destruct (Hcov _ A) as [X|[X|[X|X]]]; [auto|auto| |right; right; right; right; exact X].
    destruct (iv_dec v i) as [->|N]; [right; right; right; left; reflexivity|right; right; left; apply keys_filter_ne; auto].
  - exact He. Qed.

Lemma inv_step R s o s' : Inv R s -> step s o = Some s' -> Inv R s'.
Proof. intros H St. destruct o; cbn [step] in St.
  - (* AddVertex *) destruct (mem i (pend s)) eqn:E; [|discriminate]. inversion St; subst; clear St. apply mem_In in E.
    destruct (step_cluster_common R s i H E) as (P1 & P2 & P3 & P4 & P5). inv_fields H. constructor; cbn [pend vert smap disc edges].
    + intros v [<-|A]; auto.
    + intros v A. apply Hp. apply P1. exact A.
    + exact Hd.
    + intros k v A. destruct (Hm _ _ A) as (X & Y & Z). repeat split; auto. destruct Z as [Z|[Z|Z]]; [left; right; exact Z|auto|auto].
    + intros v [<-|A]; auto.
    + intros v [<-|A]; auto.
    + intros v [<-|A] B; apply P1 in B; [destruct B; congruence|]. exact (Hvp _ A (proj1 B)).
    + intros v A. apply Hpk. apply P1. exact A.
    + intros v A. apply Hpd. apply P1. exact A.
    + exact Hkd.
    + exact Hc.
    + intros v A. destruct (Hcov _ A) as [X|[X|[X|X]]]; [|right; left; right; exact X|auto|auto].
      destruct (iv_dec v i) as [->|N]; [right; left; left; reflexivity|left; apply remove_iv_In; auto].
    + exact He.
  - (* ClusterSubst *) destruct (mem i (pend s)) eqn:E; [|discriminate]. destruct (mem s0 (vert s)) eqn:E2; [|discriminate]. cbn [andb] in St. inversion St; subst; clear St.
    apply mem_In in E. apply mem_In in E2. destruct (step_cluster_common R s i H E) as (P1 & P2 & P3 & P4 & P5). inv_fields H.
    constructor; cbn [pend vert smap disc edges].
    + exact Hv.
    + intros v A. apply Hp. apply P1. exact A.
    + exact Hd.
    + intros k v A. rewrite keys_app. apply in_app_or in A. destruct A as [A|[A|[]]].
      * destruct (Hm _ _ A) as (X & Y & Z). repeat split; auto. destruct Z as [Z|[Z|Z]]; [auto|right; left; apply in_or_app; auto|auto].
      * inversion A; subst. repeat split; auto.
    + intros v A B. rewrite keys_app in B. apply in_app_or in B. destruct B as [B|[B|[]]]; [exact (Hvk _ A B)|]. cbn in B. subst. contradiction.
    + exact Hvd.
    + intros v A B. apply P1 in B. exact (Hvp _ A (proj1 B)).
    + intros v A B. apply P1 in A. rewrite keys_app in B. apply in_app_or in B. destruct B as [B|[B|[]]]; [exact (Hpk _ (proj1 A) B)|]. cbn in B. destruct A. congruence.
    + intros v A. apply Hpd. apply P1. exact A.
    + intros v B. rewrite keys_app in B. apply in_app_or in B. destruct B as [B|[B|[]]]; [exact (Hkd _ B)|]. cbn in B. subst. exact P4.
    + apply chron_snoc; auto. intros ->. contradiction.
    + intros v A. rewrite keys_app. destruct (Hcov _ A) as [X|[X|[X|X]]]; [|auto|right; right; left; apply in_or_app; auto|auto].
      destruct (iv_dec v i) as [->|N]; [right; right; left; apply in_or_app; right; left; reflexivity|left; apply remove_iv_In; auto].
    + exact He.
  - (* ClusterDiscard *) destruct (mem i (pend s)) eqn:E; [|discriminate]. inversion St; subst; clear St. apply mem_In in E.
    destruct (step_cluster_common R s i H E) as (P1 & P2 & P3 & P4 & P5). inv_fields H. constructor; cbn [pend vert smap disc edges].
    + exact Hv.
    + intros v A. apply Hp. apply P1. exact A.
    + intros v [<-|A]; auto.
    + intros k v A. destruct (Hm _ _ A) as (X & Y & Z). repeat split; auto. destruct Z as [Z|[Z|Z]]; [auto|auto|right; right; right; exact Z].
    + exact Hvk.
    + intros v A [<-|B]; [contradiction|exact (Hvd _ A B)].
    + intros v A B. apply P1 in B. exact (Hvp _ A (proj1 B)).
    + intros v A. apply Hpk. apply P1. exact A.
    + intros v A [<-|B]; apply P1 in A; [destruct A; congruence|exact (Hpd _ (proj1 A) B)].
    + intros v A [<-|B]; [contradiction|exact (Hkd _ A B)].
    + exact Hc.
    + intros v A. destruct (Hcov _ A) as [X|[X|[X|X]]]; [|auto|auto|right; right; right; right; exact X].
      destruct (iv_dec v i) as [->|N]; [right; right; right; left; reflexivity|left; apply remove_iv_In; auto].
    + exact He.
  - (* AddEdge *) destruct (is_nil (pend s) && mem (subst1 (smap s) a) (vert s) && mem (subst1 (smap s) b) (vert s)) eqn:E; [|discriminate]. inversion St; subst; clear St.
    apply andb_true_iff in E. destruct E as [E E3]. apply andb_true_iff in E. destruct E as [_ E2]. apply mem_In in E2. apply mem_In in E3.
    inv_fields H. constructor; cbn [pend vert smap disc edges]; auto. intros x y [A|A]; [inversion A; subst; auto|auto].
  - (* Collapse *) destruct (mem a (vert s) && mem b (vert s) && negb (iv_eqb a b)) eqn:E; [|discriminate]. inversion St; subst; clear St.
    apply andb_true_iff in E. destruct E as [E E3]. apply andb_true_iff in E. destruct E as [E1 E2]. apply mem_In in E1. apply mem_In in E2. apply negb_true_iff, iv_eqb_neq in E3.
    apply inv_substitute; auto. intros x y A. pose proof (i_edges _ _ H) as He. pose proof (i_vert _ _ H _ E2) as Hb. split.
    + apply rename_edges_src in A. destruct A as [(y' & A)| ->]; [exact (proj1 (He _ _ A))|exact Hb].
    + apply rename_edges_dst in A. destruct A as [(x' & A)| ->]; [exact (proj2 (He _ _ A))|exact Hb].
  - (* AddSubstitute *) destruct (mem a (vert s) && mem b (vert s) && negb (iv_eqb a b)) eqn:E; [|discriminate]. inversion St; subst; clear St.
    apply andb_true_iff in E. destruct E as [E E3]. apply andb_true_iff in E. destruct E as [E1 E2]. apply mem_In in E1. apply mem_In in E2. apply negb_true_iff, iv_eqb_neq in E3.
    apply inv_substitute; auto. exact (i_edges _ _ H).
  - (* Discard *) destruct (mem i (vert s)) eqn:E.
    2:{ destruct (mem i (keys (smap s))) eqn:E2; [|discriminate]. inversion St; subst; clear St. apply inv_discard_key; [exact H|apply mem_nIn; exact E|apply mem_In; exact E2]. }
    inversion St; subst; clear St. apply mem_In in E. inv_fields H. constructor; cbn [pend vert smap disc edges].
    + intros v A. apply remove_iv_In in A. apply Hv. tauto.
    + exact Hp.
    + intros v [<-|A]; auto.
    + intros k v A. destruct (Hm _ _ A) as (X & Y & Z). repeat split; auto. destruct Z as [Z|[Z|Z]]; [|auto|right; right; right; exact Z].
      destruct (iv_dec v i) as [->|N]; [right; right; left; reflexivity|left; apply remove_iv_In; auto].
    + intros v A. apply remove_iv_In in A. apply Hvk. tauto.
    + intros v A [<-|B]; apply remove_iv_In in A; [destruct A; congruence|exact (Hvd _ (proj1 A) B)].
    + intros v A. apply remove_iv_In in A. apply Hvp. tauto.
    + exact Hpk.
    + intros v A [<-|B]; [exact (Hvp _ E A)|exact (Hpd _ A B)].
    + intros v A [<-|B]; [exact (Hvk _ E A)|exact (Hkd _ A B)].
    + exact Hc.
    + intros v A. destruct (Hcov _ A) as [X|[X|[X|X]]]; [auto| |auto|right; right; right; right; exact X].
      destruct (iv_dec v i) as [->|N]; [right; right; right; left; reflexivity|right; left; apply remove_iv_In; auto].
    + exact He.
  - (* DropOut *) inversion St; subst; clear St. inv_fields H. constructor; cbn [pend vert smap disc edges]; auto. intros x y A. apply filter_In in A. apply He. tauto.
  - (* CutOut *) inversion St; subst; clear St. inv_fields H. constructor; cbn [pend vert smap disc edges]; auto. intros x y A. apply filter_In in A. apply He. tauto.
  - (* SimplifyMap *) inversion St; subst. apply inv_simplify. exact H.
  - (* Snap *) destruct (_ && _ && _ && _ && _); [|discriminate]. inversion St; subst. exact H.
  - (* Touch *) destruct (mem i _); [|discriminate]. inversion St; subst. exact H.
  - discriminate. Qed.

Lemma inv_run R ops : forall s s', Inv R s -> run s ops = Some s' -> Inv R s'.
Proof. induction ops as [|o t IH]; intros s s' H Rn; cbn [run] in Rn; [inversion Rn; subst; exact H|].
  destruct (step s o) eqn:E; [|discriminate]. eapply IH; [eapply inv_step; eauto|exact Rn]. Qed.

Lemma In_read_introns reads v : In v (read_introns reads) <-> exists r, In r (collected reads) /\ In v r.
Proof. unfold read_introns. rewrite in_concat. split; intros (r & A & B); eauto. Qed.

(* ================================================================== the theorems *)

(* every vertex is a corrected intron of some collected (non-multimapped) read; every substitute is a vertex, or was one and has
   since been collapsed (it is a key) or discarded *)
Theorem vertices_are_read_introns : forall reads ops s, run (init reads) ops = Some s ->
  (forall v, In v (vert s) -> exists r, In r (collected reads) /\ In v r) /\
  (forall k v, In (k, v) (smap s) -> (exists r, In r (collected reads) /\ In v r) /\ (In v (vert s) \/ In v (keys (smap s)) \/ In v (disc s))).
Proof. intros reads ops s Rn. pose proof (inv_run _ _ _ _ (inv_init reads) Rn) as H. split.
  - intros v A. apply In_read_introns. exact (i_vert _ _ H _ A).
  - intros k v A. destruct (i_map _ _ H _ _ A) as (_ & X & Y). split; [apply In_read_introns; exact X|exact Y]. Qed.

(* after simplify_correction_map every substitute IS a vertex *)
Theorem substitutes_are_vertices : forall reads ops s, run (init reads) (ops ++ [SimplifyMap]) = Some s ->
  forall k v, In (k, v) (smap s) -> In v (vert s).
Proof. intros reads ops s Rn.
  assert (X : exists s0, run (init reads) ops = Some s0 /\ s = simplify s0).
  { revert Rn. generalize (init reads). induction ops as [|o t IH]; intros s1 Rn; cbn [run app] in *.
    - inversion Rn. eauto. - destruct (step s1 o); [eauto|discriminate]. }
  destruct X as (s0 & R0 & ->). eapply simplify_simplified. eapply inv_run; [apply inv_init|exact R0]. Qed.

Lemma simplifiedb_spec s : simplifiedb s = true <-> forall k v, In (k, v) (smap s) -> In v (vert s).
Proof. unfold simplifiedb. rewrite forallb_forall. split.
  - intros H k v A. apply mem_In. exact (H _ A). - intros H [k v] A. apply mem_In. eapply H; exact A. Qed.

Lemma thread_In s : forall l p, thread s l = Some p -> forall v, In v p -> exists i, In i l /\ ~ In i (disc s) /\ v = subst1 (smap s) i.
Proof. induction l as [|i t IH]; intros p T v Hv; cbn [thread] in T; [inversion T; subst; destruct Hv|].
  destruct (mem i (disc s)) eqn:E; [discriminate|]. destruct (thread s t) eqn:E2; [|discriminate]. inversion T; subst. apply mem_nIn in E.
  destruct Hv as [<-|Hv]; [exists i; cbn; auto|]. destruct (IH _ eq_refl _ Hv) as (j & A & B & C). exists j. cbn. auto. Qed.

Lemma threaded_vertex R s i : Inv R s -> pend s = [] -> simplifiedb s = true -> In i R -> ~ In i (disc s) -> In (subst1 (smap s) i) (vert s).
Proof. intros H Hp Hs Hi Hd. destruct (i_cover _ _ H _ Hi) as [X|[X|[X|X]]].
  - rewrite Hp in X. destruct X.
  - rewrite subst1_nokey; [exact X|exact (i_vk _ _ H _ X)].
  - destruct (subst1_key _ _ X) as (v & A & ->). eapply simplifiedb_spec; eauto.
  - contradiction. Qed.

(* a path threaded from a collected read runs through vertices only *)
Theorem threaded_path_in_vertices : forall reads ops s r p, run (init reads) ops = Some s -> pend s = [] -> simplifiedb s = true ->
  In r (collected reads) -> thread s r = Some p -> forall v, In v p -> In v (vert s).
Proof. intros reads ops s r p Rn Hp Hs Hr T v Hv. pose proof (inv_run _ _ _ _ (inv_init reads) Rn) as H.
  destruct (thread_In _ _ _ T _ Hv) as (i & A & B & ->). eapply threaded_vertex; eauto. apply In_read_introns. eauto. Qed.

(* threading is idempotent on paths through vertices *)
Lemma thread_vertices R s : Inv R s -> forall p, (forall v, In v p -> In v (vert s)) -> thread s p = Some p.
Proof. intros H. induction p as [|v t IH]; intros Hv; cbn [thread]; [reflexivity|].
  assert (A : In v (vert s)) by (apply Hv; left; reflexivity).
  pose proof (i_vd _ _ H _ A) as B. apply mem_nIn in B. rewrite B. rewrite IH by (intros; apply Hv; right; assumption).
  rewrite subst1_nokey by exact (i_vk _ _ H _ A). reflexivity. Qed.

Lemma known_paths_In s refs c p : In c refs -> thread s c = Some p -> p <> [] -> In p (known_paths s refs).
Proof. intros Hc T Hp. unfold known_paths. apply in_flat_map. exists c. split; [exact Hc|]. destruct c as [|x c']; [cbn in T; inversion T; subst; congruence|].
  rewrite T. destruct p; [congruence|left; reflexivity]. Qed.

(* ---- the decision sequence *)
Lemma decide_novel_inv P c p st g nic : decide P c p = Novel st g nic ->
  p_matching p = None /\ mem_chain (p_introns p) (g_known_paths c) = false /\
  nic = forallb (fun i => mem i (g_known c)) (p_introns p) /\
  match report_level P with OnlyCanonical => is_dot (clean_strand_of (p_fwd p) (p_rev p)) = false
                          | OnlyStranded => is_dot (strand_of (p_fwd p) (p_rev p) (p_polya p) (p_polyt p)) = false | ReportAll => True end /\
  (st = strand_of (p_fwd p) (p_rev p) (p_polya p) (p_polyt p) \/
   (is_dot (strand_of (p_fwd p) (p_rev p) (p_polya p) (p_polyt p)) = true /\ exists k, g = RefGene k)) /\
  (g = NovelGene \/ exists k, g = RefGene k /\ select_reference_gene c (p_votes p) (strand_of (p_fwd p) (p_rev p) (p_polya p) (p_polyt p)) = Some k).
Proof. unfold decide. destruct (p_matching p); [discriminate|]. destruct (mem_chain (p_introns p) (g_known_paths c)); [discriminate|].
  destruct (p_count p <? min_novel_count P); [discriminate|].
  destruct ((n_exons p =? 2) && ((require_monointronic_polya P && negb (p_polya p || p_polyt p)) || is_dot (clean_strand_of (p_fwd p) (p_rev p)))); [discriminate|].
  destruct (report_level P) eqn:L.
  - destruct (is_dot (clean_strand_of (p_fwd p) (p_rev p))) eqn:E; [discriminate|]. destruct (use_technical_replicas P && (p_groups p <=? 1)); [discriminate|].
    destruct (select_reference_gene c (p_votes p) _) eqn:S; intros X; inversion X; subst; repeat split; auto.
    + destruct (is_dot (strand_of (p_fwd p) (p_rev p) (p_polya p) (p_polyt p))) eqn:D; [right; eauto|left; reflexivity].
    + right; eauto.
  - destruct (is_dot (strand_of (p_fwd p) (p_rev p) (p_polya p) (p_polyt p))) eqn:E; [discriminate|]. destruct (use_technical_replicas P && (p_groups p <=? 1)); [discriminate|].
    destruct (select_reference_gene c (p_votes p) _) eqn:S; intros X; inversion X; subst; repeat split; auto. right; eauto.
  - destruct (use_technical_replicas P && (p_groups p <=? 1)); [discriminate|].
    destruct (select_reference_gene c (p_votes p) _) eqn:S; intros X; inversion X; subst; repeat split; auto.
    + destruct (is_dot (strand_of (p_fwd p) (p_rev p) (p_polya p) (p_polyt p))) eqn:D; [right; eauto|left; reflexivity].
    + right; eauto. Qed.

(* a chain that is a key of known_isoforms_in_graph is never emitted as novel *)
Theorem novel_chain_not_known_path : forall P c p st g nic, decide P c p = Novel st g nic -> ~ In (p_introns p) (g_known_paths c).
Proof. intros P c p st g nic D A. apply decide_novel_inv in D. destruct D as (_ & B & _). apply mem_chain_In in A. congruence. Qed.

(* ... hence a novel model built from the threaded path of a read never carries the intron chain of a reference transcript *)
Theorem novel_chain_not_known : forall reads ops s refs P c p r st g nic,
  run (init reads) ops = Some s -> pend s = [] -> simplifiedb s = true ->
  In r (collected reads) -> thread s r = Some (p_introns p) -> p_introns p <> [] ->
  g_known_paths c = known_paths s refs ->
  decide P c p = Novel st g nic -> ~ In (p_introns p) refs.
Proof. intros reads ops s refs P c p r st g nic Rn Hp Hs Hr T Hne Hk D A.
  apply (novel_chain_not_known_path _ _ _ _ _ _ D). rewrite Hk. apply (known_paths_In s refs (p_introns p)); auto.
  eapply thread_vertices; [eapply inv_run; [apply inv_init|exact Rn]|]. eapply threaded_path_in_vertices; eauto. Qed.

(* .nic exactly when all introns are annotated *)
Theorem suffix_iff_all_known : forall P c p st g nic, decide P c p = Novel st g nic ->
  (nic = true <-> forall i, In i (p_introns p) -> In i (g_known c)).
Proof. intros P c p st g nic D. apply decide_novel_inv in D. destruct D as (_ & _ & -> & _). rewrite forallb_forall. split; intros H i Hi; [apply mem_In|apply mem_In]; auto. Qed.

(* without annotation nothing is attributed to a reference: every emitted model is novel and in a novel gene *)
Theorem annotation_free_all_novel : forall P c p (refs : list (list iv)),
  g_empty c = true -> refs = [] -> (forall k, p_matching p = Some k -> 0 <= k < Z.of_nat (length refs)) ->
  decide P c p = Skip \/ exists st nic, decide P c p = Novel st NovelGene nic.
Proof. intros P c p refs He -> Hw. destruct (decide P c p) eqn:D; [left; reflexivity| |].
  - exfalso. unfold decide in D. destruct (p_matching p) eqn:M.
    + specialize (Hw _ eq_refl). cbn in Hw. lia.
    + destruct (mem_chain _ _); [discriminate|]. destruct (_ <? _); [discriminate|]. destruct (_ && _); [discriminate|].
      destruct (match report_level P with OnlyCanonical => _ | OnlyStranded => _ | ReportAll => _ end); [discriminate|]. destruct (_ && _); [discriminate|].
      destruct (select_reference_gene _ _ _); discriminate.
  - right. apply decide_novel_inv in D. destruct D as (_ & _ & _ & _ & _ & [->|(k & -> & S)]); [eauto|]. unfold select_reference_gene in S. rewrite He in S. discriminate. Qed.

Lemma clean_not_dot_strand f r a t : is_dot (clean_strand_of f r) = false -> is_dot (strand_of f r a t) = false.
Proof. unfold clean_strand_of, strand_of. destruct ((f =? 0) && (0 <? r)) eqn:E1.
  - intros _. apply andb_true_iff in E1. destruct E1 as [A B]. apply Z.eqb_eq in A. apply Z.ltb_lt in B. destruct (f =? r) eqn:E; [lia|]. destruct (r <? f); reflexivity.
  - destruct ((0 <? f) && (r =? 0)) eqn:E2; [|cbn; discriminate]. intros _. apply andb_true_iff in E2. destruct E2 as [A B]. apply Z.eqb_eq in B. apply Z.ltb_lt in A.
    destruct (f =? r) eqn:E; [lia|]. destruct (r <? f); reflexivity. Qed.

(* a definite strand, unless every strand is reported *)
Theorem novel_has_definite_strand : forall P c p st g nic, report_level P <> ReportAll -> decide P c p = Novel st g nic -> st <> Dot.
Proof. intros P c p st g nic L D. apply decide_novel_inv in D. destruct D as (_ & _ & _ & Hl & Hs & _).
  assert (X : is_dot (strand_of (p_fwd p) (p_rev p) (p_polya p) (p_polyt p)) = false).
  { destruct (report_level P); [apply clean_not_dot_strand; exact Hl|exact Hl|congruence]. }
  destruct Hs as [->|(Y & _)]; [|congruence]. intros E. rewrite E in X. discriminate. Qed.

(* pairwise distinct chains: only when the full-length paths already have pairwise distinct intron parts *)
Theorem novel_chains_pairwise_distinct_partial : forall P c paths, NoDup (map p_introns paths) -> NoDup (novel_chains P c paths).
Proof. intros. unfold novel_chains. apply NoDup_map_filter. assumption. Qed.

(* detect_similar_isoforms never compares two models of at most two exons: mono-intronic duplicates always survive *)
Theorem mono_intronic_never_deduplicated : forall matches storage, (forall m, In m storage -> m_nexons m <= 2) -> detect_similar matches storage = [].
Proof. intros matches storage H. unfold detect_similar.
  assert (G : forall l sub, (forall m, In m l -> m_nexons m <= 2) ->
              fold_left (fun sub big => if (m_nexons big <=? 2) || zmem (m_id big) sub then sub else absorbed_by matches storage big sub) l sub = sub).
  { induction l as [|m t IH]; intros sub Hl; cbn [fold_left]; [reflexivity|]. assert (m_nexons m <=? 2 = true) as -> by (apply Z.leb_le; apply Hl; left; reflexivity).
    cbn [orb]. apply IH. intros; apply Hl; right; assumption. }
  apply G. exact H. Qed.

(* ---- the model store *)
Lemma zmem_In x l : zmem x l = true <-> In x l.
Proof. unfold zmem. rewrite existsb_exists. split; [intros (y & A & B); apply Z.eqb_eq in B; subst; exact A|intros A; exists x; split; [exact A|apply Z.eqb_refl]]. Qed.

Lemma nreads_app s l t : Z.of_nat (length (filter (fun e : Z * Z => fst e =? t) (rtab s ++ l))) = nreads s t + Z.of_nat (length (filter (fun e : Z * Z => fst e =? t) l)).
Proof. unfold nreads. rewrite filter_app, app_length. lia. Qed.

Record SInv (s : store) : Prop := mkSInv {
  si_rows : forall t r, In (t, r) (rtab s) -> In t (ids s);
  si_cnt : forall t, cnt s t <= nreads s t }.

Lemma zassoc_In {A} t (l : list (Z * A)) v : zassoc t l = Some v -> In (t, v) l.
Proof. induction l as [|[k x] u IH]; cbn [zassoc]; [discriminate|]. destruct (t =? k) eqn:E; [apply Z.eqb_eq in E; intros X; inversion X; subst; left; reflexivity|intros X; right; auto]. Qed.

Lemma sinv_step s o s' : SInv s -> sstep s o = Some s' -> SInv s'.
Proof. intros [Hr Hc] St. destruct o; cbn [sstep] in St.
  - destruct (zmem t (ids s)); [discriminate|]. inversion St; subst; clear St. constructor; cbn [rtab cnt].
    + intros t0 r A. unfold ids. cbn [models]. rewrite map_app. apply in_or_app. left. exact (Hr _ _ A).
    + exact Hc.
  - destruct (zmem t (ids s)) eqn:E; [|discriminate]. inversion St; subst; clear St. apply zmem_In in E. constructor; cbn [rtab cnt].
    + intros t0 r0 A. apply in_app_or in A. destruct A as [A|[A|[]]]; [exact (Hr _ _ A)|inversion A; subst; exact E].
    + intros t0. unfold nreads at 1. cbn [rtab]. rewrite nreads_app. cbn [filter fst]. unfold upd. destruct (t0 =? t) eqn:E2.
      * apply Z.eqb_eq in E2. subst. rewrite Z.eqb_refl. cbn [length]. specialize (Hc t). lia.
      * rewrite Z.eqb_sym, E2. cbn [length]. specialize (Hc t0). lia.
  - destruct (zassoc t (models s)) as [[|]|] eqn:E; try discriminate. inversion St; subst; clear St. constructor; cbn [rtab cnt].
    + intros t0 r A. apply filter_In in A. destruct A as [A B]. cbn [fst] in B. apply negb_true_iff, Z.eqb_neq in B. pose proof (Hr _ _ A) as X.
      unfold ids in *. cbn [models]. apply in_map_iff in X. destruct X as ([t1 nv] & E1 & X). cbn in E1; subst. apply in_map_iff. exists (t0, nv). split; [reflexivity|].
      apply filter_In. split; [exact X|]. cbn [fst]. apply negb_true_iff, Z.eqb_neq. exact B.
    + intros t0. unfold nreads. cbn [rtab]. unfold upd. destruct (t0 =? t) eqn:E2.
      * lia.
      * assert (X : filter (fun e : Z * Z => fst e =? t0) (filter (fun e : Z * Z => negb (fst e =? t)) (rtab s)) = filter (fun e : Z * Z => fst e =? t0) (rtab s)).
        { clear -E2. induction (rtab s) as [|[a b] u IH]; cbn [filter fst]; [reflexivity|]. destruct (a =? t) eqn:E3; cbn [negb].
          - apply Z.eqb_eq in E3. subst. rewrite Z.eqb_sym, E2. exact IH.
          - cbn [filter fst]. destruct (a =? t0); [f_equal|]; exact IH. }
        rewrite X. exact (Hc t0).
  - destruct (forallb (fun t => zmem t (ids s)) ts) eqn:E; [|discriminate]. inversion St; subst; clear St. rewrite forallb_forall in E. constructor; cbn [rtab cnt models].
    + intros t0 r0 A. apply in_app_or in A. destruct A as [A|A]; [exact (Hr _ _ A)|]. apply in_map_iff in A. destruct A as (t1 & E1 & A). inversion E1; subst. apply zmem_In. apply E. exact A.
    + intros t0. unfold nreads at 1. cbn [rtab]. rewrite nreads_app. specialize (Hc t0).
      destruct ts as [|t1 [|t2 u]]; [cbn; lia| |lia].
      cbn [map filter fst]. unfold upd. destruct (t0 =? t1) eqn:E2; [apply Z.eqb_eq in E2; subst; rewrite Z.eqb_refl; cbn [length]; lia|rewrite Z.eqb_sym, E2; cbn [length]; lia].
  - destruct (_ && _); [|discriminate]. inversion St; subst. constructor; assumption.
  - destruct (forallb _ _); [|discriminate]. inversion St; subst. constructor; assumption.
  - destruct (_ =? _); [|discriminate]. inversion St; subst. constructor; assumption. Qed.

Lemma sinv_run ops : forall s s', SInv s -> srun s ops = Some s' -> SInv s'.
Proof. induction ops as [|o t IH]; intros s s' H Rn; cbn [srun] in Rn; [inversion Rn; subst; exact H|]. destruct (sstep s o) eqn:E; [|discriminate]. eapply IH; [eapply sinv_step; eauto|exact Rn]. Qed.
Lemma sinv0 : SInv store0. Proof. constructor; cbn; [intros ? ? []|intros; lia]. Qed.

(* the read table names stored models only (or "*") *)
Theorem r2t_refers_to_models : forall ops s unassigned, srun store0 ops = Some s ->
  forall r t, In (r, t) (r2t_rows s unassigned) -> t = -1 \/ In t (ids s).
Proof. intros ops s un Rn r t A. pose proof (sinv_run _ _ _ sinv0 Rn) as [Hr _]. unfold r2t_rows in A. apply in_app_or in A. destruct A as [A|A]; apply in_map_iff in A.
  - destruct A as ([t' r'] & E & A). cbn in E. inversion E; subst. right. exact (Hr _ _ A).
  - destruct A as (r' & E & A). inversion E; subst. left; reflexivity. Qed.

Definition has_reads (s : store) : Prop := forall t, In (t, true) (models s) -> 1 <= nreads s t.

Lemma late_keeps_reads s o s' : late_op o = true -> has_reads s -> sstep s o = Some s' -> has_reads s'.
Proof. intros L H St. destruct o; cbn [late_op] in L; try discriminate; cbn [sstep] in St.
  - destruct (zassoc t (models s)) as [[|]|]; try discriminate. inversion St; subst; clear St. intros t0 A. cbn [models] in A. apply filter_In in A. destruct A as [A B]. cbn [fst] in B.
    apply negb_true_iff, Z.eqb_neq in B. unfold nreads. cbn [rtab].
    assert (X : filter (fun e : Z * Z => fst e =? t0) (filter (fun e : Z * Z => negb (fst e =? t)) (rtab s)) = filter (fun e : Z * Z => fst e =? t0) (rtab s)).
    { clear -B. induction (rtab s) as [|[a b] u IH]; cbn [filter fst]; [reflexivity|]. destruct (a =? t) eqn:E3; cbn [negb].
      - apply Z.eqb_eq in E3. subst. destruct (t =? t0) eqn:E4; [apply Z.eqb_eq in E4; congruence|exact IH].
      - cbn [filter fst]. destruct (a =? t0); [f_equal|]; exact IH. }
    rewrite X. exact (H _ A).
  - destruct (forallb _ ts); [|discriminate]. inversion St; subst; clear St. intros t0 A. cbn [models] in A. unfold nreads at 1. cbn [rtab]. rewrite nreads_app. specialize (H _ A). lia.
  - destruct (_ && _); [|discriminate]. inversion St; subst. exact H.
  - destruct (forallb _ _); [|discriminate]. inversion St; subst. exact H.
  - destruct (_ =? _); [|discriminate]. inversion St; subst. exact H. Qed.

(* once filter_transcripts has established its post-condition (every novel model has internal_counter >= min_novel_count >= 1),
   whatever follows (second assign_reads_to_models, deletions) leaves every reported novel model with at least one row *)
Theorem reported_model_has_reads : forall pre mnc post s, 1 <= mnc -> forallb late_op post = true ->
  srun store0 (pre ++ SCut mnc :: post) = Some s -> forall t, In (t, true) (models s) -> 1 <= nreads s t.
Proof. intros pre mnc post s Hm Hl Rn.
  assert (X : exists s1, srun store0 pre = Some s1 /\ srun s1 (SCut mnc :: post) = Some s).
  { revert Rn. generalize store0. induction pre as [|o t IH]; intros s0 Rn; cbn [srun app] in *; [eauto|]. destruct (sstep s0 o); [eauto|discriminate]. }
  destruct X as (s1 & R1 & R2). pose proof (sinv_run _ _ _ sinv0 R1) as [_ Hc]. cbn [srun sstep] in R2.
  destruct (forallb (fun m : Z * bool => negb (snd m) || (mnc <=? cnt s1 (fst m))) (models s1)) eqn:E; [|discriminate]. rewrite forallb_forall in E.
  assert (G : has_reads s1). { intros t A. specialize (E _ A). cbn [fst snd negb orb] in E. apply Z.leb_le in E. specialize (Hc t). lia. }
  clear -G Hl R2. revert s1 G R2. induction post as [|o u IH]; intros s1 G R2; cbn [srun] in R2; [inversion R2; subst; exact G|].
  cbn [forallb] in Hl. apply andb_true_iff in Hl. destruct Hl as [L1 L2]. destruct (sstep s1 o) eqn:E; [|discriminate]. eapply IH; [exact L2|eapply late_keeps_reads; eauto|exact R2]. Qed.

(* the first pass of filter_transcripts establishes the post-condition SCut, whatever the oracles answer *)
Theorem filter_pass_establishes_cut : forall mnc subst cut bad s,
  let s' := filter_pass mnc subst cut bad s in sstep s' (SCut mnc) = Some s'.
Proof. intros mnc subst cut bad s s'. cbn [sstep].
  assert (G : forall m, In m (models s') -> snd m = true -> mnc <= cnt s' (fst m)).
  { unfold s', filter_pass.
    set (f := fun (st : store) (m : Z * bool) => let t := fst m in if negb (snd m) then st
              else if zmem t subst || (cnt st t <? Z.max mnc (cut t)) || bad t
                   then mkS (filter (fun x => negb (fst x =? t)) (models st)) (filter (fun e => negb (fst e =? t)) (rtab st)) (upd (cnt st) t 0) else st).
    assert (K : forall l st done, (forall m, In m (models st) -> In m done -> snd m = true -> mnc <= cnt st (fst m)) ->
                (forall m, In m (models st) -> In m (done ++ l)) ->
                forall m, In m (models (fold_left f l st)) -> snd m = true -> mnc <= cnt (fold_left f l st) (fst m)).
    { induction l as [|[t nv] l IH]; intros st done G1 G2 m A B; cbn [fold_left] in *.
      - apply G1; auto. specialize (G2 _ A). rewrite app_nil_r in G2. exact G2.
      - apply (IH (f st (t, nv)) (done ++ [(t, nv)])); auto.
        + intros m0 A0 B0 C0. unfold f in *. cbn [fst snd] in *. destruct nv; cbn [negb] in *.
          * destruct (zmem t subst || (cnt st t <? Z.max mnc (cut t)) || bad t) eqn:E.
            -- cbn [models cnt] in *. apply filter_In in A0. destruct A0 as [A0 N]. apply negb_true_iff, Z.eqb_neq in N. unfold upd. destruct (fst m0 =? t) eqn:E2; [apply Z.eqb_eq in E2; congruence|].
               apply in_app_or in B0. destruct B0 as [B0|[B0|[]]]; [apply G1; auto|subst; cbn in N; congruence].
            -- apply in_app_or in B0. destruct B0 as [B0|[B0|[]]]; [apply G1; auto|]. subst. cbn [fst].
               apply orb_false_iff in E. destruct E as [E _]. apply orb_false_iff in E. destruct E as [_ E]. apply Z.ltb_ge in E. lia.
          * apply in_app_or in B0. destruct B0 as [B0|[B0|[]]]; [apply G1; auto|subst; discriminate].
        + intros m0 A0. rewrite <- app_assoc. cbn [app]. apply G2. unfold f in A0. cbn [fst snd] in A0. destruct nv; cbn [negb] in A0; [|exact A0].
          destruct (zmem t subst || (cnt st t <? Z.max mnc (cut t)) || bad t); [|exact A0]. cbn [models] in A0. apply filter_In in A0. tauto. }
    intros m A B. apply (K (models s) s []); auto. intros m0 _ []. }
  assert (E : forallb (fun m : Z * bool => negb (snd m) || (mnc <=? cnt s' (fst m))) (models s') = true).
  { apply forallb_forall. intros m A. destruct (snd m) eqn:B; [|reflexivity]. cbn [negb orb]. apply Z.leb_le. apply G; assumption. }
  rewrite E. reflexivity. Qed.

(* the fuelled Python loop of simplify_correction_map computes [resolve] *)
Lemma chase_skip k v t : (forall e, In e t -> snd e <> k) -> forall f y, y <> k -> chase f ((k, v) :: t) y = chase f t y.
Proof. intros Hv. induction f as [|f IH]; intros y Hy; cbn [chase assoc]; [reflexivity|].
  destruct (iv_eqb y k) eqn:E; [apply iv_eqb_eq in E; contradiction|]. destruct (assoc y t) as [z|] eqn:A; [|reflexivity].
  apply IH. apply assoc_Some in A. exact (Hv _ A). Qed.
Lemma chase_succ m : forall f x, chase (Datatypes.S f) m x = chase 1 m (chase f m x).
Proof. induction f as [|f IH]; intros x; [reflexivity|]. cbn [chase] in *. destruct (assoc x m) as [y|] eqn:A; [apply IH|rewrite A; reflexivity]. Qed.
Theorem resolve_is_python_loop : forall m, chron m -> forall x, chase (length m) m x = resolve m x.
Proof. induction m as [|[k v] t IH]; intros C x; [reflexivity|]. cbn [chron] in C. destruct C as (C1 & C2 & C3 & C4).
  assert (S1 : forall y, chase (Datatypes.S (length t)) t y = resolve t y).
  { intros y. rewrite chase_succ, IH by exact C4. cbn [chase]. pose proof (resolve_not_key t C4 y) as N. apply assoc_None in N. rewrite N. reflexivity. }
  cbn [length resolve]. destruct (iv_eqb x k) eqn:E.
  - cbn [chase assoc]. rewrite E. rewrite chase_skip by auto. apply IH. exact C4.
  - rewrite chase_skip; [apply S1|exact C2|apply iv_eqb_neq; exact E]. Qed.

(* the intron chain printed for a model (junctions of its exons) is its intron path, when consecutive introns are separated by an exon *)
Fixpoint wfp (a : iv) (p : list iv) (z : iv) : Prop :=
  match p with [] => snd a + 1 < fst z | i :: t => snd a + 1 < fst i /\ fst i <= snd i /\ wfp i t z end.
Lemma jfb_head a p z : wfp a p z -> exists x, jfb (a :: p ++ [z]) = (snd a + 1, x) :: jfb (p ++ [z]).
Proof. destruct p as [|i t]; cbn [wfp app jfb]; intros H.
  - assert (snd a + 1 <? fst z = true) as -> by (apply Z.ltb_lt; exact H). cbn [app]. eauto.
  - destruct H as (H & _). assert (snd a + 1 <? fst i = true) as -> by (apply Z.ltb_lt; exact H). cbn [app]. eauto. Qed.
Lemma jfb_roundtrip : forall p a z, wfp a p z -> jfb (jfb (a :: p ++ [z])) = p.
Proof. induction p as [|i t IH]; intros a z H.
  - cbn [wfp] in H. cbn [app jfb]. assert (snd a + 1 <? fst z = true) as -> by (apply Z.ltb_lt; exact H). reflexivity.
  - pose proof H as H0. cbn [wfp] in H. destruct H as (H1 & H2 & H3). change ((i :: t) ++ [z]) with (i :: t ++ [z]).
    assert (E : jfb (a :: i :: t ++ [z]) = (snd a + 1, fst i - 1) :: jfb (i :: t ++ [z])).
    { cbn [jfb]. assert (snd a + 1 <? fst i = true) as -> by (apply Z.ltb_lt; exact H1). reflexivity. }
    rewrite E. destruct (jfb_head i t z H3) as (x & Ex). specialize (IH i z H3). rewrite Ex in *. cbn [jfb fst snd].
    assert (fst i - 1 + 1 <? snd i + 1 = true) as -> by (apply Z.ltb_lt; lia). cbn [app]. cbn [jfb] in IH. f_equal; [|exact IH].
    destruct i as [i1 i2]. cbn [fst snd]. f_equal; lia. Qed.
Theorem model_chain_is_path : forall r p, wfp (fst r - 1, fst r - 1) p (snd r + 1, snd r + 1) -> jfb (get_exons r p) = p.
Proof. intros r p H. unfold get_exons. apply jfb_roundtrip. exact H. Qed.

(* both ends of every edge are corrected introns of collected reads - also of the stale edges that remove_singleton_dead_ends leaves behind,
   through which a defaultdict look-up of attach_terminal_positions can re-create a removed intron as a zero-coverage key *)
Theorem edge_endpoints_are_read_introns : forall reads ops s, run (init reads) ops = Some s ->
  forall v, In v (endpoints (edges s)) -> exists r, In r (collected reads) /\ In v r.
Proof. intros reads ops s Rn v A. pose proof (inv_run _ _ _ _ (inv_init reads) Rn) as H. apply In_read_introns.
  unfold endpoints in A. apply in_app_or in A. destruct A as [A|A]; apply in_map_iff in A; destruct A as ([a b] & E & A); cbn in E; subst;
  destruct (i_edges _ _ H _ _ A); assumption. Qed.

(* every intron the system has classified - vertex, key of the correction map or discarded - is a corrected intron of a collected read:
   in particular the keys that defaultdict look-ups re-create in clustered_introns *)
Theorem classified_are_read_introns : forall reads ops s, run (init reads) ops = Some s ->
  forall v, In v (vert s ++ keys (smap s) ++ disc s) -> exists r, In r (collected reads) /\ In v r.
Proof. intros reads ops s Rn v A. pose proof (inv_run _ _ _ _ (inv_init reads) Rn) as H. apply In_read_introns.
  apply in_app_or in A. destruct A as [A|A]; [exact (i_vert _ _ H _ A)|]. apply in_app_or in A. destruct A as [A|A]; [|exact (i_disc _ _ H _ A)].
  apply keys_in in A. destruct A as (x & A). exact (proj1 (i_map _ _ H _ _ A)). Qed.

(* ---- filter_transcripts: whatever a pass removes from the storage leaves no row in the read table *)
Lemma sinv_delete s t : SInv s ->
  SInv (mkS (filter (fun x : Z * bool => negb (fst x =? t)) (models s)) (filter (fun e : Z * Z => negb (fst e =? t)) (rtab s)) (upd (cnt s) t 0)).
Proof. intros [Hr Hc]. constructor; cbn [rtab cnt].
  - intros t0 r A. apply filter_In in A. destruct A as [A B]. cbn [fst] in B. apply negb_true_iff, Z.eqb_neq in B. pose proof (Hr _ _ A) as X.
    unfold ids in *. cbn [models]. apply in_map_iff in X. destruct X as ([t1 nv] & E1 & X). cbn in E1; subst. apply in_map_iff. exists (t0, nv). split; [reflexivity|].
    apply filter_In. split; [exact X|]. cbn [fst]. apply negb_true_iff, Z.eqb_neq. exact B.
  - intros t0. unfold nreads. cbn [rtab]. unfold upd. destruct (t0 =? t) eqn:E2; [lia|].
    assert (X : filter (fun e : Z * Z => fst e =? t0) (filter (fun e : Z * Z => negb (fst e =? t)) (rtab s)) = filter (fun e : Z * Z => fst e =? t0) (rtab s)).
    { clear -E2. induction (rtab s) as [|[a b] u IH]; cbn [filter fst]; [reflexivity|]. destruct (a =? t) eqn:E3; cbn [negb].
      - apply Z.eqb_eq in E3. subst. rewrite Z.eqb_sym, E2. exact IH.
      - cbn [filter fst]. destruct (a =? t0); [f_equal|]; exact IH. }
    rewrite X. exact (Hc t0). Qed.

Lemma filter_pass_sinv mnc subst cut bad s : SInv s -> SInv (filter_pass mnc subst cut bad s).
Proof. unfold filter_pass. generalize (models s) at 1. intros l. revert s. induction l as [|m t IH]; intros s H; cbn [fold_left]; [exact H|]. apply IH.
  destruct (negb (snd m)); [exact H|]. destruct (zmem (fst m) subst || (cnt s (fst m) <? Z.max mnc (cut (fst m))) || bad (fst m)); [apply sinv_delete; exact H|exact H]. Qed.
Lemma filter_pass2_sinv subst s : SInv s -> SInv (filter_pass2 subst s).
Proof. unfold filter_pass2. generalize (models s) at 1. intros l. revert s. induction l as [|m t IH]; intros s H; cbn [fold_left]; [exact H|]. apply IH.
  destruct (snd m && zmem (fst m) subst); [apply sinv_delete; exact H|exact H]. Qed.

(* every row of the read table after filter_transcripts (both passes: similar-isoform substitution, coverage cut-off, the MAPQ test of models with
   at most two exons, second substitution) names a model that is still stored: a model removed by ANY pass takes its rows with it *)
Theorem filter_transcripts_keeps_table_consistent : forall ops s mnc subst1_ cut bad subst2, srun store0 ops = Some s ->
  let s' := filter_transcripts_model mnc subst1_ cut bad subst2 s in
  forall t r, In (t, r) (rtab s') -> In t (ids s').
Proof. intros ops s mnc s1 cut bad s2 Rn s' t r A. pose proof (sinv_run _ _ _ sinv0 Rn) as H.
  exact (si_rows _ (filter_pass2_sinv s2 _ (filter_pass_sinv mnc s1 cut bad _ H)) _ _ A). Qed.

(* and a model that a pass removes is gone together with all its rows *)
Lemma delete_removes s t : let s' := mkS (filter (fun x : Z * bool => negb (fst x =? t)) (models s)) (filter (fun e : Z * Z => negb (fst e =? t)) (rtab s)) (upd (cnt s) t 0) in
  ~ In t (ids s') /\ forall r, ~ In (t, r) (rtab s').
Proof. cbn. split.
  - unfold ids. cbn [models]. intros A. apply in_map_iff in A. destruct A as ([t0 nv] & E & A). cbn in E; subst. apply filter_In in A. destruct A as [_ A]. cbn [fst] in A. rewrite Z.eqb_refl in A. discriminate.
  - intros r A. apply filter_In in A. destruct A as [_ A]. cbn [fst] in A. rewrite Z.eqb_refl in A. discriminate. Qed.
