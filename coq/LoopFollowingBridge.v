(* C19: Intervals.following_exon is get_following_exon_from_junctions of src/common.py as regenerated into gen/Loops.v (tools/translate_loops.py, on every check):
   Python indexing with wrap-around as py_index, the exception-freedom condition as py_..._pre.  For all inputs, exceptions included. *)
From Coq Require Import ZArith NArith List Bool Lia ZifyBool.
From IQ.gen Require Import Prims Loops.
From IQ Require Import CorrSupport Intervals PyidxSupport.
Import ListNotations. Open Scope Z_scope.

Theorem following_exon_is_the_source reg J p :
  Intervals.following_exon reg J p =
  if py_get_following_exon_from_junctions_pre reg J p then Ok (py_get_following_exon_from_junctions reg J p) else Raises IndexError.
Proof. unfold following_exon, py_get_following_exon_from_junctions_pre, py_get_following_exon_from_junctions.
  rewrite (pyidx_spec J p (0, 0)), (pyidx_spec J (p + 1) (0, 0)).
  destruct ((p =? Z.of_nat (length J) - 1) || (p =? -1)).
  - destruct (py_index_ok J p); reflexivity.
  - destruct (py_index_ok J (p + 1)); cbn [andb]; [destruct (py_index_ok J p); reflexivity|reflexivity]. Qed.
