#!/bin/bash
# Build the framework from files on disk only: forbidden-construct scan, regenerate coq/gen from /repo, clean full .vo build.
set -e
cd "$(dirname "$0")"
if grep -rnE '\b(Admitted|admit|Axiom|Parameter|Conjecture|Admit Obligations)\b|Unset Guard|bypass_check|type-in-type|impredicative-set|Unset Universe Checking|Unset Positivity' --include='*.v' coq | grep -v '^coq/gen/' | grep -v '(\*.*\b\(Admitted\|admit\|Axiom\|Parameter\)\b.*\*)' ; then
  echo "forbidden construct found in the Coq development" >&2; exit 2
fi
/venv/bin/python tools/regen.py /repo coq/gen >/dev/null
cd coq
(echo "-Q . IQ"; ls gen/*.v *.v props/*.v | sort) > _CoqProject
coq_makefile -f _CoqProject -o Makefile >/dev/null
make clean >/dev/null 2>&1 || true
LOG=$(mktemp)
timeout 3000 make -k -j16 > "$LOG" 2>&1 || true
# every property claimed in MANIFEST.json must have its theorem file compiled; anything else that failed is reported, not fatal
missing=""
for p in $(/venv/bin/python -c "import json; print(' '.join(c['property_id'] for c in json.load(open('../MANIFEST.json'))['checks']))"); do
  [ -f "props/$p.vo" ] || missing="$missing $p"
done
if [ -n "$missing" ]; then echo "setup FAILED: props not built:$missing" >&2; grep -B2 -A12 'Error' "$LOG" | head -60 >&2; rm -f "$LOG"; exit 1; fi
nfail=$(grep -c '^make.*Error' "$LOG" || true)
echo "setup ok: $(ls *.vo props/*.vo gen/*.vo | wc -l) .vo files; make errors outside the claimed properties: $nfail"
rm -f "$LOG"
