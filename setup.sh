#!/bin/bash
# Build the framework from files on disk only: forbidden-construct scan, regenerate coq/gen from /repo, clean full .vo build.
set -e
cd "$(dirname "$0")"
if grep -rnE '\b(Admitted|admit|Axiom|Parameter|Conjecture|Admit Obligations)\b|Unset Guard|bypass_check|type-in-type|impredicative-set|Unset Universe Checking|Unset Positivity' --include='*.v' coq | grep -v '^coq/gen/' | grep -v '(\*.*\b\(Admitted\|admit\|Axiom\|Parameter\)\b.*\*)' ; then
  echo "forbidden construct found in the Coq development" >&2; exit 2
fi
/venv/bin/python tools/regen.py /repo coq/gen >/dev/null
cd coq
(echo "-Q . IQ"; ls gen/*.v *.v props/*.v | sort) > _CoqProject
coq_makefile -f _CoqProject -o Makefile >/dev/null
make clean >/dev/null 2>&1 || true
timeout 3000 make -j16 > /tmp/iqv_setup_make.log 2>&1 || { tail -40 /tmp/iqv_setup_make.log; exit 1; }
echo "setup ok: $(ls *.vo props/*.vo gen/*.vo | wc -l) .vo files"
