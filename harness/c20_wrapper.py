#!/usr/bin/env python3
"""C20 cooperative scheduler, process side.

Runs the UNMODIFIED cache code of $VERIF_REPO (isoquant.set_configs_directory, src.gtf2db.convert_gtf_to_db /
convert_db_to_gtf, src.read_mapper.find_stored_* / store_*) in this process, with the operations on ONE shared cache file
turned into synchronisation points: before each of them the process reports the event on a pipe and blocks until the
driver (harness/props/c20.py) answers "go".  Between two synchronisation points the process runs freely, so one model
step = everything from one event up to the next.

  exists   os.path.exists(cache)                       (set_configs_directory)
  read     open(cache, 'r')  [+ json.load]
  trunc    open(cache, 'w')                             (in-place protocol: the file is empty from here on)
  dump     json.dump(obj, <handle of cache>) [+ close]
  replace  os.replace(tmp, cache)                       (atomic protocol)
  lookup   src.gtf2db.find_converted_db                 (only for kind "run")
  convert  src.gtf2db.gtf2db / the stand-in builder     (the process's own conversion)
  isdir / makedirs / mkdir   os.path.isdir / os.makedirs / os.mkdir of $HOME/.config/IsoQuant   (kind "init_dir")

Active only under ABLAB_ISOQUANT_VERIF=1; nothing in the repository is touched.
usage: c20_wrapper.py <spec.json> <read fd> <write fd>"""
import os, sys, json, builtins, argparse, traceback

REPO = os.environ.get("VERIF_REPO", "/repo")
if os.environ.get("ABLAB_ISOQUANT_VERIF") != "1":
    sys.stderr.write("c20_wrapper: ABLAB_ISOQUANT_VERIF=1 is required\n"); sys.exit(2)
sys.path.insert(0, REPO)

spec = json.load(open(sys.argv[1]))
RFD, WFD = int(sys.argv[2]), int(sys.argv[3])
_in = os.fdopen(RFD, "r"); _out = os.fdopen(WFD, "w")
CACHE = os.path.abspath(spec["cache"])
FREE = bool(spec.get("free"))           # free-running: no blocking, only the log of events


def _send(msg):
    _out.write(json.dumps(msg) + "\n"); _out.flush()

def sync(event, **info):
    _send(dict(at=event, **info))
    if FREE: return
    line = _in.readline()
    if line.strip() != "go":
        os._exit(70)

def _is_cache(p):
    try:
        return isinstance(p, (str, bytes, os.PathLike)) and os.path.abspath(os.fspath(p)) == CACHE
    except Exception:
        return False

_real_open = builtins.open
def _open(file, mode="r", *a, **k):
    if _is_cache(file):
        if "w" in mode: sync("trunc")
        elif "r" in mode and "+" not in mode: sync("read")
        else: sync("open:" + mode)
    return _real_open(file, mode, *a, **k)

_real_dump = json.dump
def _dump(obj, fp, *a, **k):
    if _is_cache(getattr(fp, "name", None)):
        sync("dump", len=len(json.dumps(obj, *a, **k)))
    return _real_dump(obj, fp, *a, **k)

_real_replace = os.replace
def _replace(src, dst, *a, **k):
    if _is_cache(dst):
        try: n = os.path.getsize(src)
        except OSError: n = -1
        sync("replace", len=n)
    return _real_replace(src, dst, *a, **k)
_real_rename = os.rename
def _rename(src, dst, *a, **k):
    if _is_cache(dst):
        try: n = os.path.getsize(src)
        except OSError: n = -1
        sync("replace", len=n)
    return _real_rename(src, dst, *a, **k)

_real_exists = os.path.exists
def _exists(p):
    if _is_cache(p): sync("exists")
    return _real_exists(p)


# the configuration directory (kind "init_dir"): os.path.isdir(dir) and os.makedirs(dir) are synchronisation points; what os.makedirs
# itself calls (os.path.exists / isdir of the same path) is part of that one step
DIR = os.path.abspath(spec["dir"]) if spec.get("dir") else None
_inside = [False]
def _is_dir(p):
    try:
        return DIR is not None and isinstance(p, (str, bytes, os.PathLike)) and os.path.abspath(os.fspath(p)) == DIR
    except Exception:
        return False
_real_isdir = os.path.isdir
def _isdir(p):
    if _is_dir(p) and not _inside[0]: sync("isdir")
    return _real_isdir(p)
_real_makedirs = os.makedirs
def _makedirs(name, mode=0o777, exist_ok=False):
    if _is_dir(name) and not _inside[0]:
        sync("makedirs", exist_ok=bool(exist_ok))
        _inside[0] = True
        try:
            return _real_makedirs(name, mode, exist_ok)
        finally:
            _inside[0] = False
    return _real_makedirs(name, mode, exist_ok)
_real_mkdir = os.mkdir
def _mkdir(path, *a, **k):
    if _is_dir(path) and not _inside[0]: sync("mkdir")
    return _real_mkdir(path, *a, **k)


def install():
    if DIR is not None:
        os.path.isdir = _isdir; os.makedirs = _makedirs; os.mkdir = _mkdir
    builtins.open = _open
    json.dump = _dump
    os.replace = _replace
    os.rename = _rename
    os.path.exists = _exists


def job_run():
    """set_configs_directory + convert_gtf_to_db, as isoquant.py does before anything else touches the annotation"""
    import isoquant
    from src import gtf2db
    real_find = gtf2db.find_converted_db
    def find_converted_db(*a, **k):
        sync("lookup")
        return real_find(*a, **k)
    gtf2db.find_converted_db = find_converted_db
    real_conv = gtf2db.gtf2db
    def conv(*a, **k):
        sync("convert")
        return real_conv(*a, **k)
    gtf2db.gtf2db = conv                      # convert_gtf_to_db passes the module global and convert_db compares with it
    args = argparse.Namespace(genedb=spec["gtf"], genedb_filename=spec["out"], complete_genedb=bool(spec["complete"]),
                              clean_start=bool(spec.get("clean")), gtf_check=True, output=os.path.dirname(spec["out"]))
    install()
    if spec.get("init", True):
        isoquant.set_configs_directory(args)
    else:
        args.db_config_path = CACHE
    return gtf2db.convert_gtf_to_db(args)


def job_init_dir():
    """set_configs_directory alone: the creation of $HOME/.config/IsoQuant is what is scheduled (the cache path given is never touched)"""
    import isoquant
    args = argparse.Namespace()
    install()
    isoquant.set_configs_directory(args)
    return os.path.dirname(args.db_config_path)


def _touch_new(path, text):
    with _real_open(path, "w") as f: f.write(text)

def job_stored():
    """read_mapper's cycle for the index / BED / alignment caches: find_stored_X; on a miss build the file and store_X"""
    from src import read_mapper as rm
    which = spec["which"]
    args = argparse.Namespace(reference=spec["gtf"], genedb=spec["gtf"], index=spec.get("index"), data_type=spec.get("data_type", "nanopore"),
                              index_config_path=CACHE, bed_config_path=CACHE, alignment_config_path=CACHE)
    install()
    if which == "index":
        r = rm.find_stored_index(args)
        if r is None:
            sync("convert"); _touch_new(spec["out"], "index of %s" % spec["gtf"]); rm.store_index(spec["out"], args); r = spec["out"]
    elif which == "bed":
        r = rm.find_stored_bed(args)
        if r is None:
            sync("convert"); _touch_new(spec["out"], "bed of %s" % spec["gtf"]); rm.store_bed(spec["out"], args); r = spec["out"]
    elif which == "alignment":
        r = rm.find_stored_alignment(spec["gtf"], spec.get("annotation"), args)
        if r is None:
            sync("convert"); _touch_new(spec["out"], "bam of %s" % spec["gtf"]); rm.store_alignment(spec["out"], spec["gtf"], spec.get("annotation"), args); r = spec["out"]
    else:
        raise ValueError(which)
    return os.path.abspath(r)


def main():
    try:
        r = job_run() if spec["kind"] == "run" else job_init_dir() if spec["kind"] == "init_dir" else job_stored()
        _send(dict(exit="done", result=r))
        code = 0
    except SystemExit as e:
        _send(dict(exit="sysexit", code=e.code)); code = 3
    except BaseException as e:
        _send(dict(exit="crashed", exc=type(e).__name__, msg=str(e)[:300], tb=traceback.format_exc()[-1500:])); code = 1
    try: _out.close()
    except Exception: pass
    os._exit(code)

main()
