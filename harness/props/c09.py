"""C09 — grouped tables partition the ungrouped ones; matrix and linear formats agree; every read gets the documented group."""
import os, shutil, tempfile, itertools, types, json, random
from fractions import Fraction
from lib import *
from props.c02_common import *

PRE_G = """From IQ Require Import GroupedGroupers GroupedCheck.
Open Scope Z_scope.
"""
def cs(s): return "[" + "; ".join("%d" % ord(c) for c in s) + "]"
def cos(s): return "None" if s is None else "(Some %s)" % cs(s)
def creg(reg): return clist(sorted(x for x in reg if isinstance(x, str)), cs)

NAME_CH = "abcXYZ019_.|-"

def rname(rnd, delims=("_",)):
    n = "".join(rnd.choice(NAME_CH) for _ in range(rnd.randint(1, 10)))
    for d in delims:
        if rnd.random() < .5: n += d + "".join(rnd.choice("abG12") for _ in range(rnd.randint(0, 3)))
    return n or "r"


def groupers(ctx, quick):
    import pysam
    from src import read_groups as RG
    rnd = ctx.rnd
    hdr = pysam.AlignmentHeader.from_dict({"HD": {"VN": "1.6"}, "SQ": [{"SN": "chrA", "LN": 10000}, {"SN": "chrB", "LN": 10000}]})
    def seg(name, tags=None, ref=0, pos=100):
        a = pysam.AlignedSegment(hdr); a.query_name = name; a.flag = 0; a.reference_id = ref; a.reference_start = pos; a.cigartuples = [(0, 10)]
        a.query_sequence = "ACGTACGTAC"; a.mapping_quality = 60
        for t, v in (tags or {}).items(): a.set_tag(t, v)
        return a

    # ---- tag
    cases = []
    for i in range(300 if quick else 3000):
        tag = rnd.choice(["RG", "CB", "XG"]); direct = rnd.random() < .8; option = rnd.choice(["tag:" + tag, "tag"])
        if not direct: tag = option.split(":")[1] if ":" in option else "RG"
        tags = {}
        for t in ("RG", "CB", "XG", "NM"):
            if rnd.random() < .5: tags[t] = 3 if t == "NM" else rnd.choice(["", "NA", "g1", "cell-7", "A B", "zeta", "10"])
        a = seg(rname(rnd), tags)
        try:
            g = RG.AlignmentTagReadGrouper(tag) if direct else RG.create_read_grouper(types.SimpleNamespace(read_group=option), None, "chrA")
            r = g.get_group_id(a, "f.bam")
        except Exception as e:
            ctx.violation(None, "AlignmentTagReadGrouper raises %s" % type(e).__name__, {"tags": tags, "tag": tag, "error": impl_error(e)}); continue
        v = tags.get(tag)
        cases.append(("(%s, %s, %s)" % (cos(v), cos(r), creg(g.read_groups)), {"grouper": "tag:" + tag, "tags": tags, "impl": r, "registered": sorted(g.read_groups)}))
    pre = PRE_G + "Definition check := check_tag.\nDefinition prop := prop_tag.\n"
    mism, viol = ctx.corr("grouper_tag", pre, cases, nontrivial=lambda o: o["impl"] != "NA")
    ctx.corr_report("grouper_tag", mism, viol, keyfn=lambda o: None, what="AlignmentTagReadGrouper does not return the tag value / NA")

    # ---- read id
    cases = []
    delims = ["_", "|", "__", "aa", ".", "-x-", "ab"]
    names = []
    for d in delims:
        for body in ("r", "aaa", "a", d, d + d, "r" + d, d + "g", "r" + d + "g", "r" + d + "g" + d + "h", "r" + d[:1], "aab", "abab", "a_a__a"):
            names.append((d, body))
    for i in range(400 if quick else 5000):
        d = rnd.choice(delims); names.append((d, rname(rnd, (d, d))))
    for d, name in names:
        a = seg(name)
        try:
            g = RG.ReadIdSplitReadGrouper(d) if rnd.random() < .8 else RG.create_read_grouper(types.SimpleNamespace(read_group="read_id:" + d), None, "chrA")
            r = g.get_group_id(a, "f.bam")
        except Exception as e:
            ctx.violation(None, "ReadIdSplitReadGrouper raises %s" % type(e).__name__, {"delim": d, "name": name, "error": impl_error(e)}); continue
        cases.append(("(%s, %s, %s, %s)" % (cs(d), cs(name), cos(r), creg(g.read_groups)), {"grouper": "read_id:" + d, "read_name": name, "impl": r, "registered": sorted(x for x in g.read_groups if x is not None)}))
    pre = PRE_G + "Definition check := check_read_id.\nDefinition prop := prop_read_id.\n"
    mism, viol = ctx.corr("grouper_read_id", pre, cases, nontrivial=lambda o: o["impl"] not in ("NA", None))
    ctx.corr_report("grouper_read_id", mism, viol, keyfn=lambda o: None, what="ReadIdSplitReadGrouper: a read without the delimiter must be reported under NA (and the suffix after the last delimiter otherwise)")

    # ---- table, through the real prepare_read_groups/split_read_group_table and create_read_grouper
    cases = []; work = tempfile.mkdtemp(prefix="iqv_c09t_")
    try:
        for i in range(150 if quick else 1500):
            d = os.path.join(work, "t%d" % i); os.makedirs(os.path.join(d, "aux"))
            delim, rc, gc = rnd.choice([("\t", 0, 1), ("\t", 0, 1), ("\t", 1, 0), ("\t", 0, 2), (",", 0, 1), (";;", 1, 2)])
            reads = [("#" if rnd.random() < .25 else "") + rname(rnd) for _ in range(rnd.randint(2, 6))]; reads = list(dict.fromkeys(reads))   # SAM allows read ids that start with '#'
            if i == 0: delim, rc, gc = "\t", 1, 0; reads = ["#r", "r2"]                                   # corpus: the recorded input of C09:table-read-id-hash
            lines = []
            for r in reads + [rname(rnd) for _ in range(2)]:
                x = rnd.random()
                if x < .2 and i > 0: continue                                     # not in the table
                cols = ["c%d" % j for j in range(max(rc, gc) + 1 + rnd.randint(0, 1))]
                cols[rc] = r; cols[gc] = rnd.choice(["g1", "g2", "NA", "zeta", "A B", "10", " pad", "pad ", ""]) if i > 0 else "g" + r[-1]
                line = delim.join(cols)
                if x < .3: line = "  " + line + " "
                lines.append(line)
                if x > .9: cols[gc] = "dup"; lines.append(delim.join(cols))           # duplicate id: last one wins
            for _ in range(rnd.randint(0, 3)): lines.insert(rnd.randint(0, len(lines)), rnd.choice(["", "# comment", "#" + delim.join(["x", "y"]), "lonely", "   "]))
            tfile = os.path.join(d, "groups.tsv"); open(tfile, "w").write("".join(l + "\n" for l in lines))
            bam = os.path.join(d, "r.bam")
            with pysam.AlignmentFile(bam, "wb", header=hdr) as out:
                segs = [seg(r, ref=j % 2, pos=100 + 10 * j) for j, r in enumerate(reads)]
                for a in segs: out.write(a)
                if rnd.random() < .3: out.write(seg(reads[0], ref=0, pos=500))        # the same read twice on one chromosome
            sample = types.SimpleNamespace(file_list=[[bam]], read_group_file=os.path.join(d, "aux", "S.read_group"))
            opt = "file:%s" % tfile
            if (rc, gc, delim) != (0, 1, "\t") or rnd.random() < .5: opt += ":%d:%d" % (rc, gc)
            if delim != "\t": opt += ":" + delim
            args = types.SimpleNamespace(read_group=opt)
            try:
                RG.prepare_read_groups(args, sample)
                gr = {c: RG.create_read_grouper(args, sample, c) for c in ("chrA", "chrB")}
            except Exception as e:
                ctx.violation(None, "read-group table preparation raises %s" % type(e).__name__, {"lines": lines, "option": opt.replace(tfile, "<table>"), "error": impl_error(e)}); continue
            for j, r in enumerate(reads):
                g = gr["chrA" if j % 2 == 0 else "chrB"]
                try: res = g.get_group_id(segs[j], bam)
                except Exception as e:
                    ctx.violation(None, "ReadTableGrouper raises %s" % type(e).__name__, {"lines": lines, "read": r, "error": impl_error(e)}); continue
                cases.append(("(%d, %d, %s, %s, %s, %s, %s)" % (rc, gc, cs(delim), clist(lines, cs), cs(r), cos(res), creg(g.read_groups)),
                              {"grouper": opt.replace(tfile, "<table>"), "table_lines": lines, "read_name": r, "impl": res}))
            shutil.rmtree(d, ignore_errors=True)
    finally:
        shutil.rmtree(work, ignore_errors=True)
    tv = table_variant()
    ctx.notes.append("table grouper: the checked-out code reads the per-chromosome split files %s (model variant %s)" % (("without comment skipping", "table_group_repaired") if tv else ("WITH comment skipping (before commit 614fc16)", "table_group")))
    pre = PRE_G + "From IQ Require Import GroupedUniverse GroupedTable GroupedUniverseCheck.\nDefinition check := %s.\nDefinition prop := prop_table_strict.\n" % ("check_table_repaired" if tv else "check_table")
    mism, viol = ctx.corr("grouper_table", pre, cases, shard=200, nontrivial=lambda o: o["impl"] != "NA")
    ctx.corr_report("grouper_table", mism, viol, keyfn=lambda o: HASH_KEY if o["read_name"].startswith("#") else None, what="ReadTableGrouper behind split_read_group_table does not return the table entry / NA")

    # ---- file name
    cases = []
    for i in range(200 if quick else 2000):
        files = [rnd.choice(["/d/a.bam", "/d/b.sorted.bam", "c.bam", "/x/.hidden", "/x/..bam", "/d/e/a.bam", "noext", "/p.q/r"]) for _ in range(rnd.randint(1, 4))]
        libs = [[f] if rnd.random() < .8 else [f, f + ".2"] for f in files]
        sample = types.SimpleNamespace(readable_names_dict=None, file_list=libs)
        args = types.SimpleNamespace(input_data=types.SimpleNamespace(samples=[sample]), read_group="file_name")
        f = rnd.choice([None, "", "/other/z.bam"] + [x for l in libs for x in l] * 3)
        try:
            g = RG.FileNameGrouper(args, sample) if rnd.random() < .7 else RG.create_read_grouper(args, sample, "chrA")
            r = g.get_group_id(seg("r"), f)
        except Exception as e:
            ctx.violation(None, "FileNameGrouper raises %s" % type(e).__name__, {"libs": libs, "filename": f, "error": impl_error(e)}); continue
        cases.append(("(%s, %s, %s, %s)" % (clist(libs, lambda l: clist(l, cs)), cos(f), cos(r), creg(g.read_groups)), {"grouper": "file_name", "libraries": libs, "filename": f, "impl": r}))
    pre = PRE_G + "Definition check := check_file_name.\nDefinition prop := prop_file_name.\n"
    mism, viol = ctx.corr("grouper_file_name", pre, cases, nontrivial=lambda o: o["impl"] != "NA")
    ctx.corr_report("grouper_file_name", mism, viol, keyfn=lambda o: None, what="FileNameGrouper does not return the file label / NA")
    ctx.rule("groupers: the real AlignmentTagReadGrouper / ReadIdSplitReadGrouper / ReadTableGrouper (behind the real prepare_read_groups + split_read_group_table on small BAM "
             "files, custom columns and delimiters, comments, malformed and duplicated lines, padded values) / FileNameGrouper, directly and via create_read_grouper, on real "
             "pysam segments: tag present/absent, delimiter present/absent/overlapping/at the ends, table hit/miss, file label known/unknown/None; answer and registration "
             "in read_groups compared with the model and with the specification (a group is always returned, NA when the read has none); non-trivial = a group other than NA")


PRE_U = """From IQ Require Import GroupedGroupers GroupedCheck GroupedUniverse GroupedTable GroupedUniverseCheck.
Open Scope Z_scope.
"""
RESUME_KEY = "C09:resume-strips-group-names"
HASH_KEY = "C09:table-read-id-hash"


def table_variant():
    """True = the checked-out code reads the split files without comment skipping (commit 614fc16): probed on the real classes with the recorded input"""
    import pysam
    from src import read_groups as RG
    d = tempfile.mkdtemp(prefix="iqv_c09v_")
    try:
        os.makedirs(os.path.join(d, "aux"))
        hdr = pysam.AlignmentHeader.from_dict({"HD": {"VN": "1.6"}, "SQ": [{"SN": "chrA", "LN": 10000}]})
        a = pysam.AlignedSegment(hdr); a.query_name = "#r"; a.flag = 0; a.reference_id = 0; a.reference_start = 100; a.cigartuples = [(0, 10)]; a.query_sequence = "ACGTACGTAC"; a.mapping_quality = 60
        bam = os.path.join(d, "r.bam")
        with pysam.AlignmentFile(bam, "wb", header=hdr) as out: out.write(a)
        t = os.path.join(d, "t.tsv"); open(t, "w").write("g1\t#r\n")
        sample = types.SimpleNamespace(file_list=[[bam]], read_group_file=os.path.join(d, "aux", "S.read_group")); args = types.SimpleNamespace(read_group="file:%s:1:0" % t)
        RG.prepare_read_groups(args, sample)
        return RG.create_read_grouper(args, sample, "chrA").get_group_id(a, bam) == "g1"
    except Exception:
        return True
    finally:
        shutil.rmtree(d, ignore_errors=True)


def universe_variant():
    """True = the checked-out code reads the group file back with only the line terminator removed (commit 40e2502): probed on the real resume branch"""
    d = tempfile.mkdtemp(prefix="iqv_c09v_")
    try:
        res = real_universe(dict(mode="tag:RG", files=["/d/a.bam"], chrs=[[("r1", " g1", 0)]], truth=[[" g1"]], resume=True, rnd=random.Random(0)), d)
        return " g1" in res["universe"]
    except Exception:
        return True
    finally:
        shutil.rmtree(d, ignore_errors=True)


def real_universe(case, workdir):
    """the REAL collect_reads_in_parallel (its collaborators AlignmentCollector, TmpFileAssignmentPrinter, Fasta, pysam.AlignmentFile and, on resume,
       BasicReadAssignmentLoader replaced by stubs; the stub collector asks the REAL grouper built by create_read_grouper for every generated alignment) once
       per chromosome - it writes <raw>_<chr>_groups - and, for a resume case, a second time with args.resume (it reads the file back); the union as
       collect_reads takes it; the info file through the real write_list / write_string and DatasetProcessor.load_read_info; a real counter built with the result"""
    import pickle
    from src import dataset_processor as D
    from src.serialization import write_int, write_list, write_string
    from src.long_read_counter import create_gene_counter
    from src.stats import EnumStats
    raw = os.path.join(workdir, "S.save")
    class Seg:
        def __init__(self, name, tag): self.query_name = name; self._tag = tag
        def get_tag(self, t):
            if self._tag is None: raise KeyError(t)
            return self._tag
    class Collector:
        def __init__(self, chr_id, bam_pairs, args, illumina, db, rec, grouper): self.chr_id = chr_id; self.grouper = grouper; self.alignment_stat_counter = EnumStats()
        def process(self):
            storage = []
            for k, (name, tag, fi) in enumerate(case["chrs"][int(self.chr_id[3:])]):
                g = self.grouper.get_group_id(Seg(name, tag), case["files"][fi])
                storage.append(types.SimpleNamespace(read_id=name, read_group=g))
            yield types.SimpleNamespace(), storage
    class Printer:
        def __init__(self, fname, args): open(fname, "wb").close()
        def add_gene_info(self, g): pass
        def add_read_info(self, r): pass
    class Loader:
        def __init__(self, fname): pass
        def has_next(self): return False
    saved = (D.AlignmentCollector, D.TmpFileAssignmentPrinter, D.Fasta, D.pysam, D.BasicReadAssignmentLoader)
    D.AlignmentCollector = Collector; D.TmpFileAssignmentPrinter = Printer; D.Fasta = lambda *a, **k: collections_defaultdict_str()
    D.pysam = types.SimpleNamespace(AlignmentFile=lambda *a, **k: types.SimpleNamespace(close=lambda: None)); D.BasicReadAssignmentLoader = Loader
    sample = types.SimpleNamespace(out_raw_file=raw, file_list=[[f] for f in case["files"]], illumina_bam=None, readable_names_dict=None, read_group_file=os.path.join(workdir, "S.read_group"))
    args = types.SimpleNamespace(reference="ref.fa", fai_file_name="ref.fa.fai", high_memory=False, resume=False, read_group=case["mode"], genedb=None,
                                 input_data=types.SimpleNamespace(samples=[sample]))
    files = []; returned = []; answers = []
    try:
        for ci in range(len(case["chrs"])):
            chr_id = "chr%d" % ci
            args.resume = False
            groups, _, reads = D.collect_reads_in_parallel(sample, chr_id, args)
            files.append([l.rstrip("\n") for l in open("%s_%s_groups" % (raw, chr_id))])
            if case["resume"]:
                args.resume = True
                groups, _, _ = D.collect_reads_in_parallel(sample, chr_id, args)
            returned.append(sorted(groups))
    finally:
        D.AlignmentCollector, D.TmpFileAssignmentPrinter, D.Fasta, D.pysam, D.BasicReadAssignmentLoader = saved
    all_groups = set()
    for r in returned: all_groups.update(r)                                  # collect_reads: all_read_groups.update(read_groups)
    order = list(all_groups); case["rnd"].shuffle(order)                    # list(set): some enumeration order
    with open(raw + "_info", "wb") as f:
        write_int(0, f); write_int(0, f); write_list(order, f, write_string)
    _, _, universe = D.DatasetProcessor.load_read_info(None, raw)
    c = create_gene_counter(os.path.join(workdir, "x.gene_grouped"), "unique_only", read_groups=universe)
    return dict(files=files, returned=returned, universe=sorted(universe), ordered=list(c.ordered_groups), ids=sorted(c.group_numeric_ids.items(), key=lambda p: p[1]))


class collections_defaultdict_str(dict):
    def __missing__(self, k): return "ACGT"


def universe_section(ctx, quick):
    from src import read_groups as RG
    rnd = ctx.rnd; cases = []
    values = ["", "NA", "g1", "cell-7", "A B", "zeta", "10", "9", "Beta", "alpha"]
    work = tempfile.mkdtemp(prefix="iqv_c09u_")
    def gen(resume, padded=False):
        mode = rnd.choice(["tag:RG", "tag:RG", "read_id:|", "file_name"])
        files = ["/d/lib%d.bam" % k for k in range(rnd.randint(1, 3))]
        nchr = rnd.randint(1, 4); pool = rnd.sample(values, rnd.randint(1, 5)) + (rnd.sample([" pad", "pad ", " both ", "tab\tin", "\tlead"], rnd.randint(1, 3)) if padded else [])
        chrs = []; truth = []
        for ci in range(nchr):
            sub = rnd.sample(pool, rnd.randint(0, len(pool))) if rnd.random() < .8 else []          # groups absent from a chromosome / a chromosome without reads
            als = []; ans = []
            for k in range(rnd.choice([0, 1, 3, 6]) if sub or rnd.random() < .5 else 0):
                g = rnd.choice(sub) if sub and rnd.random() < .85 else None
                fi = rnd.randrange(len(files)); name = "r%d_%d" % (ci, k)
                if mode.startswith("tag"): als.append((name, g, fi)); ans.append("NA" if g is None else g)
                elif mode.startswith("read_id"): als.append((name + ("|" + g if g is not None else ""), None, fi)); ans.append("NA" if g is None else g.split("|")[-1])
                else: als.append((name, None, fi)); ans.append("lib%d" % fi)
            chrs.append(als); truth.append(ans)
        if nchr > 1 and rnd.random() < .3 and mode.startswith("tag"):                                # a group that occurs only on the LAST chromosome
            chrs[-1].append(("only_last", "omega", 0)); truth[-1].append("omega")
        return dict(mode=mode, files=files, chrs=chrs, truth=truth, resume=resume, rnd=rnd)
    def run_case(case):
        d = tempfile.mkdtemp(dir=work)
        try: return real_universe(case, d)
        finally: shutil.rmtree(d, ignore_errors=True)
    try:
        for i in range(250 if quick else 2500):
            case = gen(resume=i % 3 == 0, padded=i % 2 == 0)
            if i == 0: case = dict(mode="tag:RG", files=["/d/a.bam"], chrs=[[("r1", " g1", 0), ("r2", "g2 ", 0)]], truth=[[" g1", "g2 "]], resume=True, rnd=rnd)   # corpus: the recorded input of C09:resume-strips-group-names
            rep = {k: case[k] for k in ("mode", "files", "chrs", "resume")}
            try: res = run_case(case)
            except Exception as e:
                ctx.violation(None, "the group universe cannot be built: %s (a read that cannot be grouped must be reported under NA rather than aborting the run)" % type(e).__name__, dict(rep, error=impl_error(e))); continue
            obs = "(%s, %s, %s, %s, %s)" % (clist(res["files"], lambda l: clist(l, cs)), clist(res["returned"], lambda l: clist(l, cs)), clist(res["universe"], cs), clist(res["ordered"], cs),
                                            clist(res["ids"], lambda p: "(%s, %s)" % (cs(p[0]), cz(p[1]))))
            cases.append(("(%s, %s, %s)" % (cbool(case["resume"]), clist(case["truth"], lambda l: clist(l, cs)), obs),
                          dict(rep, groups_of_the_processed_reads=case["truth"], group_files=res["files"], universe=res["universe"], ordered_groups=res["ordered"], group_numeric_ids=res["ids"])))
    finally:
        shutil.rmtree(work, ignore_errors=True)
    uv = universe_variant()
    ctx.notes.append("group universe: on --resume the checked-out code reads the group file back %s (model variant %s)" % (("removing only the line terminator", "universe") if uv else ("through str.strip() (before commit 40e2502)", "universe_unrepaired")))
    pre = PRE_U + "Definition check := %s.\nDefinition prop := prop_universe.\n" % ("check_universe" if uv else "check_universe_unrepaired")
    mism, viol = ctx.corr("group_universe", pre, cases, shard=60, ctype="ucase", nontrivial=lambda o: len(o["universe"]) > 1)
    padded_lost = lambda o: o["resume"] and any(g != g.strip() and g not in o["universe"] for ans in o["groups_of_the_processed_reads"] for g in ans)
    ctx.corr_report("group_universe", mism, viol, keyfn=lambda o: RESUME_KEY if padded_lost(o) else None, what="a group carried by a processed read is missing from the universe the counters are built with (group_numeric_ids would raise KeyError)")
    ctx.rule("group universe: the REAL collect_reads_in_parallel per chromosome (collector, save-file printer, Fasta and pysam stubbed; the stub collector asks the real grouper of "
             "create_read_grouper - tag / read_id / file_name - for every generated alignment): 1-4 chromosomes, chromosomes without reads, groups absent from a chromosome, untagged reads (NA), "
             "the empty group, a group that occurs only on the last chromosome; every third case also takes the real --resume branch that reads <raw>_<chr>_groups back; union as collect_reads; "
             "info file through the real write_list/write_string in a shuffled enumeration order and the real load_read_info; a real counter built with the result; compared with "
             "GroupedUniverse.v (check_universe) and with the specification: every group of a processed read is a key of group_numeric_ids whose position in ordered_groups holds that group, "
             "and no group is in the universe that no alignment was given (prop_universe); non-trivial = two or more groups")


def table_split_section(ctx, quick):
    """option parsing and the per-chromosome split files of --read_group file:..., on the real get_file_grouping_properties / prepare_read_groups"""
    import pysam
    from src import read_groups as RG
    rnd = ctx.rnd
    # ---- option strings
    cases = []
    for i in range(200 if quick else 2000):
        f = rnd.choice(["t.tsv", "/a/b.c/t", "t", ""]); x = rnd.random()
        num = lambda: rnd.choice(["0", "1", "2", "10", "03", "x", "", "1a"] if rnd.random() < .25 else ["0", "1", "2", "3"])
        if x < .2: opt = "file:" + f
        elif x < .3: opt = "file:%s:%s" % (f, num())
        elif x < .6: opt = "file:%s:%s:%s" % (f, num(), num())
        elif x < .9: opt = "file:%s:%s:%s:%s" % (f, num(), num(), rnd.choice([",", ";;", "|", "\t", " ", "ab"]))
        else: opt = "file:%s:%s:%s:%s:%s" % (f, num(), num(), rnd.choice([",", "|"]), rnd.choice(["x", ""]))
        try:
            r = RG.get_file_grouping_properties(opt.split(":")); impl = "(Some (%s, %d, %d, %s))" % (cs(r[0]), r[1], r[2], cs(r[3])) if r[1] >= 0 and r[2] >= 0 else None
        except ValueError: r = None; impl = "None"
        except Exception as e:
            ctx.violation(None, "get_file_grouping_properties raises %s" % type(e).__name__, {"option": opt, "error": impl_error(e)}); continue
        if impl is None: continue
        cases.append(("(%s, %s)" % (cs(opt), impl), {"option": opt, "impl": r}))
    pre = PRE_U + "Definition check := check_option.\nDefinition prop := check_option.\n"
    mism, viol = ctx.corr("table_option", pre, cases, ctype="str * option (str * Z * Z * str)", nontrivial=lambda o: o["impl"] is not None and (o["impl"][1], o["impl"][2], o["impl"][3]) != (0, 1, "\t"))
    ctx.corr_report("table_option", mism, viol, keyfn=lambda o: None, what="get_file_grouping_properties does not parse file:FILE[:READ_COL:GROUP_COL[:DELIM]] as documented")
    # ---- split files
    hdr = pysam.AlignmentHeader.from_dict({"HD": {"VN": "1.6", "SO": "coordinate"}, "SQ": [{"SN": "chrA", "LN": 10000}, {"SN": "chrB", "LN": 10000}, {"SN": "chrC", "LN": 10000}]})
    def seg(name, ref, pos):
        a = pysam.AlignedSegment(hdr); a.query_name = name; a.flag = 0; a.reference_id = ref; a.reference_start = pos; a.cigartuples = [(0, 10)]
        a.query_sequence = "ACGTACGTAC"; a.mapping_quality = 60
        return a
    cases = []; work = tempfile.mkdtemp(prefix="iqv_c09s_")
    try:
        for i in range(120 if quick else 1200):
            d = os.path.join(work, "t%d" % i); os.makedirs(os.path.join(d, "aux"))
            delim, rc, gc = rnd.choice([("\t", 0, 1), ("\t", 1, 0), ("\t", 2, 0), ("\t", 0, 2), (",", 0, 1), (",", 1, 0), (";;", 1, 2), ("|", 0, 1)])
            reads = list(dict.fromkeys(rname(rnd, ()) for _ in range(rnd.randint(2, 7))))
            if delim == "|": reads = [r.replace("|", "x") for r in reads]; reads = list(dict.fromkeys(reads))
            lines = []
            for r in reads + [rname(rnd, ()).replace("|", "x") for _ in range(2)]:
                x = rnd.random()
                if x < .2: continue                                               # no row
                cols = ["c%d" % j for j in range(max(rc, gc) + 1 + rnd.randint(0, 1))]
                cols[rc] = r; cols[gc] = rnd.choice(["g1", "g2", "NA", "zeta", "A B", "10"])
                lines.append(delim.join(cols))
                if x > .85: cols[gc] = "dup"; lines.append(delim.join(cols))       # a second row for the same read: the last one wins
            for _ in range(rnd.randint(0, 2)): lines.insert(rnd.randint(0, len(lines)), rnd.choice(["", "# comment", "lonely"]))
            tfile = os.path.join(d, "groups.tsv"); open(tfile, "w").write("".join(l + "\n" for l in lines))
            # two BAM files; a read may be aligned to several chromosomes and several times to one
            per_file = [[], []]
            for j, r in enumerate(reads):
                for ref in rnd.sample([0, 1, 2], rnd.choice([1, 1, 2, 3])):
                    for rep in range(rnd.choice([1, 1, 2])): per_file[rnd.randrange(2)].append((ref, 100 + rnd.randrange(50) * 10, r))
            bams = []
            for k in (0, 1):
                bam = os.path.join(d, "f%d.bam" % k); bams.append(bam)
                with pysam.AlignmentFile(bam, "wb", header=hdr) as out:
                    for ref, pos, r in sorted(per_file[k], key=lambda t: (t[0], t[1])): out.write(seg(r, ref, pos))
            sample = types.SimpleNamespace(file_list=[[b] for b in bams], read_group_file=os.path.join(d, "aux", "S.read_group"))
            opt = "file:%s:%d:%d" % (tfile, rc, gc) + ("" if delim == "\t" else ":" + delim)
            rep = {"option": opt.replace(tfile, "<table>"), "table_lines": lines, "alignments_per_bam(reference,position,read)": [sorted(p, key=lambda t: (t[0], t[1])) for p in per_file]}
            try: RG.prepare_read_groups(types.SimpleNamespace(read_group=opt), sample)
            except Exception as e:
                ctx.violation(None, "read-group table preparation raises %s" % type(e).__name__, dict(rep, error=impl_error(e))); continue
            chrs = []
            for ref, cname in enumerate(("chrA", "chrB", "chrC")):
                order = [r for k in (0, 1) for rf, pos, r in sorted(per_file[k], key=lambda t: (t[0], t[1])) if rf == ref]
                sf = sample.read_group_file + "_" + cname
                flines = [l.rstrip("\n") for l in open(sf)] if os.path.exists(sf) else []
                chrs.append((order, flines))
            rep["split_files"] = [c[1] for c in chrs]
            cases.append(("(%d, %d, %s, %s, %s)" % (rc, gc, cs(delim), clist(lines, cs), clist(chrs, lambda c: "(%s, %s)" % (clist(c[0], cs), clist(c[1], cs)))), rep))
            shutil.rmtree(d, ignore_errors=True)
    finally:
        shutil.rmtree(work, ignore_errors=True)
    pre = PRE_U + "Definition check := check_split.\nDefinition prop := prop_split.\n"
    mism, viol = ctx.corr("table_split_files", pre, cases, shard=30, ctype="scase", nontrivial=lambda o: sum(1 for f in o["split_files"] if f) > 1)
    ctx.corr_report("table_split_files", mism, viol, keyfn=lambda o: None, what="split_read_group_table: a read of a chromosome that has a row in the table is missing from / duplicated in / mislabelled in that chromosome's split file")
    ctx.rule("table grouper: get_file_grouping_properties on generated option strings (2-6 fields, non-numeric and empty column indices -> ValueError), and the real prepare_read_groups / "
             "split_read_group_table on generated tables (8 column layouts / delimiters, rows missing, duplicated rows, comments, malformed lines) with two BAM files whose reads are aligned to "
             "1-3 chromosomes and several times to one: the per-chromosome split files compared line by line with GroupedTable.v split_file (check_split) and with split_preserves_rows evaluated "
             "on the real files (prop_split); the answers of the real ReadTableGrouper behind them are the correspondence grouper_table; non-trivial = two or more non-empty split files")


def obs_g(res, fi, gi):
    return "(mkgobs %s %s %s %s %s %s)" % (clist(res["gstates"], lambda s: cistate(s, fi)), czs([gi(g) for g in (res["ghdr"] or [])]), crows(res["grows"], fi),
                                            clinear(res["glinear"], fi, gi), crows(res["gtpm"], fi), crows(res["urows"], fi))


def unit_grouped(ctx, quick):
    rnd = ctx.rnd
    n = 700 if quick else 5000
    combos = list(itertools.product(STRATS, ("gene", "transcript")))
    cases_py = []
    # every permutation of a three-group universe on the same events (this is how the hash seed becomes an explicit input)
    base = gen_case(rnd, "all", "transcript", grouped=True, nchr=1, flavour="assign", group_pool=["zeta", "alpha", "NA"])
    base["fmt"] = "both"
    while len(base["chrs"][0]["events"]) < 12: base = gen_case(rnd, "all", "transcript", grouped=True, nchr=1, flavour="assign", group_pool=["zeta", "alpha", "NA"]); base["fmt"] = "both"
    for perm in itertools.permutations(["zeta", "alpha", "NA"]):
        c = json.loads(json.dumps(base)); c["chrs"][0]["groups"] = list(perm)
        for e in c["chrs"][0]["events"]:
            if e["k"] == "read": e["matches"] = [tuple(m) for m in e["matches"]]
        cases_py.append(c)
    for i in range(n):
        s, lv = combos[i % len(combos)]
        cases_py.append(gen_case(rnd, s, lv, grouped=True))
    cases = []; work = tempfile.mkdtemp(prefix="iqv_c09g_")
    try:
        for case in cases_py:
            d = tempfile.mkdtemp(dir=work); fi, gi = interners(case)
            try:
                res = run_real(case, True, d)
            except Exception as e:
                ctx.violation(None, "grouped counter raises %s on well-formed input" % type(e).__name__, {"case": case, "error": impl_error(e)}); continue
            shutil.rmtree(d, ignore_errors=True)
            py = {"case": case, "header": res["ghdr"], "matrix": [(f, [str(x) for x in v]) for f, v in res["grows"]], "linear": [(f, g, str(v)) for f, g, v in res["glinear"]],
                  "ungrouped": [(f, [str(x) for x in v]) for f, v in res["urows"]]}
            if res["gunder"]: ctx.violation(None, "grouped table carries statistics lines", py)
            cases.append(("(%s, %s)" % (ccase(case, fi, gi), obs_g(res, fi, gi)), py))
    finally:
        shutil.rmtree(work, ignore_errors=True)
    pre = PRE + "Definition check := check_g.\nDefinition prop := prop_g.\n"
    mism, viol = ctx.corr("counter_grouped", pre, cases, shard=50, nontrivial=lambda o: any(Fraction(v) != 0 for _, _, v in o["linear"]) or any(any(Fraction(x) != 0 for x in v) for _, v in o["matrix"]))
    ctx.corr_report("counter_grouped", mism, viol, keyfn=lambda o: None, what="grouped tables of the real AssignedFeatureCounter: cells / partition of the ungrouped table / matrix-vs-linear triples")
    ctx.rule("grouped counters: a real grouped counter next to the ungrouped one behind one CompositeCounter (as ReadAssignmentAggregator builds them), per chromosome, the group "
             "collection passed as a list in an independent random order per chromosome (all 6 orders of a 3-group universe on one fixed event list first): universes of 1-5 groups "
             "incl. NA, groups absent from a chromosome, all strategies x both levels x {matrix, linear, both} x output_zeroes; merged with the real merge_counts, grouped TPM; "
             "%d random cases; internal floats exact, printed cells within 0.005; specification grouped_ok evaluated in Coq on the printed tables; non-trivial = a non-zero cell" % n)


def intergenic_world(seed, rnd, pool):
    """generated two-chromosome data set whose second chromosome is left out of the annotation; every read carries its ground-truth group for each of the four
       grouping modes: a '|group' read-id suffix (85%, 5% an empty suffix), a CB tag (85%), a row of the group table (85%), the BAM file it is written to"""
    import gen_data
    w = gen_data.World(seed, n_chr=2); w.reads_from_annotation(per_isoform=6); w.novel_reads()
    t = dict(read_id={}, tag={}, file={}, file_name={}, chr={})
    for i, r in enumerate(w.reads):
        x = rnd.random()
        n = r["name"] + ("|" + rnd.choice(pool) if x < .85 else ("" if x < .95 else "|")); r["name"] = n
        t["read_id"][n] = n.split("|")[-1] if "|" in n else "NA"
        tag = rnd.choice(pool) if rnd.random() < .85 else None
        r["tags"] = {"CB": tag} if tag is not None else {}
        t["tag"][n] = tag or "NA"
        t["file"][n] = rnd.choice(pool[:4]) if rnd.random() < .85 else None
        t["file_name"][n] = i % 2                # World.write(n_bams=2) puts read i into file i % 2
        t["chr"][n] = r["chr"]
    return w, t


def pipeline(ctx, quick):
    """whole runs with --read_group in its four modes: every cell of the grouped gene / transcript / transcript-model tables recomputed from the reported
       read assignments and the ground-truth read -> group map; matrix vs linear; partition of the ungrouped tables; hash seeds; threads; gene and transcript
       strategies that differ; reads outside annotated genes (unannotated chromosome, run without --genedb)"""
    import pipeline as P, pysam, traceback
    from props.c02 import run_jobs
    root = P.scratch("iqv_c09p_")
    try:
        data = os.path.join(root, "data"); b = P.bundled(data)
        rnd = ctx.rnd
        pool = ["zeta", "alpha", "mid", "Beta", "10", "9"]
        truth_tag = {}; truth_id = {}; truth_file = {}; truth_tbl = {}; newname = {}
        def fn(a, i):
            old = a.query_name
            if old not in newname:
                x = rnd.random()
                newname[old] = old + "|" + rnd.choice(pool) if x < .85 else (old if x < .95 else old + "|")
                n = newname[old]
                truth_id[n] = n.split("|")[-1] if "|" in n else "NA"
                truth_tag[n] = rnd.choice(pool) if rnd.random() < .85 else None
                truth_file[n] = rnd.randrange(2)
                if rnd.random() < .85: truth_tbl[n] = rnd.choice(pool[:4])
            n = newname[old]; a.query_name = n
            if truth_tag[n] is not None: a.set_tag("CB", truth_tag[n])
            return 0, a
        gbam = os.path.join(data, "g.bam"); rewrite_bam(b["bam"], [gbam], fn)
        fbams = [os.path.join(data, "f0.bam"), os.path.join(data, "second.lib.bam")]
        rewrite_bam(gbam, fbams, lambda a, i: (truth_file[a.query_name], a))
        tbl = os.path.join(data, "groups.tsv")
        with open(tbl, "w") as f:
            f.write("# read\tgroup\n")
            for n, g in truth_tbl.items(): f.write("%s\t%s\textra\n" % (n, g))
            f.write("not_a_read\tghost\n")
        labels = [os.path.splitext(os.path.basename(x))[0] for x in fbams]
        modes = {"file": (["--bam", gbam, "--read_group", "file:%s:0:1" % tbl], lambda n: truth_tbl.get(n, "NA")),
                 "tag": (["--bam", gbam, "--read_group", "tag:CB"], lambda n: truth_tag[n] or "NA"),
                 "read_id": (["--bam", gbam, "--read_group", "read_id:|"], lambda n: truth_id[n]),
                 "file_name": (["--bam"] + fbams + ["--read_group", "file_name"], lambda n: labels[truth_file[n]])}
        common = ["--reference", b["fasta"], "--genedb", b["gtf"], "--complete_genedb", "--data_type", "nanopore", "-p", "S"]
        # (mode, --counts_format, hash seed, threads, --transcript_quantification, --gene_quantification, twin): the two strategies differ, in both directions
        plan = [("file", "both", "0", 1, "all", "unique_only", "A"), ("file", "both", "1", 1, "all", "unique_only", "A"), ("tag", "linear", "2", 1, "with_ambiguous", "unique_only", None),
                ("tag", "matrix", "0", 1, "unique_only", "all", None), ("read_id", "both", "3", 2, "unique_inconsistent", "with_ambiguous", "B"), ("read_id", "both", "4", 2, "unique_inconsistent", "with_ambiguous", "B"),
                ("file_name", "both", "0", 1, "unique_splicing_consistent", "all", None)]
        if not quick:
            plan += [(m, f, str(hs), 3, tq, gq, None) for m in modes for f in ("matrix", "linear", "both") for hs, tq, gq in ((5, "all", "unique_splicing_consistent"), (6, "with_ambiguous", "with_ambiguous"), (7, "unique_only", "unique_inconsistent"))]
        jobs = []
        for i, (mode, fmt, hs, thr, tq, gq, twin) in enumerate(plan):
            jobs.append(dict(name="bundled/%s/%s/seed%s/threads%d/tq=%s/gq=%s" % (mode, fmt, hs, thr, tq, gq), mode=mode, fmt=fmt, hashseed=hs, tq=tq, gq=gq, twin=twin and "b" + twin, gtf=b["gtf"], group_of=modes[mode][1],
                             out=os.path.join(root, "r%d" % i), args=modes[mode][0] + common + ["--counts_format", fmt, "--threads", str(thr), "--transcript_quantification", tq, "--gene_quantification", gq]))
        # generated two-chromosome data, RG tags, three worker processes, two hash seeds
        wd = os.path.join(root, "w"); w = world_with_multilocus(7, n_multi=0)
        for r in w.reads:
            if rnd.random() < .15: r["tags"] = {}
            elif r["chr"] == "chrB" and r["tags"].get("RG") == "zeta": r["tags"]["RG"] = "alpha"     # group zeta absent from chrB
            elif r["chr"] == "chrB" and rnd.random() < .3: r["tags"]["RG"] = "omega"                   # group omega only on chrB, the LAST chromosome processed
        wtruth = {r["name"]: r["tags"].get("RG", "NA") for r in w.reads}
        wpaths = write_world(w, wd)
        for hs in ("1", "2"):
            jobs.append(dict(name="synthetic7/tag/both/seed%s/threads3/tq=all/gq=unique_only" % hs, mode="tag", fmt="both", hashseed=hs, tq="all", gq="unique_only", twin="w", gtf=os.path.join(wd, "annotation.gtf"), group_of=lambda n: wtruth[n],
                             out=os.path.join(root, "w%s" % hs), args=["--bam", wpaths[0], "--read_group", "tag:RG", "--reference", os.path.join(wd, "genome.fa"), "--genedb", os.path.join(wd, "annotation.gtf"),
                                                                       "--complete_genedb", "--data_type", "nanopore", "-p", "S", "--counts_format", "both", "--threads", "3",
                                                                       "--transcript_quantification", "all", "--gene_quantification", "unique_only"]))
        # reads outside annotated genes, for every grouping mode: chrB is missing from the annotation / no annotation at all
        iseeds = [11] + ([] if quick else [500 + ctx.seed, 600 + ctx.seed])
        for ii, iseed in enumerate(iseeds):
            idir = os.path.join(root, "i%d" % ii); iw, it = intergenic_world(iseed, rnd, pool); ipaths = iw.write(idir, n_bams=2)
            merged = os.path.join(idir, "all.bam"); pysam.merge("-f", merged, *ipaths); pysam.index(merged)
            pgtf = os.path.join(idir, "annotation_chrA_only.gtf")
            with open(pgtf, "w") as f: f.writelines(l for l in open(os.path.join(idir, "annotation.gtf")) if l.split("\t")[0] == "chrA")
            itbl = os.path.join(idir, "groups.tsv")
            with open(itbl, "w") as f: f.writelines("%s\t%s\n" % (n, g) for n, g in it["file"].items() if g is not None)
            ilabels = [os.path.splitext(os.path.basename(x))[0] for x in ipaths]
            def truth_of(mode, it=it, ilabels=ilabels):
                if mode == "file": return lambda n: it["file"][n] or "NA"
                if mode == "file_name": return lambda n: ilabels[it["file_name"][n]]
                if mode == "file_name(one file)": return lambda n: "all"
                return lambda n: it[mode][n]
            imodes = {"file": ["--bam", merged, "--read_group", "file:%s" % itbl], "tag": ["--bam", merged, "--read_group", "tag:CB"],
                      "read_id": ["--bam", merged, "--read_group", "read_id:|"], "file_name": ["--bam"] + ipaths + ["--read_group", "file_name"],
                      "file_name(one file)": ["--bam", merged, "--read_group", "file_name"]}      # two files switch on the technical-replica filter of model construction, one file does not
            for mi, mode in enumerate(imodes):
                tq, gq = (("with_ambiguous", "unique_only"), ("unique_only", "all"))[mi % 2]
                base = imodes[mode] + ["--reference", os.path.join(idir, "genome.fa"), "--data_type", "nanopore", "-p", "S", "--counts_format", "both", "--threads", "2",
                                       "--transcript_quantification", tq, "--gene_quantification", gq]
                for kind, extra, gtf in (("chrB-not-annotated", ["--genedb", pgtf, "--complete_genedb"], pgtf), ("no-annotation", [], None)):
                    jobs.append(dict(name="synthetic%d/%s/%s/tq=%s/gq=%s" % (iseed, kind, mode, tq, gq), mode=mode, fmt="both", hashseed=str(mi), tq=tq, gq=gq, twin=None, gtf=gtf, group_of=truth_of(mode),
                                     intergenic=it["chr"], guard=(iseed == 11), out=os.path.join(root, "i%d_%d_%s" % (ii, mi, kind)), args=base + extra))
        run_jobs(jobs)
        ctx.cov["pipeline_runs"] += len(jobs)
        cases = []; gtf_cache = {}; twins = {}; outside = 0
        for j in jobs:
            rep = {"run": j["name"], "args": [a.replace(root, "<scratch>") for a in j["args"]], "PYTHONHASHSEED": j["hashseed"]}
            if j["rc"] != 0:
                key = None
                ctx.violation(key, "IsoQuant run with --read_group failed (exit %d): a read that cannot be grouped must be reported under NA" % j["rc"], dict(rep, log=j["log"][-1200:])); continue
            try:
                if j["gtf"] is not None and j["gtf"] not in gtf_cache: gtf_cache[j["gtf"]] = P.read_gtf(j["gtf"])
                ref_tr, ref_genes = gtf_cache[j["gtf"]] if j["gtf"] is not None else ({}, {})
                recs = parse_records(j["out"], "S", ref_tr) if j["gtf"] is not None else None
                model_tr, _ = P.read_gtf(os.path.join(j["out"], "S", "S.transcript_models.gtf"))
                if "intergenic" in j:
                    # the point of these runs: reads on the unannotated chromosome that are counted in the grouped transcript-model table
                    rep["reads_outside_annotated_genes_counted_in_models"] = n_out = sum(1 for e in model_events(j["out"], "S", model_tr, None) if e["k"] == "raw" and any(model_tr[t]["chr"] == "chrB" for t in e["feats"] if t in model_tr))
                    outside += n_out
                    if n_out == 0 and j["guard"]: ctx.broken("pipeline:no-read-outside-annotated-genes", "run %s: no read on the unannotated chromosome reached the transcript-model tables, the run tests nothing" % j["name"])
                cs, snapshot = grouped_cases(ctx, j, rep, recs, ref_tr, ref_genes, model_tr)
            except Exception:
                ctx.violation(None, "the output files of a finished --read_group run are missing or cannot be parsed", dict(rep, error=traceback.format_exc()[-1500:],
                              files=sorted(os.listdir(os.path.join(j["out"], "S"))) if os.path.isdir(os.path.join(j["out"], "S")) else None)); continue
            cases += cs
            if j["twin"]:
                if j["twin"] in twins and twins[j["twin"]][1] != snapshot:
                    ctx.violation(None, "grouped tables differ between two runs that differ only in PYTHONHASHSEED", {"runs": [twins[j["twin"]][0], rep]})
                twins.setdefault(j["twin"], (rep, snapshot))
        pre = PRE + "Definition check := check_g_files.\nDefinition prop := prop_g.\n"
        mism, viol = ctx.corr("pipeline_grouped_tables", pre, cases, shard=2, nontrivial=lambda o: len(o["header"] or []) > 1 or len(set(g for _, g, _ in o["linear"])) > 1, timeout=900)
        ctx.corr_report("pipeline_grouped_tables", mism, viol, keyfn=lambda o: None, what="a grouped table of a whole run: a read counted under the wrong group / groups do not add up to the ungrouped table / matrix and linear disagree")
        ctx.rule("pipeline: the bundled chr9 alignments rewritten with pysam (CB tags on 85%% of the reads, '|group' read-id suffixes on 85%%, an empty suffix on 5%%, two files) and a group table "
                 "(15%% of the reads missing, an extra column, a comment, a row for an unknown read), run with --read_group file:/tag:/read_id:/file_name x --counts_format "
                 "matrix/linear/both x PYTHONHASHSEED 0-4 x threads 1-2, --transcript_quantification and --gene_quantification DIFFERENT in every run (both directions: all/unique_only, "
                 "with_ambiguous/unique_only, unique_only/all, unique_inconsistent/with_ambiguous, unique_splicing_consistent/all), plus a generated two-chromosome data set (RG tags, a group absent from one "
                 "chromosome, 15%% untagged, threads 3, two hash seeds), plus reads OUTSIDE annotated genes for every grouping mode: a generated data set whose second chromosome is missing from the "
                 "annotation and the same data without --genedb, each under file: / tag: / read_id: / file_name (two BAM files) / file_name (one BAM file) (%d reads on the unannotated chromosome counted in transcript-model tables); "
                 "every cell of the grouped gene/transcript/transcript-model tables, matrix and linear, is recomputed inside Coq from the reported assignments, transcript_model_reads.tsv and the "
                 "generator's ground-truth read->group map, each table under the strategy given for it (grouped_ok: cell = documented weight of the reads of that group, groups sum to the ungrouped "
                 "table, matrix = linear); twin runs differing only in the hash seed must give identical grouped tables" % outside)
        ctx.notes.append("pipeline level: cells, partition sums and matrix/linear triples are evaluated inside Coq (grouped_ok); only the twin-run comparison across hash seeds is plain Python equality of parsed tables")
    finally:
        shutil.rmtree(root, ignore_errors=True)


def run(ctx):
    quick = ctx.tier == "quick"
    ctx.prepare("C09.v")
    from props.c02 import check_enums
    section(ctx, "enums", check_enums, ctx)            # a changed enumeration is reported as broken; the sections below still run on the members the model knows
    section(ctx, "groupers", groupers, ctx, quick)
    section(ctx, "universe", universe_section, ctx, quick)
    section(ctx, "table_split", table_split_section, ctx, quick)
    section(ctx, "unit_grouped", unit_grouped, ctx, quick)
    section(ctx, "pipeline", pipeline, ctx, quick)
    ctx.assume.append("float -> rational reconstruction of internal counter values (Fraction.limit_denominator(30000), accepted only within 1e-9): float summation error is outside the model")
    ctx.assume.append("group and feature names are interned order-preservingly; tag values are strings (an integer-valued tag is outside the documented use); ASCII names; non-empty delimiters")
    ctx.assume.append("pysam: AlignedSegment.get_tag/query_name, AlignmentFile iteration")
