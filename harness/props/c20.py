"""C20 - concurrent runs under one HOME do not interfere; the per-user cache is never observed half-written and never
makes a run use a foreign conversion.

Coq side (coq/Cache.v, coq/CacheProofs.v, props/C20.v): the interleaving model of the read-modify-write cycles on
$HOME/.config/IsoQuant/*.json for n processes and every schedule, for the in-place protocol (open(path,'w') + json.dump:
refuted by three witnesses) and the atomic one (dump aside + os.replace: proved), the cache-hit predicates field by field.

Implementation side:
  hit predicates   find_converted_db / compare_stored_gtf / the db2gtf loop of convert_db / find_stored_* on real files with set mtimes
  schedule replay  harness/c20_wrapper.py runs the real set_configs_directory + convert_gtf_to_db (and read_mapper's find_stored_* /
                   store_*) in separate processes whose operations on the shared cache file are synchronisation points; the driver
                   below releases them in the order of a model schedule; exit status, returned database, final cache content and the
                   sequence of events are compared with the model's prediction inside Coq
  free running     simultaneous real isoquant.py runs under one HOME (bundled data, separate output folders) against stand-alone runs"""
import itertools, os, sys, json, shutil, subprocess, tempfile, time, collections, threading
from concurrent.futures import ThreadPoolExecutor
from lib import *
import pipeline as P

WRAPPER = os.path.join(VERIF, "harness", "c20_wrapper.py")
KEY_INPLACE = "C20:cache-rewritten-in-place"
KEY_DBPATH = "C20:db2gtf-hit-ignores-db-path"
KEY_REFIDX = "C20:shared-reference-index"

# model programs, mirrored from coq/Cache.v (the mirror only decides which steps are silent in the real process; the event trace of
# every replay is compared with the model's trace inside Coq, so a wrong mirror shows up as a mismatch)
EVENT = dict(DMake="makedirs", DCheck="isdir", DCreate="makedirs", OExists="exists", OInitTrunc="trunc", OInitDump="dump", OInitReplace="replace", ORead="read", OLookup="lookup", OConvert="convert",
             OModify=None, OTrunc="trunc", ODump="dump", OReplace="replace")
CODE = dict(exists=1, trunc=2, dump=3, replace=4, read=5, lookup=6, convert=7, isdir=9, makedirs=10)
def prog_init(atomic): return ["OExists", "OInitReplace"] if atomic else ["OExists", "OInitTrunc", "OInitDump"]
def prog_write(atomic): return ["OReplace"] if atomic else ["OTrunc", "ODump"]
def prog_convert_db(atomic, clean): return ["ORead"] + ([] if clean else ["OLookup"]) + ["OConvert", "OModify"] + prog_write(atomic)
def prog_run(atomic, clean): return prog_init(atomic) + prog_convert_db(atomic, clean)
def prog_stored(atomic): return ["ORead", "OLookup", "OConvert", "ORead", "OModify"] + prog_write(atomic)
EXC = dict(JSONDecodeError=1, FileNotFoundError=2, TypeError=3, FileExistsError=6)


# ------------------------------------------------------------------------------------------------ test annotations
def write_gtf(path, a, gz=False):
    """annotation number a: one gene G<a> with a complete transcript and one transcript without its transcript line, so that a database
       built with inference (no --complete_genedb) contains the record T<a>b and one built without does not"""
    s, g = 1000 * a, "G%d" % a
    lines = [("gene", s + 1, s + 900, 'gene_id "%s";' % g),
             ("transcript", s + 1, s + 900, 'gene_id "%s"; transcript_id "T%da";' % (g, a)),
             ("exon", s + 1, s + 300, 'gene_id "%s"; transcript_id "T%da";' % (g, a)),
             ("exon", s + 600, s + 900, 'gene_id "%s"; transcript_id "T%da";' % (g, a)),
             ("exon", s + 1, s + 200, 'gene_id "%s"; transcript_id "T%db";' % (g, a)),
             ("exon", s + 700, s + 900, 'gene_id "%s"; transcript_id "T%db";' % (g, a))]
    text = "".join("chr1\tverif\t%s\t%d\t%d\t.\t+\t.\t%s\n" % l for l in lines)
    with open(path, "w") as f: f.write(text)

def db_content(path):
    """(annotation number, built without inference) read back from a database file; None if it is not a readable database"""
    import gffutils
    try:
        db = gffutils.FeatureDB(path)
        genes = [f.id for f in db.features_of_type("gene")]
        tr = [f.id for f in db.features_of_type("transcript")]
    except Exception:
        return None
    if len(genes) != 1 or not genes[0].startswith("G"): return None
    a = int(genes[0][1:])
    return (a, ("T%db" % a) not in tr)


# ------------------------------------------------------------------------------------------------ the driver
class RProc:
    def __init__(self, idx, spec, prog, home, workdir):
        self.idx, self.spec, self.prog = idx, spec, prog
        self.ptr = 0; self.finished = False; self.exit = None; self.blocked = None; self.len = None
        sp = os.path.join(workdir, "spec_%d.json" % idx); json.dump(spec, open(sp, "w"))
        r1, w1 = os.pipe(); r2, w2 = os.pipe()          # driver -> process, process -> driver
        env = dict(os.environ); env.update(HOME=home, VERIF_REPO=REPO, PYTHONPATH=REPO, ABLAB_ISOQUANT_VERIF="1", PYTHONDONTWRITEBYTECODE="1", PYTHONWARNINGS="ignore")
        self.p = subprocess.Popen([PY, WRAPPER, sp, str(r1), str(w2)], pass_fds=(r1, w2), env=env, stdout=subprocess.DEVNULL, stderr=subprocess.PIPE, cwd=workdir)
        os.close(r1); os.close(w2)
        self.to = os.fdopen(w1, "w"); self.frm = os.fdopen(r2, "r")
    def wait_msg(self):
        line = self.frm.readline()
        if not line:
            self.p.wait(); err = self.p.stderr.read().decode(errors="replace")[-600:]
            msg = dict(exit="died", code=self.p.returncode, stderr=err)
        else:
            msg = json.loads(line)
        if "exit" in msg:
            self.finished = True; self.exit = msg; self.blocked = None
            try: self.p.wait(timeout=20)
            except Exception: self.p.kill()
        else:
            self.blocked = msg["at"]
            if "len" in msg: self.len = msg["len"]
        return msg
    def go(self):
        self.to.write("go\n"); self.to.flush()
    def close(self):
        try:
            if self.p.poll() is None: self.p.kill()
            self.p.wait(timeout=10)
        except Exception: pass
        for f in (self.to, self.frm, self.p.stderr):
            try: f.close()
            except Exception: pass


class Mismatch(Exception):
    pass


def drive(procs, sched):
    """release the processes in the order of the model schedule; returns (effective schedule, trace of (proc, event code))"""
    trace = []; eff = []
    def advance(i):
        p = procs[i]
        eff.append(i)
        if p.finished or p.ptr >= len(p.prog): return
        op = p.prog[p.ptr]; ev = EVENT[op]
        if ev is None or (p.blocked != ev and op in ("OInitTrunc", "OInitDump", "OInitReplace", "OLookup", "DCreate")):
            p.ptr += 1; return                                    # silent in the real process
        if p.blocked != ev:
            raise Mismatch("process %d is blocked at '%s' where the model program has %s" % (i, p.blocked, op))
        if ev != "lookup": trace.append((i, CODE[ev]))
        p.go(); p.ptr += 1; p.wait_msg()
    for p in procs: p.wait_msg()
    for i in sched: advance(i)
    for i, p in enumerate(procs):                                 # completion: one process after the other
        guard = 0
        while not p.finished and guard < 40: advance(i); guard += 1
        if not p.finished: raise Mismatch("process %d does not finish" % i)
    return eff, trace


# ------------------------------------------------------------------------------------------------ scenarios
# A scenario is abstract: paths are small integers (1..9 annotations, 11..19 the processes' own databases, 21..29 databases left by
# earlier runs), mtimes exist only as "equal to the file's current mtime or not".  `materialise` builds the real files.
#   scn = dict(atomic=(init writes atomically, store site writes atomically), file0=None | "partial" | [entry...], gtfs={gid: annotation number}, olddbs={did: (annotation number, complete)},
#              procs=[dict(kind="run"|"index"|"bed"|"alignment", g=gid, out=oid, complete=bool, clean=bool, init=bool)])
#   entry = dict(key=gid, db=did|oid|None, gm=True|False|None, dm=True|False|None, complete=True|False|None)   (None = field missing)
_DB_POOL = {}
_POOL_LOCK = threading.Lock()

class quiet:
    """silence the warnings / progress output the conversion writes to stderr"""
    def __enter__(self):
        sys.stderr.flush(); self.saved = os.dup(2); self.null = os.open(os.devnull, os.O_WRONLY); os.dup2(self.null, 2)
    def __exit__(self, *a):
        sys.stderr.flush(); os.dup2(self.saved, 2); os.close(self.saved); os.close(self.null)

def pool_db(root_pool, a, complete):
    """a database of annotation a built by the real gtf2db (once per check run; copies are handed out)"""
    with _POOL_LOCK:
        if (a, complete) not in _DB_POOL:
            from src import gtf2db
            g = os.path.join(root_pool, "g%d.gtf" % a); write_gtf(g, a)
            d = os.path.join(root_pool, "g%d_%d.db" % (a, int(complete)))
            with quiet(): gtf2db.gtf2db(g, d, complete, True)
            _DB_POOL[(a, complete)] = d
        return _DB_POOL[(a, complete)]


def materialise(scn, root, pool):
    paths = {}
    os.makedirs(os.path.join(root, "in")); os.makedirs(os.path.join(root, "old")); home = os.path.join(root, "home")
    cfg = os.path.join(home, ".config", "IsoQuant"); os.makedirs(cfg)
    cache_name = {"run": "db_config.json", "index": "index_config.json", "bed": "bed_config.json", "alignment": "alignment_config.json"}[scn["procs"][0]["kind"]]
    cache = os.path.join(cfg, cache_name)
    for gid, a in scn["gtfs"].items():
        paths[gid] = os.path.join(root, "in", "g%d.gtf" % gid); write_gtf(paths[gid], a)
    for did, (a, c) in scn.get("olddbs", {}).items():
        paths[did] = os.path.join(root, "old", "db%d.db" % did); shutil.copy(pool_db(pool, a, c), paths[did])
    for i, p in enumerate(scn["procs"]):
        od = os.path.join(root, "out%d" % i); os.makedirs(od)
        paths[p["out"]] = os.path.join(od, "g%d.db" % p["g"])
    if isinstance(scn["file0"], list):
        for e in scn["file0"]:
            if e["db"] is not None and e["db"] not in paths: paths[e["db"]] = os.path.join(root, "old", "db%d.db" % e["db"])      # named by the cache, gone from the disk
    if scn["file0"] == "partial":
        open(cache, "w").close()
    elif scn["file0"] is not None:
        d = {}
        for e in scn["file0"]:
            key = paths[e["key"]]
            if scn["procs"][0]["kind"] == "alignment": key = "%s_aligned_to_%s" % (key, paths[min(scn["gtfs"])])    # see job_stored: index = first annotation
            d[key] = real_entry(scn["procs"][0]["kind"], e, paths)
        json.dump(d, open(cache, "w"))
    return paths, home, cache


FIELDS = dict(run=("genedb", "gtf_mtime", "db_mtime", "complete_db"), index=("index_filename", "reference_mtime", "index_mtime", "kmer_size"),
              bed=("bed_filename", "reference_mtime", "bed_mtime", None), alignment=("alignment_fpath", "fastq_mtime", "bam_mtime", None))

def real_entry(kind, e, paths):
    f = FIELDS[kind]; out = {}
    if e["db"] is not None: out[f[0]] = paths[e["db"]]
    if e["gm"] is not None: out[f[1]] = os.path.getmtime(paths[e["key"]]) - (0 if e["gm"] else 5.0)
    if e["dm"] is not None: out[f[2]] = (os.path.getmtime(paths[e["db"]]) if e["db"] is not None and os.path.exists(paths[e["db"]]) else 1.0) - (0 if e["dm"] else 5.0)
    if f[3] is not None and e["complete"] is not None:
        out[f[3]] = e["complete"] if kind == "run" else ("14" if e["complete"] else "15")
    if kind == "alignment":
        idx = paths[min(k for k in paths if k < 10)]
        out["index_mtime"] = os.path.getmtime(idx); out["ann_mtime"] = ""
    return out


def abstract_file(kind, cache, paths):
    """the final cache file as the model's abs_file sees it: None = absent, "partial" = unparseable, else ordered list of entries"""
    if not os.path.exists(cache): return None
    try:
        d = json.load(open(cache))
    except ValueError:
        return "partial"
    inv = {v: k for k, v in paths.items()}
    f = FIELDS[kind]; out = []
    for key, v in d.items():
        k0 = key.split("_aligned_to_")[0] if kind == "alignment" else key
        kid = inv.get(k0, -1)
        dbp = v.get(f[0]); did = None if dbp is None else inv.get(dbp, -2)
        gm = os.path.exists(k0) and os.path.getmtime(k0) == v.get(f[1])
        dm = dbp is not None and os.path.exists(dbp) and os.path.getmtime(dbp) == v.get(f[2])
        if f[3] is None: c = True
        else:
            c = v.get(f[3])
            if kind == "index" and c is not None: c = {"14": True, "15": False}.get(c, c)
        out.append((kid, did, bool(gm), bool(dm), c))
    return out


def spec_of(scn, p, paths, cache, idx):
    if p["kind"] == "run":
        return dict(kind="run", cache=cache, gtf=paths[p["g"]], out=paths[p["out"]], complete=p["complete"], clean=p.get("clean", False), init=p.get("init", True))
    return dict(kind="stored", which=p["kind"], cache=cache, gtf=paths[p["g"]], out=paths[p["out"]], index=paths[min(scn["gtfs"])],
                data_type="nanopore" if p["complete"] else "pacbio_ccs", annotation=None)

def prog_of(scn, p):
    ai, aw = scn["atomic"]                                    # (set_configs_directory writes atomically, the store site of this cache writes atomically)
    if p["kind"] == "run":
        return (prog_init(ai) if p.get("init", True) else []) + prog_convert_db(aw, p.get("clean", False))
    return prog_stored(aw)


def _replay_scenario(scn, sched, pool):
    """one replay of `sched` on real processes; returns the observation dict"""
    root = tempfile.mkdtemp(prefix="iqv_c20r_")
    procs = []
    try:
        paths, home, cache = materialise(scn, root, pool)
        kind = scn["procs"][0]["kind"]
        for i, p in enumerate(scn["procs"]):
            procs.append(RProc(i, spec_of(scn, p, paths, cache, i), prog_of(scn, p), home, root))
        try:
            eff, trace = drive(procs, sched)
            err = None
        except Mismatch as e:
            eff, trace, err = list(sched), [], str(e)
        inv = {v: k for k, v in paths.items()}
        status = []; contents = []
        for p in procs:
            x = p.exit or {}
            if x.get("exit") == "done":
                rid = inv.get(os.path.abspath(x["result"]), -2); status.append((1, rid))
                contents.append(db_content(x["result"]) if kind == "run" else None)
            elif x.get("exit") == "crashed":
                status.append((2, EXC.get(x["exc"], 99))); contents.append(None)
            elif x.get("exit") == "sysexit":
                status.append((2, 90)); contents.append(None)
            else:
                status.append((2, 98)); contents.append(None)
        return dict(scn=scn, sched=list(sched), eff=eff, trace=trace, status=status, lens=[p.len if p.len is not None else 0 for p in procs],
                    file=abstract_file(kind, cache, paths), contents=contents, protocol_error=err,
                    exits=[{k: v for k, v in (p.exit or {}).items() if k != "tb"} for p in procs])
    finally:
        for p in procs: p.close()
        shutil.rmtree(root, ignore_errors=True)


# ------------------------------------------------------------------------------------------------ Coq terms
def cprog(scn, p):
    ai, aw = cbool(scn["atomic"][0]), cbool(scn["atomic"][1])
    if p["kind"] == "run":
        conv = "prog_convert_db %s %s" % (aw, cbool(p.get("clean", False)))
        return "(prog_init %s ++ %s)" % (ai, conv) if p.get("init", True) else "(%s)" % conv
    return "(prog_stored %s)" % aw

def centry(e, scn):
    gm = "None" if e["gm"] is None else "(Some %d)" % (e["key"] if e["gm"] else 0)
    exists = e["db"] is not None and (e["db"] in scn.get("olddbs", {}))
    dm = "None" if e["dm"] is None else "(Some %d)" % (e["db"] if (e["dm"] and exists) else 0)
    return "(%d, mkentry %s %s %s %s)" % (e["key"], copt(e["db"], cz), gm, dm, copt(e["complete"], cbool))

def cfstat(pid, content): return "(%d, mkstat %d %s)" % (pid, pid, content)

def replay_term(o):
    scn = o["scn"]
    if scn["file0"] is None: f0 = "Absent"
    elif scn["file0"] == "partial": f0 = "(Data None 0)"
    else: f0 = "(Data (Some %s) 2)" % clist(scn["file0"], lambda e: centry(e, scn))
    fsl = [cfstat(g, "(Gtf %d)" % a) for g, a in sorted(scn["gtfs"].items())] + [cfstat(d, "(Db %d %s)" % (a, cbool(c))) for d, (a, c) in sorted(scn.get("olddbs", {}).items())]
    procs = ["(mkp %d %d %s %d %s)" % (p["g"], p["out"], cbool(p["complete"]), l, cprog(scn, p)) for p, l in zip(scn["procs"], o["lens"])]
    if o["file"] is None: of = "None"
    elif o["file"] == "partial": of = "(Some None)"
    else: of = "(Some (Some %s))" % clist(o["file"], lambda e: "(%s, (%s, %s, %s, %s))" % (cz(e[0]), copt(e[1], cz), cbool(e[2]), cbool(e[3]), copt(e[4], cbool)))
    return "(mkrcase %s %s 100 %s %s %s %s %s %s %s)" % (
        f0, clist(fsl), clist(procs), clist(o["eff"], cnat), clist(o["status"], lambda s: "(%s, %s)" % (cz(s[0]), cz(s[1]))), of,
        clist(o["trace"], lambda t: "(%s, %s)" % (cnat(t[0]), cz(t[1]))), clist(o["contents"], lambda c: copt(c, lambda x: "(%s, %s)" % (cz(x[0]), cbool(x[1])))),
        cbool(scn["procs"][0]["kind"] == "run"))

PRE_REPLAY = "From IQ Require Import Cache CacheCorr.\nOpen Scope Z_scope.\nDefinition check := replay_check.\nDefinition prop := replay_prop.\n"


# ------------------------------------------------------------------------------------------------ which protocol does the code follow
def free_events(scn, pool):
    """run the first process of a scenario alone, free-running, and list what it does to the cache file"""
    root = tempfile.mkdtemp(prefix="iqv_c20v_")
    try:
        paths, home, cache = materialise(scn, root, pool)
        spec = spec_of(scn, scn["procs"][0], paths, cache, 0); spec["free"] = True
        p = RProc(0, spec, [], home, root)
        events = []
        try:
            while not p.finished:
                m = p.wait_msg()
                if "at" in m: events.append(m["at"])
        finally:
            p.close()
        return events, (p.exit or {}).get("exit") == "done", p.exit
    finally:
        shutil.rmtree(root, ignore_errors=True)

WRITE = {("trunc", "dump"): False, ("replace",): True}

def detect_variants(pool):
    """which write protocol each site follows: {"init", "run", "index", "bed", "alignment"} -> True (dump aside + os.replace) / False (open 'w' + dump) / None (neither)"""
    V = {}; seen = {}
    ev, ok, ex = free_events(dict(atomic=(True, True), file0=None, gtfs={1: 100}, procs=[dict(kind="run", g=1, out=11, complete=True)]), pool)
    seen["run"] = ev + ([] if ok else [str(ex)])
    V["init"] = V["run"] = None
    if ok and ev[:1] == ["exists"] and "read" in ev:
        k = ev.index("read")
        V["init"] = WRITE.get(tuple(ev[1:k])); 
        if ev[k:k + 3] == ["read", "lookup", "convert"]: V["run"] = WRITE.get(tuple(ev[k + 3:]))
    for kind in ("index", "bed", "alignment"):
        ev, ok, ex = free_events(dict(atomic=(True, True), file0=[], gtfs={1: 100}, procs=[dict(kind=kind, g=1, out=11, complete=True)]), pool)
        seen[kind] = ev + ([] if ok else [str(ex)])
        V[kind] = WRITE.get(tuple(ev[3:])) if ok and ev[:3] == ["read", "convert", "read"] else None
    return V, seen


# ------------------------------------------------------------------------------------------------ schedules
def interleavings(counts):
    """all complete interleavings of len(counts) processes with counts[i] steps each"""
    total = sum(counts)
    def rec(rem, acc):
        if len(acc) == total: yield list(acc); return
        for i, r in enumerate(rem):
            if r:
                rem[i] -= 1; acc.append(i)
                yield from rec(rem, acc)
                acc.pop(); rem[i] += 1
    yield from rec(list(counts), [])

def expand(block_sched, blocks):
    """a schedule over blocks of consecutive steps -> a schedule over steps"""
    nxt = [0] * len(blocks); out = []
    for i in block_sched:
        out += [i] * blocks[i][nxt[i]]; nxt[i] += 1
    return out

def blocks_of(prog):
    """group a program into the blocks between two operations on the shared file: [init], [read (+lookup)], [convert, modify], [write...]"""
    out = []; cur = 0
    for k, op in enumerate(prog):
        cur += 1
        nxt = prog[k + 1] if k + 1 < len(prog) else None
        if nxt is None or nxt in ("ORead", "OConvert", "OTrunc", "ODump", "OReplace", "OInitTrunc", "OInitDump", "OInitReplace"):
            out.append(cur); cur = 0
    return out


# ------------------------------------------------------------------------------------------------ scenario families
def E(key, db, gm=True, dm=True, complete=True): return dict(key=key, db=db, gm=gm, dm=dm, complete=complete)
def R(g, out, complete=True, **k): return dict(kind="run", g=g, out=out, complete=complete, **k)

def run_scenarios(V):
    """(name, scenario) for the convert_db cycle"""
    atomic = (V["init"], V["run"])
    S = []
    def add(name, file0, gtfs, procs, olddbs=None): S.append((name, dict(atomic=atomic, file0=file0, gtfs=gtfs, olddbs=olddbs or {}, procs=procs)))
    add("used HOME, different annotations", [], {1: 100, 2: 200}, [R(1, 11), R(2, 12, False)])
    add("new HOME, different annotations", None, {1: 100, 2: 200}, [R(1, 11, False), R(2, 12)])
    add("used HOME, same annotation and flag", [], {1: 100}, [R(1, 11), R(1, 12)])
    add("new HOME, same annotation and flag", None, {1: 100}, [R(1, 11, False), R(1, 12, False)])
    add("same annotation, different flags", [], {1: 100}, [R(1, 11, True), R(1, 12, False)])
    add("valid entry left by an earlier run", [E(1, 21)], {1: 100, 2: 200}, [R(1, 11), R(2, 12)], {21: (100, True)})
    add("valid entry, both runs want it", [E(1, 21, complete=False)], {1: 100}, [R(1, 11, False), R(1, 12, False)], {21: (100, False)})
    add("entry with another flag", [E(1, 21, complete=False)], {1: 100, 2: 200}, [R(1, 11, True), R(2, 12)], {21: (100, False)})
    add("stale entries (annotation touched / database touched / database gone)", [E(1, 21, gm=False), E(2, 22, dm=False), E(3, 23)], {1: 100, 2: 200, 3: 300},
        [R(1, 11), R(2, 12), R(3, 13)], {21: (100, True), 22: (200, True)})
    add("--clean_start next to a run that reuses", [E(1, 21)], {1: 100}, [R(1, 11, clean=True), R(1, 12)], {21: (100, True)})
    add("three runs on a new HOME", None, {1: 100, 2: 200}, [R(1, 11), R(2, 12), R(1, 13)])
    return S

def stored_scenarios(V):
    S = []
    for kind in ("index", "bed", "alignment"):
        atomic = (V["init"], V[kind])
        S.append(("%s cache, different inputs" % kind, dict(atomic=atomic, file0=[], gtfs={1: 100, 2: 200}, olddbs={}, procs=[dict(kind=kind, g=1, out=11, complete=True), dict(kind=kind, g=2, out=12, complete=True)])))
        S.append(("%s cache, same input" % kind, dict(atomic=atomic, file0=[], gtfs={1: 100}, olddbs={}, procs=[dict(kind=kind, g=1, out=11, complete=True), dict(kind=kind, g=1, out=12, complete=True)])))
    S.append(("index cache, other k-mer size", dict(atomic=(V["init"], V["index"]), file0=[], gtfs={1: 100}, olddbs={}, procs=[dict(kind="index", g=1, out=11, complete=True), dict(kind="index", g=1, out=12, complete=False)])))
    return S

def witness_scenario(V, which):
    atomic = (V["init"], V["run"])
    if which == "used": return dict(atomic=atomic, file0=[], gtfs={1: 100, 2: 200}, olddbs={}, procs=[R(1, 11), R(2, 12)])
    if which == "new": return dict(atomic=atomic, file0=None, gtfs={1: 100, 2: 200}, olddbs={}, procs=[R(1, 11), R(2, 12)])
    # P0's text is one byte longer ("false" vs "true")
    return dict(atomic=atomic, file0=[], gtfs={1: 100, 2: 200}, olddbs={}, procs=[R(1, 11, False), R(2, 12, True), R(1, 13, True)])

def witnesses(V):
    """the three schedules of props/C20.v (…_refuted under the in-place protocol), derived from the programs at hand; the driver completes them"""
    out = []
    scn = witness_scenario(V, "used"); pr = [prog_of(scn, p) for p in scn["procs"]]
    out.append(("P1 reads when P0 is one step before the end of its write", scn, [0] * (len(pr[0]) - 1) + [1] * (pr[1].index("ORead") + 1)))
    scn = witness_scenario(V, "new"); pr = [prog_of(scn, p) for p in scn["procs"]]
    out.append(("new HOME: P1 reads when P0 has started to create the file", scn, [0, 0] + [1] * (pr[1].index("ORead") + 1)))
    scn = witness_scenario(V, "used3"); pr = [prog_of(scn, p) for p in scn["procs"]]
    k = pr[0].index("OModify") + 1
    out.append(("both write, the longer text first", scn, [0] * k + [1] * k + [0, 1] * (len(pr[0]) - k) + [2] * len(pr[2])))
    return out


# ------------------------------------------------------------------------------------------------ the configuration directory
def dir_variant():
    """how set_configs_directory creates $HOME/.config/IsoQuant: (model program, d_saw_missing at the start) or None"""
    root = tempfile.mkdtemp(prefix="iqv_c20d_")
    try:
        home = os.path.join(root, "home"); os.makedirs(home)
        spec = dict(kind="init_dir", cache=os.path.join(root, "none.json"), dir=os.path.join(home, ".config", "IsoQuant"), free=True)
        p = RProc(0, spec, [], home, root); ev = []
        try:
            while not p.finished:
                m = p.wait_msg()
                if "at" in m: ev.append((m["at"], m.get("exist_ok")))
        finally: p.close()
        ok = (p.exit or {}).get("exit") == "done"
        if ok and ev == [("makedirs", True)]: return (["DMake"], False), ev
        if ok and ev == [("isdir", None), ("makedirs", False)]: return (["DCheck", "DCreate"], False), ev
        if ok and ev == [("makedirs", False)]: return (["DCreate"], True), ev
        return None, ev + [str(p.exit)]
    finally:
        shutil.rmtree(root, ignore_errors=True)


def dir_replay(variant, present, n, sched):
    prog, saw = variant
    root = tempfile.mkdtemp(prefix="iqv_c20d_"); procs = []
    try:
        home = os.path.join(root, "home"); d = os.path.join(home, ".config", "IsoQuant")
        os.makedirs(d if present else home)
        for i in range(n):
            procs.append(RProc(i, dict(kind="init_dir", cache=os.path.join(root, "none.json"), dir=d), list(prog), home, root))
        try:
            eff, trace = drive(procs, sched); err = None
        except Mismatch as e:
            eff, trace, err = list(sched), [], str(e)
        failed = [(p.exit or {}).get("exc") == "FileExistsError" for p in procs]
        other = [p.exit for p in procs if (p.exit or {}).get("exit") != "done" and (p.exit or {}).get("exc") != "FileExistsError"]
        return dict(present=present, n=n, sched=list(sched), eff=eff, trace=trace, failed=failed, dir_end=os.path.isdir(d), protocol_error=err or (str(other) if other else None),
                    exits=[{k: v for k, v in (p.exit or {}).items() if k != "tb"} for p in procs], program=prog)
    finally:
        for p in procs: p.close()
        shutil.rmtree(root, ignore_errors=True)


def corr_dir(ctx, quick):
    variant, ev = dir_variant()
    ctx.notes.append("creation of ~/.config/IsoQuant: events %s -> model program %s" % (ev, variant))
    if variant is None:
        ctx.broken("protocol:config-dir", "set_configs_directory creates the configuration directory in a way that is not modelled: %s" % ev); return
    prog, saw = variant; L = len(prog)
    jobs = []
    for present in (False, True):
        for s in interleavings([L, L]): jobs.append((present, 2, s))
        s3 = list(interleavings([L, L, L]))
        for s in (s3 if len(s3) <= 6 else ctx.rnd.sample(s3, 6 if quick else 40)): jobs.append((present, 3, s))
    with ThreadPoolExecutor(8) as ex: obs = list(ex.map(lambda j: dir_replay(variant, *j), jobs))
    cases = []
    for o in obs:
        if o["protocol_error"]:
            ctx.broken("replay:config-dir", "the real process does not follow the model program: %s" % o["protocol_error"], extra=o); continue
        term = "(%s, %s, %s, %s, %s, %s)" % (cbool(o["present"]), clist(["(dp %s %s)" % (clist(prog), cbool(saw))] * o["n"]), clist(o["eff"], cnat), clist(o["failed"], cbool), cbool(o["dir_end"]),
                                             clist(o["trace"], lambda t: "(%s, %s)" % (cnat(t[0]), cz(t[1]))))
        cases.append((term, o))
    pre = "From IQ Require Import Cache CacheCorr.\nOpen Scope Z_scope.\nDefinition check := dir_check.\nDefinition prop := dir_prop.\n"
    m, v = ctx.corr("config_dir_replay", pre, cases, nontrivial=lambda o: not o["present"], ctype="dcase")
    ctx.corr_report("config_dir_replay", m, v, what="schedule replay of the creation of $HOME/.config/IsoQuant by set_configs_directory")
    ctx.rule("configuration directory: 2 and 3 real processes run set_configs_directory under one HOME with ~/.config/IsoQuant absent / present; os.path.isdir and os.makedirs of that directory are "
             "synchronisation points released in the order of a schedule (all interleavings of two, a sample of three); Coq compares who failed, the final state and the event sequence with the model "
             "(makedirs(exist_ok=True) = one idempotent step; check-then-create = two) and requires that nobody fails; non-trivial = the directory did not exist")


def replay_key(o):
    """a reader died with JSONDecodeError or the file ended unparseable, and a site of this scenario rewrites the file in place"""
    if not all(o["scn"]["atomic"]) and (any(tuple(s) == (2, 1) for s in o["status"]) or o["file"] == "partial"):
        return KEY_INPLACE
    return None


def corr_replays(ctx, V, pool, quick):
    jobs = []                                                        # (scenario name, scenario, schedule, tag)
    for name, scn, sched in witnesses(V):
        jobs.append(("witness: " + name, scn, sched, "witness"))
    rnd = ctx.rnd
    fam = run_scenarios(V) + stored_scenarios(V)
    atomic = (V["init"], V["run"])
    for name, scn in fam:
        progs = [prog_of(scn, p) for p in scn["procs"]]
        blocks = [blocks_of(pr) for pr in progs]
        n = len(progs)
        if n == 2:
            bs = list(interleavings([len(b) for b in blocks]))
            if quick:
                keep = 6 if scn["procs"][0]["kind"] == "run" else 3
                bs = [bs[0], bs[-1]] + rnd.sample(bs[1:-1], min(keep, len(bs) - 2))
            for b in bs: jobs.append((name, scn, expand(b, blocks), "blocks"))
        # random complete interleavings at single-step granularity
        for _ in range((2 if quick else 12) if n == 2 else (4 if quick else 30)):
            s = [i for i, pr in enumerate(progs) for _ in pr]; rnd.shuffle(s)
            jobs.append((name, scn, s, "random"))
    if not quick:
        # every interleaving of two writers at the level of convert_db (the cache file exists; 252 under the atomic protocol, 924 in place)
        for name, scn in (("all interleavings of two writers, different annotations", dict(atomic=atomic, file0=[], gtfs={1: 100, 2: 200}, olddbs={}, procs=[R(1, 11, False, init=False), R(2, 12, init=False)])),
                          ("all interleavings of two writers, same annotation", dict(atomic=atomic, file0=[], gtfs={1: 100}, olddbs={}, procs=[R(1, 11, init=False), R(1, 12, init=False)]))):
            L = len(prog_of(scn, scn["procs"][0]))
            for s in interleavings([L, L]): jobs.append((name, scn, s, "exhaustive"))
    t0 = time.time()
    with ThreadPoolExecutor(12) as ex:
        obs = list(ex.map(lambda j: _replay_scenario(j[1], j[2], pool), jobs))
    cases = []; nprot = 0
    for (name, scn, sched, tag), o in zip(jobs, obs):
        o["name"] = name; o["tag"] = tag
        if o["protocol_error"]:
            nprot += 1
            ctx.broken("replay:protocol", "the real process does not follow the model program: %s (scenario '%s', schedule %s)" % (o["protocol_error"], name, sched),
                       extra={"scenario": scn, "schedule": sched, "exits": o["exits"]})
            continue
        cases.append((replay_term(o), {k: o[k] for k in ("name", "tag", "scn", "sched", "eff", "status", "file", "trace", "contents", "lens", "exits")}))
    def nontrivial(o):                                               # the two processes really overlapped
        procs_in_order = [i for i, _ in o["trace"]]
        return any(a != b for a, b in zip(procs_in_order, procs_in_order[1:])) and len(set(procs_in_order)) > 1 and procs_in_order != sorted(procs_in_order)
    mism, viol = ctx.corr("schedule_replay", PRE_REPLAY, cases, shard=40, nontrivial=nontrivial, ctype="rcase")
    ctx.corr_report("schedule_replay", mism, viol, keyfn=replay_key, what="schedule replay on the real set_configs_directory / convert_db / store_*")
    ctx.cov["pipeline_runs"] += 0
    ctx.notes.append("schedule replay: %d replays (%d scenarios; %s) in %.0f s" %
                     (len(jobs), len(fam) + 3, dict(collections.Counter(j[3] for j in jobs)), time.time() - t0))
    ctx.rule("schedule replay: real processes (harness/c20_wrapper.py) run set_configs_directory + convert_gtf_to_db, or find_stored_X / store_X of read_mapper, on real files "
             "(gffutils databases of 6-line annotations); their operations on the shared cache file are released one at a time in the order of a model schedule. Scenarios: new / used HOME, "
             "equal / different annotations and flags, valid / stale / foreign-flag entries of earlier runs, --clean_start, three runs; schedules: the three witnesses of props/C20.v, all "
             "interleavings of the blocks between two file operations (a sample per scenario in the quick tier), random single-step interleavings, and in the thorough tier every "
             "interleaving of two convert_db calls. Coq compares exit status / returned database / final cache (paths, flags, 'mtime is current') / event sequence with the model and evaluates "
             "the statement (all ended normally, file parses, returned database holds the run's own annotation and flag); non-trivial = the processes' file operations really interleave")
    return obs


# ------------------------------------------------------------------------------------------------ hit predicates on real files
def cdict(d): return clist(d, lambda ke: "(%d, mkentry %s %s %s %s)" % (ke[0], copt(ke[1][0], cz), copt(ke[1][1], cz), copt(ke[1][2], cz), copt(ke[1][3], cbool)))
def cfsl(fsl): return clist(fsl, lambda f: "(%d, mkstat %d %s)" % (f[0], f[1], "(Gtf %d)" % f[2][1] if f[2][0] == "gtf" else "(Db %d %s)" % (f[2][1], cbool(f[2][2]))))

class Files:
    """a directory of real files with set modification times; abstract path ids <-> real paths"""
    def __init__(self, root, fsl):
        self.root = root; self.path = {}
        for pid in range(1, 40): self.path[pid] = os.path.join(root, "f%d" % pid)
        for pid, mtime, content in fsl:
            with open(self.path[pid], "w") as f: f.write(repr(content))
            os.utime(self.path[pid], (mtime, mtime))
        self.inv = {v: k for k, v in self.path.items()}
    def real_dict(self, d, ints=False):
        out = {}
        for k, (db, gm, dm, c) in d:
            e = {}
            if db is not None: e["genedb"] = self.path[db]
            if gm is not None: e["gtf_mtime"] = gm if ints else float(gm)
            if dm is not None: e["db_mtime"] = dm if ints else float(dm)
            if c is not None: e["complete_db"] = c
            out[self.path[k]] = e
        return out

def dbpath_variant():
    """does compare_stored_gtf look at the recorded database path (fixes/C20_db2gtf_compare_db_path.diff)?"""
    from src import gtf2db
    root = tempfile.mkdtemp(prefix="iqv_c20p_")
    try:
        F = Files(root, [(5, 7, ("gtf", 100)), (21, 9, ("db", 100, True)), (22, 9, ("db", 200, True))])
        d = F.real_dict([(5, (21, 7, 9, True))])
        return not gtf2db.compare_stored_gtf(d, F.path[5], F.path[22])
    finally:
        shutil.rmtree(root, ignore_errors=True)

def corr_predicates(ctx, quick, only_find_converted_db=False):
    from src import gtf2db
    import argparse
    rnd = ctx.rnd
    root = tempfile.mkdtemp(prefix="iqv_c20p_")
    try:
        # files: 1 = annotation (mtime 5), 2 = annotation that does not exist, 3 = another annotation (mtime 5 as well), 11 = database (mtime 7), 12 = database that does
        # not exist, 13 = another database with the SAME mtime 7, 14 = database with mtime 8
        fsl = [(1, 5, ("gtf", 100)), (3, 5, ("gtf", 300)), (11, 7, ("db", 100, True)), (13, 7, ("db", 300, True)), (14, 8, ("db", 100, False))]
        F = Files(root, fsl)
        entries = [None] + [(db, gm, dm, c) for db in (None, 11, 12, 13, 1) for gm in (None, 5, 6) for dm in (None, 7, 8) for c in (None, True, False)]
        entries.sort(key=lambda e: 0 if e is None else sum(x is None for x in e))            # entries as the code writes them first
        cases = []
        for g in (1, 2):
            for e in entries:
                for c in (True, False):
                    for other in ([], [(3, (13, 5, 7, c))]):
                        d = ([] if e is None else [(g, e)]) + other
                        if rnd.random() < .5: d = d[::-1]
                        rd = F.real_dict(d, ints=rnd.random() < .3)
                        try:
                            r = gtf2db.find_converted_db(rd, F.path[g], c)
                            impl = "(Ok %s)" % copt(None if r is None else F.inv.get(r, -1), cz); ri = None if r is None else F.inv.get(r, -1)
                        except TypeError:
                            impl = "(Raises 3)"; ri = "TypeError"
                        cases.append(("(%s, %s, %d, %s, %s)" % (cfsl(fsl), cdict(d), g, cbool(c), impl), {"files(id,mtime,content)": fsl, "dict": d, "gtf": g, "complete_genedb": c, "impl": ri}))
        pre = "From IQ Require Import Cache CacheCorr.\nOpen Scope Z_scope.\nDefinition check := fcd_check.\nDefinition prop := fcd_prop.\n"
        m, v = ctx.corr("find_converted_db", pre, cases, shard=300, nontrivial=lambda o: o["impl"] is not None, ctype="fcd_case"); ctx.corr_report("find_converted_db", m, v)
        if only_find_converted_db:
            ctx.rule("find_converted_db on real files with set mtimes: annotation present / absent x entry absent or every combination of genedb / gtf_mtime / db_mtime / complete_db in {missing, "
                     "matching, not matching} x asked flag x a second entry (the full description is in the evidence of C20); non-trivial = a hit")
            return
        # compare_stored_gtf and the db2gtf branch of convert_db
        cp = dbpath_variant()
        ctx.notes.append("compare_stored_gtf %s the recorded database path" % ("compares" if cp else "does not compare"))
        cases = []; cases2 = []
        for g in (1, 2):
            for e in entries:
                d = [] if e is None else [(g, e)]
                for db in (11, 12, 13, 14):
                    r = bool(gtf2db.compare_stored_gtf(F.real_dict(d), F.path[g], F.path[db]))
                    cases.append(("(%s, %s, %s, %d, %d, %s)" % (cbool(cp), cfsl(fsl), cdict(d), g, db, cbool(r)), {"files(id,mtime,content)": fsl, "dict": d, "gtf": g, "db": db, "impl": r, "kind": "compare_stored_gtf"}))
        pre = "From IQ Require Import Cache CacheCorr.\nOpen Scope Z_scope.\nDefinition check := csg_check.\nDefinition prop := csg_prop.\n"
        m, v = ctx.corr("compare_stored_gtf", pre, cases, shard=300, nontrivial=lambda o: o["impl"], ctype="csg_case")
        ctx.corr_report("compare_stored_gtf", m, v, keyfn=lambda o: KEY_DBPATH if dbpath_shape(o) else None)
        # convert_db(gtf_out, db, <a db2gtf stand-in>, args): which stored GTF does it reuse?
        dicts = [[(1, (11, 5, 7, True))], [(1, (13, 5, 7, True))], [(1, (11, 5, 7, True)), (3, (13, 5, 7, True))], [(3, (13, 5, 7, True)), (1, (11, 5, 7, True))],
                 [(1, (11, 6, 7, True)), (3, (13, 5, 7, True))], [(2, (11, 5, 7, True)), (3, (14, 5, 8, False))], [], [(1, (12, 5, 7, True))], [(1, (None, 5, 7, True))]]
        for _ in range(40 if quick else 400):
            d = []
            for k in rnd.sample([1, 2, 3], rnd.randint(1, 3)):
                d.append((k, (rnd.choice([None, 11, 12, 13, 14]), rnd.choice([None, 5, 6]), rnd.choice([None, 7, 8]), rnd.choice([None, True, False]))))
            dicts.append(d)
        for d in dicts:
            for db in (11, 12, 13, 14):
                cfg = os.path.join(root, "cfg.json"); json.dump(F.real_dict(d), open(cfg, "w"))
                newgtf = os.path.join(root, "new.gtf")
                called = []
                def stand_in(dbf, gtf, _=None):
                    called.append(dbf); open(gtf, "w").write("converted\n")
                args = argparse.Namespace(db_config_path=cfg, clean_start=False, complete_genedb=False, gtf_check=True)
                try:
                    rg, rdb = gtf2db.convert_db(newgtf, F.path[db], stand_in, args)
                    impl = None if called else F.inv.get(rg, -1)
                except OSError:
                    impl = None                                          # database 12 does not exist: the miss path cannot stat it
                if os.path.exists(newgtf): os.remove(newgtf)
                cases2.append(("(%s, %s, %s, %d, %s)" % (cbool(cp), cfsl(fsl), cdict(d), db, copt(impl, cz)), {"files(id,mtime,content)": fsl, "dict": d, "db": db, "impl_reused_gtf": impl, "kind": "convert_db/db2gtf"}))
        pre = "From IQ Require Import Cache CacheCorr.\nOpen Scope Z_scope.\nDefinition check := fcg_check.\nDefinition prop := fcg_prop.\n"
        m, v = ctx.corr("convert_db_db2gtf", pre, cases2, shard=300, nontrivial=lambda o: o["impl_reused_gtf"] is not None, ctype="fcg_case")
        ctx.corr_report("convert_db_db2gtf", m, v, keyfn=lambda o: KEY_DBPATH if dbpath_shape(o) else None)
        ctx.rule("hit predicates: find_converted_db on real files with set mtimes - annotation present / absent x entry absent or every combination of genedb in {missing field, the database, a deleted "
                 "database, another database with the same mtime, the annotation itself} x gtf_mtime / db_mtime in {missing, equal, different} x complete_db in {missing, true, false} x asked flag x a second "
                 "entry before / after (times stored as float or int); compare_stored_gtf on the same entries x 4 databases; convert_db's db2gtf branch with a stand-in converter on fixed and random "
                 "dictionaries of <= 3 entries; non-trivial = a hit")
    finally:
        shutil.rmtree(root, ignore_errors=True)

def corr_read_mapper_predicates(ctx, quick):
    """find_stored_index / find_stored_bed / find_stored_alignment of src/read_mapper.py on real files with set mtimes (recorded times equal, OLDER and newer than the file's)"""
    from src import read_mapper as rm
    import argparse
    rnd = ctx.rnd
    root = tempfile.mkdtemp(prefix="iqv_c20m_")
    try:
        # 1 = reference / database / reads (mtime 5), 2 = missing input, 3 = index file used for alignments (mtime 9), 4 = annotation (mtime 3), 6 = missing annotation / index,
        # 11 = stored file (mtime 7), 12 = stored file that is gone, 13 = another stored file (mtime 7)
        fsl = [(1, 5, ("gtf", 100)), (3, 9, ("gtf", 300)), (4, 3, ("gtf", 400)), (11, 7, ("db", 100, True)), (13, 7, ("db", 300, True))]
        F = Files(root, fsl)
        cfg = os.path.join(root, "cfg.json")
        KM = {"nanopore": 14, "pacbio_ccs": 15, "assembly": 15}
        T1 = (None, 4, 5, 6); T2 = (None, 6, 7, 8)
        def opt(x, f=cz): return copt(x, f)
        # ---- index
        cases = []
        for ref in (1, 2):
            ents = [None] + [(ix, rm_, im, k) for ix in (None, 11, 12) for rm_ in T1 for im in T2 for k in (None, "14", "15")]
            for e in ents:
                for dt in ("nanopore", "pacbio_ccs"):
                    d = {}
                    if e is not None:
                        v = {}
                        if e[0] is not None: v["index_filename"] = F.path[e[0]]
                        if e[1] is not None: v["reference_mtime"] = float(e[1])
                        if e[2] is not None: v["index_mtime"] = float(e[2])
                        if e[3] is not None: v["kmer_size"] = e[3]
                        d[F.path[ref]] = v
                    if rnd.random() < .3: d[F.path[3]] = {"index_filename": F.path[13], "reference_mtime": 9.0, "index_mtime": 7.0, "kmer_size": "14"}
                    json.dump(d, open(cfg, "w"))
                    try:
                        r = rm.find_stored_index(argparse.Namespace(reference=F.path[ref], index_config_path=cfg, data_type=dt))
                    except Exception as ex:
                        ctx.violation(None, "find_stored_index raises %s on a cache entry it should simply not use" % type(ex).__name__,
                                      {"files(id,mtime)": [(a, b) for a, b, _ in fsl], "entry(index,reference_mtime,index_mtime,kmer_size)": e, "reference": ref, "data_type": dt, "error": repr(ex)}); continue
                    ri = None if r is None else F.inv.get(r, -1)
                    md = [] if e is None else [(ref, e)]
                    if F.path[3] in d: md.append((3, (13, 9, 7, "14")))
                    term = "(%s, %s, %d, %d, %s)" % (cfsl(fsl), clist(md, lambda ke: "(%d, mkientry %s %s %s %s)" % (ke[0], opt(ke[1][0]), opt(ke[1][1]), opt(ke[1][2]), opt(None if ke[1][3] is None else int(ke[1][3])))), ref, KM[dt], opt(ri))
                    cases.append((term, {"files(id,mtime)": [(a, b) for a, b, _ in fsl], "entry(index,reference_mtime,index_mtime,kmer_size)": e, "reference": ref, "data_type": dt, "impl": ri, "fn": "find_stored_index"}))
        pre = "From IQ Require Import Cache CacheCorr.\nOpen Scope Z_scope.\nDefinition check := fsi_check.\nDefinition prop := fsi_prop.\n"
        m, v = ctx.corr("find_stored_index", pre, cases, shard=300, nontrivial=lambda o: o["impl"] is not None, ctype="fsi_case"); ctx.corr_report("find_stored_index", m, v)
        # ---- BED
        cases = []
        for db in (1, 2):
            ents = [None] + [(b, rm_, bm) for b in (None, 11, 12) for rm_ in T1 for bm in T2]
            for e in ents:
                d = {}
                if e is not None:
                    v = {}
                    if e[0] is not None: v["bed_filename"] = F.path[e[0]]
                    if e[1] is not None: v["reference_mtime"] = float(e[1])
                    if e[2] is not None: v["bed_mtime"] = float(e[2])
                    d[F.path[db]] = v
                json.dump(d, open(cfg, "w"))
                try:
                    r = rm.find_stored_bed(argparse.Namespace(genedb=F.path[db], bed_config_path=cfg))
                except Exception as ex:
                    ctx.violation(None, "find_stored_bed raises %s on a cache entry it should simply not use" % type(ex).__name__,
                                  {"files(id,mtime)": [(a, b) for a, b, _ in fsl], "entry(bed,reference_mtime,bed_mtime)": e, "genedb": db, "error": repr(ex)}); continue
                ri = None if r is None else F.inv.get(r, -1)
                md = [] if e is None else [(db, e)]
                term = "(%s, %s, %d, %s)" % (cfsl(fsl), clist(md, lambda ke: "(%d, mkbentry %s %s %s)" % (ke[0], opt(ke[1][0]), opt(ke[1][1]), opt(ke[1][2]))), db, opt(ri))
                cases.append((term, {"files(id,mtime)": [(a, b) for a, b, _ in fsl], "entry(bed,reference_mtime,bed_mtime)": e, "genedb": db, "impl": ri, "fn": "find_stored_bed"}))
        pre = "From IQ Require Import Cache CacheCorr.\nOpen Scope Z_scope.\nDefinition check := fsb_check.\nDefinition prop := fsb_prop.\n"
        m, v = ctx.corr("find_stored_bed", pre, cases, shard=300, nontrivial=lambda o: o["impl"] is not None, ctype="fsb_case"); ctx.corr_report("find_stored_bed", m, v)
        # ---- alignments: key id 20 = the key string of (reads, index, annotation) at hand
        cases = []
        combos = [(fq, ix, an) for fq in (1, 2) for ix in (3, 6) for an in (None, 4, 6)]
        ents = [None] + [(b, im, fm, bm, am) for b in (None, 11, 12) for im in (None, 8, 9, 10) for fm in T1 for bm in T2 for am in (None, "", 2, 3, 4)]
        for fq, ix, an in combos:
            sel = ents if not quick else [ents[0]] + rnd.sample(ents[1:], 140) + [e for e in ents[1:] if e[0] == 11 and e[1] == 9 and e[2] == 5 and e[3] == 7]
            for e in sel:
                fastq, index = F.path[fq], F.path[ix]; ann = None if an is None else F.path[an]
                key = "%s_aligned_to_%s%s" % (fastq, index, "_" + ann if ann else "")
                d = {}
                if e is not None:
                    v = {}
                    if e[0] is not None: v["alignment_fpath"] = F.path[e[0]]
                    if e[1] is not None: v["index_mtime"] = float(e[1])
                    if e[2] is not None: v["fastq_mtime"] = float(e[2])
                    if e[3] is not None: v["bam_mtime"] = float(e[3])
                    if e[4] is not None: v["ann_mtime"] = e[4] if e[4] == "" else float(e[4])
                    d[key] = v
                json.dump(d, open(cfg, "w"))
                try:
                    r = rm.find_stored_alignment(fastq, ann, argparse.Namespace(index=index, alignment_config_path=cfg))
                    ri = None if r is None else F.inv.get(r, -1); impl = "(Ok %s)" % opt(ri)
                except FileNotFoundError:
                    ri = "FileNotFoundError"; impl = "(Raises 2)"
                except Exception as ex:
                    ctx.violation(None, "find_stored_alignment raises %s on a cache entry it should simply not use" % type(ex).__name__,
                                  {"files(id,mtime)": [(a, b) for a, b, _ in fsl], "entry(bam,index_mtime,fastq_mtime,bam_mtime,ann_mtime)": e, "reads": fq, "index": ix, "annotation": an, "error": repr(ex)}); continue
                md = [] if e is None else [(20, e)]
                term = "(%s, %s, 20, %d, %d, %s, %s)" % (cfsl(fsl), clist(md, lambda ke: "(%d, mkalentry %s %s %s %s %s)" % (ke[0], opt(ke[1][0]), opt(ke[1][1]), opt(ke[1][2]), opt(ke[1][3]), opt(None if ke[1][4] in (None, "") else ke[1][4]))),
                                                           fq, ix, opt(an), impl)
                cases.append((term, {"files(id,mtime)": [(a, b) for a, b, _ in fsl], "entry(bam,index_mtime,fastq_mtime,bam_mtime,ann_mtime)": e, "reads": fq, "index": ix, "annotation": an, "impl": ri, "fn": "find_stored_alignment"}))
        pre = "From IQ Require Import Cache CacheCorr.\nOpen Scope Z_scope.\nDefinition check := fsa_check.\nDefinition prop := fsa_prop.\n"
        m, v = ctx.corr("find_stored_alignment", pre, cases, shard=300, nontrivial=lambda o: isinstance(o["impl"], int), ctype="fsa_case"); ctx.corr_report("find_stored_alignment", m, v)
        ctx.rule("read_mapper caches: find_stored_index / find_stored_bed / find_stored_alignment on real files with set mtimes - input present / absent x entry absent or every combination of stored file in "
                 "{missing field, present, deleted} x each recorded mtime in {missing, older than the file's, equal, newer} x k-mer size in {missing, 14, 15} x data type (index); index / annotation file "
                 "present / absent, ann_mtime in {missing, '', older, equal, newer} (alignments; a sample of the 1200 entries per combination in the quick tier); non-trivial = a hit")
    finally:
        shutil.rmtree(root, ignore_errors=True)


def dbpath_shape(o):
    """the failing hit names a database other than the one asked about, with equal mtime: the known weakness of compare_stored_gtf"""
    d = dict(o["dict"]); db = o["db"]
    g = o.get("gtf", o.get("impl_reused_gtf"))
    e = d.get(g)
    return e is not None and e[0] != db and e[1] == 5 and e[2] in (7, 8)


# ------------------------------------------------------------------------------------------------ free-running real pipeline runs
def out_digest(outdir, prefix):
    """every result file of a run, as lines, without the command-line header line"""
    d = os.path.join(outdir, prefix); out = {}
    if not os.path.isdir(d): return out
    for f in sorted(os.listdir(d)):
        p = os.path.join(d, f)
        if not os.path.isfile(p): continue
        out[f] = [l for l in P.opn(p) if not l.startswith("# Command line:")]
    return out

def subset_gtf(src_gz, dst, keep):
    """an annotation that differs: only the genes for which keep(index) holds"""
    import gzip
    genes = collections.OrderedDict()
    for l in gzip.open(src_gz, "rt"):
        if l.startswith("#"): continue
        gid = l.split('gene_id "')[1].split('"')[0]; genes.setdefault(gid, []).append(l)
    with open(dst, "w") as f:
        for i, (g, ls) in enumerate(genes.items()):
            if keep(i): f.writelines(ls)

def free_running(ctx, inplace, quick):
    root = P.scratch("iqv_c20f_")
    try:
        data = P.bundled(os.path.join(root, "data"))
        gtfB = os.path.join(root, "data", "subset.gtf"); subset_gtf(data["gtf"], gtfB, lambda i: i % 2 == 0)
        base = ["--bam", data["bam"], "--reference", data["fasta"], "--data_type", "nanopore", "-p", "S", "--threads", "1", "--complete_genedb"]
        ann = {"A": data["gtf"], "B": gtfB}
        # stand-alone runs, private HOME each
        ref = {}
        for k, g in ann.items():
            od = os.path.join(root, "alone_" + k)
            rc, log = P.run_isoquant(od, base + ["--genedb", g]); ctx.cov["pipeline_runs"] += 1
            if rc != 0:
                ctx.broken("free-running:standalone", "stand-alone run failed (rc %d): %s" % (rc, log[-600:])); return
            ref[k] = out_digest(od, "S")
        n = 6 if quick else 16
        rounds = [("new HOME, same annotation, reference without index files yet", ["A"] * n), ("new HOME, same annotation", ["A"] * n), ("used HOME (cache hits expected), same annotation", ["A"] * n), ("new HOME, two annotations", ["A", "B"] * (n // 2)),
                  ("used HOME, two annotations, every other run with --clean_start", ["B", "A"] * (n // 2))]
        if not quick: rounds = rounds + [("new HOME, same annotation (repeat %d)" % k, ["A"] * n) for k in range(3)]
        home = None; nbad = 0; hits = 0
        for rno, (rname, anns) in enumerate(rounds):
            if rname.startswith("new HOME"): home = os.path.join(root, "home_shared_%d" % rno)
            if "without index files" in rname:
                for ext in (".fai", ".gzi"):
                    if os.path.exists(data["fasta"] + ext): os.remove(data["fasta"] + ext)
            def one(i):
                od = os.path.join(root, "r%d_%d" % (rno, i))
                extra = ["--clean_start"] if ("clean_start" in rname and i % 2) else []
                rc, log = P.run_isoquant(od, base + ["--genedb", ann[anns[i]]] + extra, home=home, preindex="without index files" not in rname)
                return od, rc, log
            with ThreadPoolExecutor(n) as ex: res = list(ex.map(one, range(len(anns))))
            ctx.cov["pipeline_runs"] += len(res); ctx.count(evaluations=len(res), nontrivial=len(res), traces=len(res))
            for i, (od, rc, log) in enumerate(res):
                hits += "Gene annotation file found" in log
                dg = out_digest(od, "S") if rc == 0 else None
                if rc != 0 or dg != ref[anns[i]]:
                    nbad += 1
                    diff = [] if dg is None else [f for f in set(dg) | set(ref[anns[i]]) if dg.get(f) != ref[anns[i]].get(f)]
                    key = KEY_INPLACE if (inplace and "JSONDecodeError" in log) else None
                    if rc == 0 and dg is not None and len(dg.get("S.read_assignments.tsv.gz", [])) <= 3 and "without index files" in rname: key = KEY_REFIDX
                    # the loud variant of the same window: pyfaidx opened the half-written index and does not know the chromosome at all
                    if rc != 0 and "without index files" in rname and "pyfaidx" in log and re.search(r"KeyError: '\S+ not in \S+'", log): key = KEY_REFIDX
                    # any other crash INSIDE pyfaidx / its BGZF reader in this round is the same window (a half-written .fai / .gzi is parsed):
                    # the traceback must end in the library's own frames, an IsoQuant-level error is never matched
                    if rc != 0 and "without index files" in rname and key is None:
                        frames = re.findall(r'File "([^"]+)", line \d+', log)
                        if frames and re.search(r"(pyfaidx|bgzf|Bio/)", frames[-1]) and "JSONDecodeError" not in log: key = KEY_REFIDX
                    ctx.violation(key, "a run started together with %d others under one HOME %s" % (len(anns) - 1, "failed (exit code %d)" % rc if rc != 0 else "produced other results than alone"),
                                  {"round": rname, "run": i, "annotation": anns[i], "exit_code": rc, "differing_files": diff, "log_tail": log[-1200:]})
            if "without index files" in rname:
                # concurrent pyfaidx writers may leave a permanently corrupt .fai / .gzi behind (same recorded window): the following
                # rounds are about the JSON caches, so they start from a cleanly rebuilt index
                for ext in (".fai", ".gzi"):
                    if os.path.exists(data["fasta"] + ext): os.remove(data["fasta"] + ext)
                P.ensure_reference_index(data["fasta"])
            cfg = os.path.join(home, ".config", "IsoQuant", "db_config.json")
            try: json.load(open(cfg))
            except Exception as e:
                ctx.violation(KEY_INPLACE if inplace else None, "db_config.json is unparseable after a round of concurrent runs", {"round": rname, "error": repr(e), "content": open(cfg, errors="replace").read()[:500] if os.path.exists(cfg) else None})
        ctx.notes.append("free-running: %d rounds of %d simultaneous isoquant.py runs under one HOME, %d reused a cached database, %d differed from the stand-alone run" % (len(rounds), n, hits, nbad))
        ctx.rule("free running: rounds of %d simultaneous real isoquant.py runs (bundled chr9 data, separate output folders, one HOME; new / used HOME, one / two annotations, --clean_start mixed in); every "
                 "run must exit 0 and every result file must equal that of a stand-alone run with a private HOME (command-line header line ignored); the cache file must parse after each round" % n)
    finally:
        shutil.rmtree(root, ignore_errors=True)


def reference_index_window(ctx):
    """Runs that share a reference FASTA share the index files pyfaidx writes next to it (args.fai_file_name = reference + '.fai', plus '.gzi' for a BGZF
       reference).  pyfaidx rewrites the .fai in place (open 'w', then copy) whenever it finds the .gzi missing, so with three runs starting together on a
       reference that has no index yet:  A writes .fai, B finds no .gzi and decides to rebuild, A writes .gzi, B truncates .fai, C starts: .gzi present,
       .fai present but empty -> C loads a reference with no sequences.  The state C meets is set up here (real pyfaidx files, the .fai emptied) and the
       real pipeline is run on it."""
    root = P.scratch("iqv_c20i_")
    try:
        data = P.bundled(os.path.join(root, "data"))
        base = ["--bam", data["bam"], "--reference", data["fasta"], "--genedb", data["gtf"], "--data_type", "nanopore", "-p", "S", "--threads", "1", "--complete_genedb"]
        rc, log = P.run_isoquant(os.path.join(root, "alone"), base); ctx.cov["pipeline_runs"] += 1          # builds .fai and .gzi
        if rc != 0:
            ctx.broken("reference-index:standalone", "stand-alone run failed: %s" % log[-500:]); return
        ref = out_digest(os.path.join(root, "alone"), "S")
        fai = data["fasta"] + ".fai"
        if not (os.path.exists(fai) and os.path.exists(data["fasta"] + ".gzi")):
            ctx.notes.append("reference-index: the run left no .fai/.gzi next to the reference (%s): window not applicable" % sorted(os.listdir(os.path.dirname(fai)))); return
        good = open(fai).read()
        open(fai, "w").close()                                                                           # B has opened it with 'w'
        rc, log = P.run_isoquant(os.path.join(root, "third"), base); ctx.cov["pipeline_runs"] += 1
        dg = out_digest(os.path.join(root, "third"), "S") if rc == 0 else None
        ctx.count(evaluations=1, nontrivial=1, traces=1)
        if rc == 0 and dg != ref:
            n = len(dg.get("S.read_assignments.tsv.gz", []))
            ctx.violation(KEY_REFIDX if n <= 3 else None, "a run that starts while another run rewrites the reference's .fai index exits 0 with results computed on an empty reference",
                          {"state": "reference.fa.gz.gzi present, reference.fa.gz.fai present and empty (a concurrent pyfaidx has opened it for writing)", "exit_code": rc,
                           "read_assignment_lines": n, "stand_alone_read_assignment_lines": len(ref.get("S.read_assignments.tsv.gz", [])),
                           "differing_files": sorted(f for f in set(dg) | set(ref) if dg.get(f) != ref.get(f))})
        elif rc != 0:
            ctx.violation(KEY_REFIDX, "a run that starts while another run rewrites the reference's .fai index fails (exit code %d)" % rc,
                          {"state": "reference.fa.gz.gzi present, reference.fa.gz.fai present and empty (a concurrent pyfaidx has opened it for writing)", "exit_code": rc, "log_tail": log[-800:]})
        with open(fai, "w") as f: f.write(good)
    finally:
        shutil.rmtree(root, ignore_errors=True)


def run(ctx):
    quick = ctx.tier == "quick"
    ctx.prepare("C20.v")
    pool = tempfile.mkdtemp(prefix="iqv_c20pool_")
    try:
        V, seen = detect_variants(pool)
        ctx.notes.append("write protocol per site (True = dump aside + os.replace, False = open 'w' + dump): %s; events seen: %s" % (V, seen))
        bad = [k for k, v in V.items() if v is None]
        if bad:
            ctx.broken("protocol", "the cache code follows neither modelled write protocol at %s; events of one run on the cache file: %s" % (bad, {k: seen.get(k, seen["run"]) for k in bad}))
            return
        corr_predicates(ctx, quick)
        corr_read_mapper_predicates(ctx, quick)
        corr_dir(ctx, quick)
        corr_replays(ctx, V, pool, quick)
        free_running(ctx, not all(V.values()), quick)
        reference_index_window(ctx)
    finally:
        shutil.rmtree(pool, ignore_errors=True)
    ctx.rule("shared reference index: the state a third run meets while a second one rewrites <reference>.fai (pyfaidx: .gzi present, .fai truncated) is set up with real pyfaidx files and the real "
             "pipeline is run on it; it must give the results of a stand-alone run")
    ctx.assume += ["os.replace is atomic and a reader that has opened the old file keeps reading it (POSIX rename)",
                   "one json.dump of a cache dictionary reaches the file as one write (the dictionaries are far below the 8 KiB buffer); a partially flushed text is modelled as 'unparseable' only",
                   "a file's modification time identifies its version: every write stamps a time never recorded before (clock in the model); files rewritten within one timestamp granule are outside the model",
                   "the lookup and the later use of the database are one step: a database named by the cache is not rewritten while another run uses it (output folders are separate and fresh: init_ok)",
                   "gffutils.create_db is trusted as the conversion oracle (content of a database = annotation + inference flag)",
                   "true parallel timing is explored only by the free-running rounds; the replay serialises the processes at their operations on the cache file"]


def replay(ctx, rep):
    """./check C20 --replay <file>: a schedule-replay violation is re-run alone (same scenario, same schedule); anything else re-runs the check"""
    r = rep.get("replay") or {}
    case = r.get("case") if isinstance(r, dict) else None
    if not (isinstance(r, dict) and r.get("correspondence") == "schedule_replay" and case):
        return run(ctx)
    ctx.prepare("C20.v")
    pool = tempfile.mkdtemp(prefix="iqv_c20pool_")
    try:
        V, seen = detect_variants(pool)
        scn = case["scn"]
        for k in ("gtfs", "olddbs"): scn[k] = {int(a): (tuple(b) if isinstance(b, list) else b) for a, b in (scn.get(k) or {}).items()}
        kind = scn["procs"][0]["kind"]
        scn["atomic"] = (V["init"], V["run" if kind == "run" else kind])           # the protocol of the code as it is now
        o = _replay_scenario(scn, case["sched"], pool)
        o["name"] = case.get("name"); o["tag"] = "replay"
        print("observed:", json.dumps({k: o[k] for k in ("status", "file", "trace", "exits")}, default=str)[:1500])
        if o["protocol_error"]:
            ctx.broken("replay:protocol", o["protocol_error"]); return
        m, v = ctx.corr("schedule_replay", PRE_REPLAY, [(replay_term(o), {k: o[k] for k in ("name", "tag", "scn", "sched", "eff", "status", "file", "trace", "contents", "lens", "exits")})], ctype="rcase")
        ctx.corr_report("schedule_replay", m, v, keyfn=replay_key, what="schedule replay on the real set_configs_directory / convert_db / store_*")
    finally:
        shutil.rmtree(pool, ignore_errors=True)
