"""C12 - equivalent representations of the same input give identical results.

Coq side (coq/KMerge.v, coq/Regions.v `process`, coq/Cache.v; props/C12.v): the k-way merge of BAMOnlineMerger yields a sorted
permutation of the union for every partition of the records into sorted files, equal to the one-file stream up to the order inside
ties; the clusters of AlignmentCollector.process are the same multisets whatever that order; the cache-hit predicate is sound.

Implementation side:
  merger        the real BAMOnlineMerger on pysam-written, samtools-sorted BAM files: the same records in 1..4 files (files without
                records on the chromosome, a header-only BAM), many ties on start and on (start, end); the stream = the model's stream
  clusters      the real AlignmentCollector.process on those streams: clusters of the k-file stream = clusters of the one-file stream as
                multisets; = the model's `process` of the stream
  pipeline/BAM  the bundled reads (+ duplicated records, to force ties across files) as 1, 2, 3, 4 BAM files of one experiment:
                read_assignments, corrected BED, gene / transcript counts and TPM equal as multisets of records
  pipeline/GTF  the same annotation as .gtf.gz, .gtf, pre-built .db (built with and without inference), with and without
                --complete_genedb, fresh and through the cache: every output file identical (command-line header ignored).
                This half is DIFFERENTIAL ONLY: gffutils is an oracle in the trusted base."""
import itertools, os, sys, json, shutil, gzip, collections, types, tempfile
from concurrent.futures import ThreadPoolExecutor
from lib import *
import pipeline as P

PRE = "From IQ Require Import Regions KMerge.\nOpen Scope Z_scope.\n"


# ------------------------------------------------------------------------------------------------ BAM files
def write_bam(path, chroms, records):
    """records: list of dict(name, chr index, start, cigar, flag, mapq); written in the given order, then samtools sort + index"""
    import pysam
    hdr = {"HD": {"VN": "1.6", "SO": "unsorted"}, "SQ": [{"SN": c, "LN": l} for c, l in chroms]}
    u = path + ".unsorted.bam"
    with pysam.AlignmentFile(u, "wb", header=hdr) as out:
        for r in records:
            a = pysam.AlignedSegment(); a.query_name = r["name"]; a.flag = r.get("flag", 0)
            a.reference_id = r["chr"]; a.reference_start = r["start"]; a.cigartuples = r["cigar"]; a.mapping_quality = r.get("mapq", 60)
            a.query_sequence = "A" * sum(l for o, l in r["cigar"] if o in (0, 1, 4, 7, 8))
            out.write(a)
    pysam.sort("-o", path, u); os.remove(u)
    pysam.index(path)
    return path


def crec(a): return "(%s, %s, %s)" % (cz(a[0]), cz(a[1]), cz(a[2]))
def crecs(l): return clist(l, crec)


def gen_record_sets(rnd, n):
    """lists of (start, end) with many ties on start and on (start, end); clusters separated by gaps"""
    out = []
    for _ in range(n):
        recs = []; pos = 100
        for _c in range(rnd.randint(1, 3)):
            starts = sorted(rnd.choice([pos, pos, pos + 10, pos + 30, pos + 60]) for _k in range(rnd.randint(1, 5)))
            for s in starts: recs.append((s, s + rnd.choice([1, 40, 40, 40, 75, 120])))
            pos = max(e for _, e in recs) + rnd.choice([0, 1, 2, 50, 300])
        out.append(recs)
    return out


def corr_merger(ctx, quick):
    import pysam
    from src import alignment_processor as ap
    from src.stats import EnumStats
    rnd = ctx.rnd
    sets = [[(100, 140)], [(100, 140), (100, 140)], [(100, 140), (100, 120), (100, 180)], [(100, 101), (100, 101), (101, 102), (102, 103)]] + gen_record_sets(rnd, 150 if quick else 1500)
    NF = 4
    d = os.path.join(ctx.scratch, "bams"); os.makedirs(d, exist_ok=True)
    chroms = [("c%d" % i, 5000) for i in range(len(sets))]
    per_file = [[] for _ in range(NF)]; one_file = []; assign = []
    for ci, recs in enumerate(sets):
        k = rnd.randint(1, NF)
        files = rnd.sample(range(NF), k)
        order = list(range(len(recs))); rnd.shuffle(order)                 # the order of writing decides the order among equal starts after sorting
        a = {}
        for i in order:
            s, e = recs[i]; f = rnd.choice(files); a[i] = f
            r = dict(name="c%d_%d" % (ci, i), chr=ci, start=s, cigar=[(0, e - s)])
            per_file[f].append(r); one_file.append(r)
        assign.append(a)
    paths = [write_bam(os.path.join(d, "f%d.bam" % j), chroms, per_file[j]) for j in range(NF)]
    empty = write_bam(os.path.join(d, "empty.bam"), chroms, [])
    single = write_bam(os.path.join(d, "single.bam"), chroms, one_file)
    handles = {p: pysam.AlignmentFile(p, "rb", require_index=True) for p in paths + [empty, single]}

    def stream(pairs, chrom):
        got = list(ap.BAMOnlineMerger(pairs, chrom, 0, 5000, multiple_iterators=True).get())
        return got

    def clusters(pairs, chrom):
        stub = types.SimpleNamespace()
        stub.params = types.SimpleNamespace(high_memory=False)
        stub.bam_merger = ap.BAMOnlineMerger(pairs, chrom, 0, 5000, multiple_iterators=True)
        stub.alignment_stat_counter = EnumStats()
        stub.forward_alignments = lambda storage: [(storage.region, [a.query_name for _, a in storage.get_alignments()])]
        return [(tuple(r), ids) for r, ids in ap.AlignmentCollector.process(stub)]

    mcases = []; pcases = []
    for ci, recs in enumerate(sets):
        chrom = "c%d" % ci
        for variant in ("split", "split+empty", "single"):
            if variant == "single": plist = [single]
            elif variant == "split": plist = paths
            else: plist = [paths[0], empty] + paths[1:]
            pairs = [(handles[p], p) for p in plist]
            ident = lambda name: int(name.split("_")[1])
            files = [[(a.reference_start, a.reference_end, ident(a.query_name)) for a in handles[p].fetch(chrom, 0, 5000)] for p in plist]
            got = stream(pairs, chrom)
            obs = [(a.reference_start, a.reference_end, ident(a.query_name)) for _, a in got]
            for (idx, a) in got:                                                  # the file index handed on must be the file the record came from
                if not any(x[2] == ident(a.query_name) for x in files[idx]):
                    ctx.violation(None, "BAMOnlineMerger reports a record under the index of another file", {"chromosome": chrom, "files": files, "index": idx, "record": a.query_name})
            mcases.append(("(%s, %s)" % (clist(files, crecs), crecs(obs)), {"records(start,end)": recs, "variant": variant, "files(start,end,id)": files, "impl_stream": obs}))
            cl = clusters(pairs, chrom)
            byid = {x[2]: x for x in obs}
            clr = [[byid[ident(n)] for n in ids] for _, ids in cl]
            pcases.append(("(%s, %s)" % (crecs(obs), clist(clr, crecs)), {"variant": variant, "stream": obs, "impl_clusters": clr, "chromosome": ci}))
    for h in handles.values(): h.close()
    pre = PRE + "Definition check := merge_check.\nDefinition prop := merge_prop.\n"
    m, v = ctx.corr("bam_online_merger", pre, mcases, shard=150, nontrivial=lambda o: sum(1 for f in o["files(start,end,id)"] if f) > 1 and len(set(x[0] for x in o["impl_stream"])) < len(o["impl_stream"]),
                    ctype="list (list (Z * Z * Z)) * list (Z * Z * Z)")
    ctx.corr_report("bam_online_merger", m, v)
    pre = PRE + ("Definition cl_eqb (x y : list (list (Z*Z*Z))) : bool := (Nat.eqb (length x) (length y)) && forallb (fun p => list_eqb_rec (fst p) (snd p)) (combine x y).\n"
                 "Definition check (c : list (Z*Z*Z) * list (list (Z*Z*Z))) : bool := cl_eqb (process (fst c)) (snd c).\n"
                 "Definition prop (c : list (Z*Z*Z) * list (list (Z*Z*Z))) : bool := permb (fst c) (concat (snd c)).\n")
    m, v = ctx.corr("process_clusters", pre, pcases, shard=150, nontrivial=lambda o: len(o["impl_clusters"]) > 1, ctype="list (Z * Z * Z) * list (list (Z * Z * Z))")
    ctx.corr_report("process_clusters", m, v)
    # clusters of the split stream = clusters of the one-file stream, as multisets (the statement of C12_split_over_files_same_clusters on the real code)
    bychr = collections.defaultdict(dict)
    for _, o in pcases: bychr[o["chromosome"]][o["variant"]] = o
    nd = 0
    for ci, vs in bychr.items():
        ref = [sorted(c) for c in vs["single"]["impl_clusters"]]
        for name in ("split", "split+empty"):
            if [sorted(c) for c in vs[name]["impl_clusters"]] != ref:
                nd += 1
                ctx.violation(None, "AlignmentCollector.process forms other clusters when the records are split over several BAM files", {"records": sets[ci], "one file": vs["single"], "split": vs[name]})
    ctx.count(evaluations=2 * len(bychr), nontrivial=sum(1 for vs in bychr.values() if vs["split"]["stream"] != vs["single"]["stream"]), traces=2 * len(bychr))
    ctx.notes.append("merger: %d record sets x {4 files, 4 files + a header-only BAM, one file}; %d of them reach the merger in another order when split; clusters differ in %d" %
                     (len(sets), sum(1 for vs in bychr.values() if vs["split"]["stream"] != vs["single"]["stream"]), nd))
    ctx.rule("BAMOnlineMerger on real BAM files (pysam-written, samtools-sorted, indexed): record sets of 1-3 clusters with 1-5 records each, starts drawn with repetition, lengths from {1, 40, 75, 120}, "
             "every record assigned at random to one of 1-4 of four files (the others hold nothing on that chromosome), once more with a header-only BAM in the list, once as a single file; "
             "the files' records are read back in file order and handed to the model; non-trivial = at least two non-empty files and a tie on start")


# ------------------------------------------------------------------------------------------------ pipeline: one BAM or several
def table_lines(path):
    return sorted(l for l in P.opn(path) if not l.startswith("# Command line:"))

COMPARED = ["read_assignments.tsv", "corrected_reads.bed", "gene_counts.tsv", "transcript_counts.tsv", "gene_tpm.tsv", "transcript_tpm.tsv", "exon_counts.tsv", "intron_counts.tsv"]
OTHER = ["transcript_model_counts.tsv", "transcript_model_tpm.tsv", "transcript_models.gtf", "extended_annotation.gtf", "transcript_model_reads.tsv"]

def multiset_digest(outdir, prefix, names):
    out = {}
    for n in names:
        p = P.find(outdir, prefix, n)
        out[n] = None if p is None else table_lines(p)
    return out

def pipeline_split(ctx, quick):
    import pysam
    rnd = ctx.rnd
    root = P.scratch("iqv_c12b_")
    try:
        data = P.bundled(os.path.join(root, "data"))
        src = pysam.AlignmentFile(data["bam"], "rb")
        recs = list(src.fetch(until_eof=True)); hdr = src.header.to_dict(); src.close()
        # duplicated records under new names force (start, end) ties, placed in different files below
        dups = []
        for a in rnd.sample(recs, 30):
            b = pysam.AlignedSegment.from_dict(a.to_dict(), pysam.AlignmentHeader.from_dict(hdr)); b.query_name = a.query_name + "_dup"; dups.append(b)
        # unaligned records (flag 4): they only show in the __not_aligned row of the ungrouped tables; samtools sort puts them at the end of whichever file holds them
        unal = []
        for k, a in enumerate(rnd.sample(recs, 7)):
            b = pysam.AlignedSegment(pysam.AlignmentHeader.from_dict(hdr)); b.query_name = "unaligned_%d" % k; b.flag = 4; b.reference_id = -1; b.reference_start = -1
            b.mapping_quality = 0; b.query_sequence = a.query_sequence or "ACGTACGTAC"; unal.append(b)
        allrecs = recs + dups + unal
        hdr.setdefault("HD", {})["SO"] = "unsorted"
        def write(path, rs):
            u = path + ".u.bam"
            with pysam.AlignmentFile(u, "wb", header=hdr) as out:
                for a in rs: out.write(a)
            pysam.sort("-o", path, u); os.remove(u); pysam.index(path); return path
        layouts = collections.OrderedDict()
        layouts["1"] = [allrecs]
        layouts["2 (originals + unaligned / duplicates)"] = [recs + unal, dups]            # all unaligned records in the FIRST file
        layouts["3 (unaligned records 3 / 4 / 0)"] = [recs[0::3] + unal[:3], recs[1::3] + dups + unal[3:], recs[2::3]]
        for k in (2, 3, 4):
            parts = [[] for _ in range(k)]
            for i, a in enumerate(allrecs): parts[rnd.randrange(k)].append(a)
            layouts["%d (random)" % k] = parts
        layouts["3 (round robin, reversed writing order)"] = [list(reversed(allrecs[j::3])) for j in range(3)]
        if not quick:
            for k in (2, 4):
                layouts["%d (by strand / position halves)" % k] = [[a for a in allrecs if (a.is_reverse, a.reference_start % 2)[k // 4] == j % 2 and (k == 2 or (a.reference_start // 2) % 2 == j // 2)] for j in range(k)]
        jobs = []
        for li, (name, parts) in enumerate(layouts.items()):
            bams = [write(os.path.join(root, "l%d_%d.bam" % (li, j)), p) for j, p in enumerate(parts)]
            jobs.append((name, bams))
        base = ["--reference", data["fasta"], "--genedb", data["gtf"], "--complete_genedb", "--data_type", "nanopore", "-p", "S", "--threads", "1", "--count_exons"]
        def one(j):
            name, bams = j
            od = os.path.join(root, "out_" + str(abs(hash(name)) % 10 ** 8))
            rc, log = P.run_isoquant(od, base + ["--bam"] + bams)
            return name, bams, od, rc, log
        res = [one(jobs[0])]                          # alone first: it also leaves the reference's .fai / .gzi next to the (shared) reference, see C20:shared-reference-index
        with ThreadPoolExecutor(8) as ex: res += list(ex.map(one, jobs[1:]))
        ctx.cov["pipeline_runs"] += len(res)
        ref = None; nother = 0
        for name, bams, od, rc, log in res:
            if rc != 0:
                ctx.violation(None, "the run on the records split as '%s' failed (exit code %d)" % (name, rc), {"layout": name, "log_tail": log[-1500:]}); continue
            dg = multiset_digest(od, "S", COMPARED); other = multiset_digest(od, "S", OTHER)
            if ref is None:
                ref = (name, dg, other)
                if any(v is None for v in dg.values()): ctx.broken("pipeline/BAM", "expected output files are missing: %s" % [k for k, v in dg.items() if v is None])
                continue
            ctx.count(evaluations=len(COMPARED), nontrivial=len(COMPARED), traces=len(COMPARED))
            for f in COMPARED:
                if dg[f] != ref[1][f]:
                    a, b = collections.Counter(ref[1][f] or []), collections.Counter(dg[f] or [])
                    ctx.violation("split:" + f, "%s differs (as a multiset of lines) between the records in one BAM and the same records split over several BAM files of one experiment" % f,
                                  {"layout": name, "file": f, "only_in_one_bam": list((a - b).elements())[:5], "only_in_split": list((b - a).elements())[:5]})
            nother += sum(1 for f in OTHER if other[f] != ref[2][f])
        ctx.notes.append("pipeline/BAM: %d reads (+%d duplicated, +7 unaligned records) as %s; files outside the statement (novel models) that differ: %d" % (len(recs), len(dups), list(layouts), nother))
        ctx.rule("pipeline, one BAM or several: the %d bundled reads plus 30 duplicated records (new names, same alignment) written as 1, 2, 3, 4 coordinate-sorted BAM files of one experiment "
                 "(originals / duplicates, random assignment, round robin with reversed writing order; 7 unaligned records placed in the first file, in the first two of three, at random), run with --count_exons -> "
                 "read_assignments, corrected BED, gene / transcript counts (all rows, the __ambiguous / __no_feature / __not_aligned tallies included) and TPM, ungrouped exon_counts / intron_counts must be equal as multisets of lines" % len(recs))
    finally:
        shutil.rmtree(root, ignore_errors=True)


# ------------------------------------------------------------------------------------------------ pipeline: GTF, gzipped GTF, database
def full_digest(outdir, prefix):
    d = os.path.join(outdir, prefix); out = {}
    for f in sorted(os.listdir(d)):
        p = os.path.join(d, f)
        if os.path.isfile(p): out[f[:-3] if f.endswith(".gz") else f] = [l for l in P.opn(p) if not l.startswith("# Command line:")]
    return out

def pipeline_annotation(ctx, quick):
    from src import gtf2db
    from props import c20
    root = P.scratch("iqv_c12a_")
    try:
        data = P.bundled(os.path.join(root, "data"))
        gz = data["gtf"]; plain = os.path.join(root, "data", "chr9.4M.plain.gtf")
        with gzip.open(gz, "rt") as f, open(plain, "w") as g: g.write(f.read())
        has_gene = any(l.split("\t")[2] == "gene" for l in open(plain) if not l.startswith("#") and l.count("\t") >= 8)
        has_tr = any(l.split("\t")[2] == "transcript" for l in open(plain) if not l.startswith("#") and l.count("\t") >= 8)
        if not (has_gene and has_tr):
            ctx.broken("pipeline/GTF", "the bundled annotation has no gene / transcript records: --complete_genedb cannot be compared"); return
        dbs = {}
        for c in (True, False):
            dbs[c] = os.path.join(root, "data", "prebuilt_%s.db" % ("complete" if c else "inferred"))
            with c20.quiet(): gtf2db.gtf2db(plain, dbs[c], c, True)      # the way IsoQuant builds it (gffutils.create_db with its options)
        base = ["--bam", data["bam"], "--reference", data["fasta"], "--data_type", "nanopore", "-p", "S", "--threads", "1"]
        confs = [("gtf.gz, --complete_genedb", gz, True, None), ("gtf.gz, inferred", gz, False, None), ("gtf, --complete_genedb", plain, True, None), ("gtf, inferred", plain, False, None),
                 ("db built with --complete_genedb", dbs[True], False, None), ("db built with inference", dbs[False], False, None), ("db built with inference, --complete_genedb given", dbs[False], True, None)]
        # check_and_load_args takes every name whose lower-cased form ends in "db" for a database
        for alias in ("chr9.4M.genedb", "annotation.sqlitedb", "CHR9.DB", "chr9_4M_db"):
            pth = os.path.join(root, "data", "names", alias); os.makedirs(os.path.dirname(pth), exist_ok=True); shutil.copy(dbs[True], pth)
            confs.append(("db under the name %s" % alias, pth, False, None))
        def one(c):
            name, ann, complete, home = c
            od = os.path.join(root, "out_%d" % (abs(hash(name)) % 10 ** 8))
            rc, log = P.run_isoquant(od, base + ["--genedb", ann] + (["--complete_genedb"] if complete else []), home=home)
            return name, od, rc, log
        res = [one(confs[0])]                         # alone first (reference index files are written next to the shared reference, see C20:shared-reference-index)
        with ThreadPoolExecutor(8) as ex: res += list(ex.map(one, confs[1:]))
        # cached conversion: the same HOME again, another output folder -> the stored database is reused
        shared = os.path.join(root, "home_cache")
        for name, ann, complete in (("gtf.gz, --complete_genedb", gz, True), ("gtf, inferred", plain, False)):
            r1 = one((name + " (fills the cache)", ann, complete, shared)); r2 = one((name + " (from the cache)", ann, complete, shared))
            if "Gene annotation file found" not in r2[3]: ctx.broken("pipeline/GTF", "the second run under one HOME did not reuse the stored database: %s" % r2[3][-500:])
            res += [r1, r2]
        # the annotation changes under the same path: the stored database must not be reused (cached vs fresh conversion)
        moving = os.path.join(root, "data", "moving.gtf"); shutil.copy(plain, moving)
        home2 = os.path.join(root, "home_moving")
        ra = one(("annotation before the edit", moving, False, home2))
        c20.subset_gtf(gz, moving, lambda i: i % 2 == 0); st = os.stat(moving); os.utime(moving, (st.st_atime + 10, st.st_mtime + 10))
        rb = one(("edited annotation, same path, same HOME", moving, False, home2))
        fresh = os.path.join(root, "data", "fresh_copy.gtf"); shutil.copy(moving, fresh)
        rc_ = one(("edited annotation, fresh", fresh, False, None))
        ctx.cov["pipeline_runs"] += 3
        if ra[2] != 0 or rb[2] != 0 or rc_[2] != 0:
            ctx.violation(None, "a run of the edited-annotation scenario failed", {"exit_codes": [ra[2], rb[2], rc_[2]], "log_tail": (rb[3] if rb[2] else ra[3] if ra[2] else rc_[3])[-1200:]})
        else:
            da, db_, dc = full_digest(ra[1], "S"), full_digest(rb[1], "S"), full_digest(rc_[1], "S")
            ctx.count(evaluations=len(dc), nontrivial=len(dc), traces=len(dc))
            if da == dc: ctx.broken("pipeline/GTF", "the edited annotation gives the same outputs as the original one: the stale-cache scenario tests nothing")
            for f in sorted(set(db_) | set(dc)):
                if db_.get(f) != dc.get(f):
                    ctx.violation("stale-cache:" + f.split(".", 1)[1], "%s of a run on an annotation edited in place (same path, same HOME) differs from a fresh run on the edited annotation" % f,
                                  {"file": f, "equals_the_run_before_the_edit": db_.get(f) == da.get(f), "reused_a_stored_database": "Gene annotation file found" in rb[3]})
        ctx.cov["pipeline_runs"] += len(res)
        ref = None
        for name, od, rc, log in res:
            if rc != 0:
                ctx.violation(None, "the run with the annotation given as '%s' failed (exit code %d)" % (name, rc), {"configuration": name, "log_tail": log[-1500:]}); continue
            dg = full_digest(od, "S")
            if ref is None: ref = (name, dg); continue
            ctx.count(evaluations=len(dg), nontrivial=len(dg), traces=len(dg))
            for f in sorted(set(dg) | set(ref[1])):
                if dg.get(f) != ref[1].get(f):
                    a, b = ref[1].get(f) or [], dg.get(f) or []
                    k = next((i for i, (x, y) in enumerate(zip(a, b)) if x != y), min(len(a), len(b)))
                    ctx.violation("annotation:" + f.split(".", 1)[1], "%s differs between two representations of the same annotation" % f,
                                  {"reference_configuration": ref[0], "configuration": name, "file": f, "first_difference_at_line": k, "reference_line": a[k:k + 1], "line": b[k:k + 1], "lengths": [len(a), len(b)]})
        ctx.notes.append("pipeline/GTF: %d configurations compared file by file (%s)" % (len(res), [r[0] for r in res]))
        ctx.rule("pipeline, representations of the annotation: bundled chr9 annotation as .gtf.gz, .gtf, a database pre-built by src.gtf2db.gtf2db with and without inference (also under the names *.genedb, *.sqlitedb, *.DB, *_db, which IsoQuant's own rule takes for databases), each with / without "
                 "--complete_genedb, and two configurations twice under one HOME (fresh conversion, then the cached database): every output file must be identical line by line (command-line header line ignored); an annotation edited in place (same path, later mtime, same HOME) must give the outputs of a fresh run on the edited text")
        ctx.assume.append("the GTF / gzipped GTF / database half is differential only: gffutils (create_db, FeatureDB) is an oracle in the trusted base; nothing about its conversion is proved")
    finally:
        shutil.rmtree(root, ignore_errors=True)


def corr_cache_hit(ctx, quick):
    """the cache-hit predicate shared with C20 (harness/props/c20.py holds the generator): keeps C12_cache_hit_sound tied to the code"""
    from props import c20
    c20.corr_predicates(ctx, quick, only_find_converted_db=True)


def run(ctx):
    quick = ctx.tier == "quick"
    ctx.prepare("C12.v")
    corr_merger(ctx, quick)
    corr_cache_hit(ctx, quick)
    pipeline_split(ctx, quick)
    pipeline_annotation(ctx, quick)
    ctx.assume += ["queue.PriorityQueue orders the tuples (reference_start, reference_end, bam_index, alignment) lexicographically; with one entry per file the alignment object is never compared",
                   "htslib returns the records of a coordinate-sorted BAM in file order (sorted by reference_start; the order among equal starts is whatever the file has)",
                   "every alignment covers at least one reference base (hypothesis `positive` of the clustering theorem)",
                   "what happens to a cluster after AlignmentCollector.process (assignment per read, counting) is covered by the pipeline comparison, not by the theorems"]
