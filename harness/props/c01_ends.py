"""C01 (read ends): unit correspondences of LongReadAssigner.categorize_exon_elongation_subtype and PolyAVerifier.verify_read_ends
against the Gallina models of coq/AssignerEnds.v.  Entry point: run_ends(ctx, quick) (called from c01.py)."""
import types, collections, logging, time, copy
from lib import *

PRE_EL = r"""From Coq Require Import QArith.
From IQ Require Import Intervals Junctions AssignerDefs AssignerEndsDefs.
From IQ.gen Require Import Tables Prims.
Open Scope Z_scope.
(* (params, split exons of the gene, isoform profile, isoform profile range, read gene profile, read profile range, read exons, implementation output) *)
Definition T := (params * list iv * list Z * iv * list Z * iv * list iv * outcome (list xev))%type.
Definition model (c:T) := let '(P, sp, ip, pr, rp, rr, rf, _) := c in elongation_subtype P sp ip pr rp rr rf.
Definition check (c:T) : bool := let '(_, _, _, _, _, _, _, out) := c in outcome_eqb xevs_eqb (model c) out.
(* elong_spec on the implementation's output: only terminal-site-match / elongation types; major elongation iff the terminal read exon
   overlaps the common split exon, that exon is the isoform's terminal one and the overhang exceeds minor_exon_extension; ends inside
   the tolerance give consistent events only; a minor elongation has delta < info <= minor_exon_extension.  No exception. *)
Definition prop (c:T) : bool :=
  let '(P, sp, ip, pr, rp, rr, rf, out) := c in
  match out, elong_view sp ip pr rp rr rf with
  | Ok evs, Ok v => elong_spec P pr v evs
  | _, _ => false
  end.
"""

PRE_VR = r"""From Coq Require Import QArith.
From IQ Require Import Intervals Junctions AssignerDefs AssignerEndsDefs.
From IQ.gen Require Import Tables Prims.
Open Scope Z_scope.
(* (params, isoform_id is not None, strand (1 '+', -1 '-', 0 other), isoform exons, read exons, polyA info, events passed in, implementation output) *)
Definition T := (params * bool * Z * list iv * list iv * polya * list xev * outcome (list xev))%type.
Definition model (c:T) := let '(P, hi, st, iso, rex, pa, evs, _) := c in verify_read_ends P hi st iso rex pa evs.
Definition check (c:T) : bool := let '(_, _, _, _, _, _, _, out) := c in outcome_eqb xevs_eqb (model c) out.
(* verify_spec on the implementation's output: never empty; every event is an input event or of a polyA kind, only an elongation of the
   polyA side may disappear; a polyA position within apa_delta of the isoform's 3' end adds no alternative_polya_site event.
   An exception is accepted only as the assertion of correct_polya_positions on an event list that claims at least as many fake
   terminal exons of the polyA side as the read has exons. *)
Definition prop (c:T) : bool :=
  let '(P, hi, st, iso, rex, pa, evs, out) := c in
  match out with
  | Ok o => if hi then verify_spec P st iso pa evs o else xevs_eqb o evs
  | Raises k => (k =? 3)%N && hi && (lenz rex <=? countz (has_ty (if st =? 1 then MES_fake_terminal_exon_right else MES_fake_terminal_exon_left)) evs)
  end.
"""

def _c01():
    from props import c01
    return c01

def xev_of(e):
    return (e.event_type.name, (int(e.isoform_region[0]), int(e.isoform_region[1])), (int(e.read_region[0]), int(e.read_region[1])), int(e.event_info))
def cxev(C, e): return "(mkx %s %s %s %s)" % (C.mes(e[0]), civ(e[1]), civ(e[2]), cz(e[3]))
def cout(C, r): return "(Ok %s)" % clist(r[1], lambda e: cxev(C, e)) if r[0] == "ok" else "(Raises %d%%N)" % r[1]
PF = ["delta", "minor_exon_extension", "apa_delta", "max_fake_terminal_exon_len", "max_missed_exon_len"]

def ends_small_params(C, delta, rnd=None):
    """c01.small_params plus what the profile constructors read; the verifier's tolerances are varied"""
    P = C.small_params(delta); P.count_exons = False; P.minimal_intron_absence_overlap = 1
    if rnd is not None:
        P.apa_delta = rnd.choice([1, 3]); P.max_fake_terminal_exon_len = rnd.choice([1, 2, 3]); P.max_missed_exon_len = rnd.choice([3, 4, 6])
        P.minor_exon_extension = rnd.choice([1, 3])
    return P

def mk_gene(isoforms, strands, P):
    from src.gene_info import GeneInfo, TranscriptModel, TranscriptModelType
    from src.long_read_profiles import CombinedProfileConstructor
    from src.long_read_assigner import LongReadAssigner
    models = [TranscriptModel("chr1", s, "T%d" % i, "G", [tuple(e) for e in iso], TranscriptModelType.known) for i, (iso, s) in enumerate(zip(isoforms, strands))]
    gi = GeneInfo.from_models(models, P.delta)
    return gi, CombinedProfileConstructor(gi, P), LongReadAssigner(gi, P)

def profiles(pc, ex, pa):
    from src.polya_finder import PolyAInfo
    try:
        return pc.construct_profiles([tuple(e) for e in ex], PolyAInfo(*pa), [])
    except Exception:
        return None

# ------------------------------------------------------------------ cases
def el_case(C, P, gi, asg, prof, tid, src):
    sp = [tuple(e) for e in gi.split_exon_profiles.features]; ip = list(gi.split_exon_profiles.profiles[tid]); pr = tuple(gi.split_exon_profiles.profile_ranges[tid])
    rp = list(prof.gene_profile); rr = tuple(prof.gene_profile_range); rf = [tuple(e) for e in prof.read_features]
    r = C.call(asg.categorize_exon_elongation_subtype, prof, tid)
    if r[0] == "ok": r = ("ok", [xev_of(e) for e in r[1]])
    term = "(%s, %s, %s, %s, %s, %s, %s, %s)" % (C.cparams(P), civs(sp), czs(ip), civ(pr), czs(rp), civ(rr), civs(rf), cout(C, r))
    return term, dict(params={f: getattr(P, f) for f in PF}, split_exons=sp, isoform_profile=ip, profile_range=pr, read_gene_profile=rp, read_profile_range=rr,
                      read_exons=rf, isoform=tid, isoform_exons=gi.all_isoforms_exons[tid], impl=r, source=src)

def vr_case(C, P, gi, asg, cp, tid, events, src):
    inp = [xev_of(e) for e in events]
    r = C.call(asg.polya_verifier.verify_read_ends, cp, tid, events)
    if r[0] == "ok": r = ("ok", [xev_of(e) for e in r[1]])
    strand = gi.isoform_strands[tid] if tid is not None else "+"
    st = {"+": 1, "-": -1}.get(strand, 0)
    iso = [tuple(e) for e in gi.all_isoforms_exons[tid]] if tid is not None else []
    rex = [tuple(e) for e in cp.read_split_exon_profile.read_features]; pi = cp.polya_info
    pa = (pi.external_polya_pos, pi.external_polyt_pos, pi.internal_polya_pos, pi.internal_polyt_pos)
    term = "(%s, %s, %s, %s, %s, (mkPA %s), %s, %s)" % (C.cparams(P), cbool(tid is not None), cz(st), civs(iso), civs(rex), " ".join(cz(x) for x in pa),
                                                      clist(inp, lambda e: cxev(C, e)), cout(C, r))
    return term, dict(params={f: getattr(P, f) for f in PF}, isoform=tid, strand=strand, isoform_exons=iso, read_exons=rex, polya_info=pa, events=inp, impl=r, source=src)

def real_events(asg, gi, cp, tid):
    """the event list as LongReadAssigner.detect_inconsistensies builds it before the polyA verification"""
    from src.isoform_assignment import MatchEventSubtype
    sp = cp.read_split_exon_profile; ip = cp.read_intron_profile
    read_region = (sp.read_features[0][0], sp.read_features[-1][1])
    evs = asg.intron_comparator.compare_junctions(ip.read_features, read_region, gi.all_isoforms_introns[tid], gi.transcript_region(tid))
    if len(evs) == 1 and evs[0].event_type == MatchEventSubtype.undefined: return None
    evs += asg.categorize_exon_elongation_subtype(sp, tid)
    return evs

SYN_TYPES = ["fake_terminal_exon_right", "fake_terminal_exon_left", "terminal_exon_misalignment_right", "terminal_exon_misalignment_left",
             "exon_elongation_right", "exon_elongation_left", "major_exon_elongation_right", "major_exon_elongation_left",
             "incomplete_intron_retention_right", "incomplete_intron_retention_left", "none", "intron_retention", "terminal_site_match_left", "terminal_site_match_right_precise",
             "exon_misalignment", "extra_intron_novel"]
def synthetic_events(rnd, n_read_introns, n_iso_introns, well_formed):
    """event lists mixing the types the verifier looks at with others; a well-formed list has at most one fake terminal exon per side and
       fewer than the read has exons"""
    from src.isoform_assignment import MatchEvent, MatchEventSubtype, SupplementaryMatchConstants as S
    k = rnd.choice([0, 1, 1, 2, 2, 3, 4, 5]); evs = []; fake = collections.Counter()
    if not well_formed and rnd.random() < .7:        # as many fake terminal exons of one side as the read has exons
        t = rnd.choice(["fake_terminal_exon_right", "fake_terminal_exon_left"])
        for _ in range(n_read_introns + 1): evs.append(MatchEvent(MatchEventSubtype[t], (S.extra_right_mod_position,) * 2, (0, 0)))
    for _ in range(k):
        t = rnd.choice(SYN_TYPES)
        if t.startswith("fake_terminal_exon"):
            side = t[-1]
            if well_formed and (fake[side] >= 1 or fake["r"] + fake["l"] + 1 > n_read_introns): continue
            fake[side] += 1
            rr = (0, 0) if t.endswith("left") else (max(0, n_read_introns - 1),) * 2
            evs.append(MatchEvent(MatchEventSubtype[t], (S.extra_left_mod_position,) * 2 if t.endswith("left") else (S.extra_right_mod_position,) * 2, rr))
        elif "elongation" in t or t.startswith("terminal_site"):
            evs.append(MatchEvent(MatchEventSubtype[t], event_info=rnd.choice([-3, 0, 2, 7, 30, 51, 120])))
        elif t == "none":
            evs.append(MatchEvent(MatchEventSubtype.none))
        else:
            a = rnd.randint(0, max(0, n_iso_introns - 1)); b = rnd.randint(0, max(0, n_read_introns - 1))
            evs.append(MatchEvent(MatchEventSubtype[t], (a, a), (b, b) if rnd.random() < .7 else (S.absent_position, b)))
    return evs

# ---- small domain
ANN_SMALL = [
    [[(3, 5), (8, 10), (13, 15)]],
    [[(3, 5), (8, 10), (13, 15)], [(3, 5), (13, 15)]],
    [[(3, 5), (8, 10)], [(4, 10)]],
    [[(2, 3), (6, 10), (13, 14)], [(6, 10), (13, 16)]],
    [[(2, 2), (4, 5), (8, 12), (15, 15)]],
    [[(5, 9)]],
    [[(3, 6), (9, 12)], [(3, 4), (9, 12), (15, 16)], [(11, 16)]],
]
def small_reads(lo, hi, maxn):
    out = []
    def rec(start, cur):
        if len(cur) == maxn: return
        for a in range(start, hi + 1):
            for b in range(a, hi + 1):
                nxt = cur + [(a, b)]; out.append(nxt); rec(b + 2, nxt)
    rec(lo, []); return out

def polya_small(rnd, iso, ex, strand):
    """positions at / near / far from the isoform's 3' end, at the read end, anywhere, absent"""
    def pick(end, rend):
        return rnd.choice([-1, -1, end, end, end + rnd.randint(-4, 4), rend, rend + rnd.randint(-2, 2), rnd.randint(1, 18)])
    ia = pick(iso[-1][1], ex[-1][1]) if rnd.random() < .3 else -1
    it = pick(iso[0][0], ex[0][0]) if rnd.random() < .3 else -1
    return (max(-1, pick(iso[-1][1], ex[-1][1])), max(-1, pick(iso[0][0], ex[0][0])), max(-1, ia), max(-1, it))

def polya_gene(rnd, iso, ex, P):
    apa = P.apa_delta
    def pick(end, rend, sign):
        introns = [(a[1] + 1, b[0] - 1) for a, b in zip(iso, iso[1:])]
        c = rnd.choice(["none", "none", "end", "near", "edge", "far", "read", "intron", "prev"])
        if c == "none": return -1
        if c == "end": return end
        if c == "near": return end + rnd.randint(-apa, apa)
        if c == "edge": return end + rnd.choice([-1, 1]) * (apa + rnd.choice([0, 1]))
        if c == "far": return max(1, end + rnd.choice([-1, 1]) * rnd.randint(apa + 2, 800))
        if c == "read": return rend + rnd.randint(-3, 3)
        if c == "intron" and introns:
            i = rnd.choice(introns); return rnd.randint(i[0], i[1])
        if c == "prev" and len(iso) > 1:      # where the polyA lands when the last isoform exons were not aligned
            k = rnd.randint(1, len(iso) - 1)
            if sign > 0: return iso[-k - 1][1] + sum(b - a + 1 for a, b in iso[-k:]) + rnd.randint(-P.delta - 1, P.delta + 1)
            return max(1, iso[k][0] - sum(b - a + 1 for a, b in iso[:k]) + rnd.randint(-P.delta - 1, P.delta + 1))
        return -1
    ea = pick(iso[-1][1], ex[-1][1], 1); et = pick(iso[0][0], ex[0][0], -1)
    ia = pick(iso[-1][1], ex[-1][1], 1) if rnd.random() < .3 else -1
    it = pick(iso[0][0], ex[0][0], -1) if rnd.random() < .3 else -1
    return (ea, et, ia, it)

def extra_reads(rnd, iso, P):
    """reads the c01 recipes do not produce: the 3'/5' terminal isoform exons are missing and the read runs on for about their length"""
    out = []
    if len(iso) > 1:
        k = rnd.randint(1, len(iso) - 1); ln = sum(b - a + 1 for a, b in iso[-k:]); e = iso[-k - 1]
        out.append(iso[:-k - 1] + [(e[0], e[1] + max(0, ln + rnd.randint(-P.delta - 2, P.delta + 2)))])
        k = rnd.randint(1, len(iso) - 1); ln = sum(b - a + 1 for a, b in iso[:k]); e = iso[k]
        s_ = e[0] - max(0, ln + rnd.randint(-P.delta - 2, P.delta + 2))
        if s_ > 0: out.append([(s_, e[1])] + iso[k + 1:])
    return [r for r in out if all(a <= b for a, b in r) and all(x[1] + 1 < y[0] for x, y in zip(r, r[1:]))]

def build_cases(ctx, quick):
    from src.long_read_profiles import MappedReadProfile, CombinedReadProfiles
    from src.polya_finder import PolyAInfo
    C = _c01(); rnd = ctx.rnd
    el = []; vr = []; stats = collections.Counter()
    def strands_for(n):
        s = rnd.choice(["+", "+", "-", "-", "."])
        return [s if rnd.random() < .85 else rnd.choice("+-") for _ in range(n)]
    # ---------------- (i) small domain, scaled tolerances: every read of up to 3 exons over positions 1..17 is a candidate
    reads = small_reads(1, 17, 3)
    n_reads = 180 if quick else 2400
    for ann in ANN_SMALL:
        for delta in (0, 1):
            P = ends_small_params(C, delta, rnd)
            strands = strands_for(len(ann)); gi, pc, asg = mk_gene(ann, strands, P)
            for ex in rnd.sample(reads, n_reads // 2) + [r for iso in ann for r in extra_reads(rnd, iso, P)]:
                tid = "T%d" % rnd.randrange(len(ann)); iso = ann[int(tid[1:])]
                cp = profiles(pc, ex, polya_small(rnd, iso, ex, strands[int(tid[1:])]))
                if cp is None: stats["construct_profiles raised"] += 1; continue
                for t in gi.all_isoforms_exons: el.append(el_case(C, P, gi, asg, cp.read_split_exon_profile, t, "small/real-profile"))
                try: evs = real_events(asg, gi, cp, tid)
                except Exception: stats["compare_junctions raised"] += 1; continue
                if evs is None: stats["undefined"] += 1; continue
                vr.append(vr_case(C, P, gi, asg, cp, tid, evs, "small/real-events"))
                # (b) synthetic event lists on the same read
                cp2 = profiles(pc, ex, polya_small(rnd, iso, ex, strands[int(tid[1:])]))
                wf = rnd.random() < .85
                vr.append(vr_case(C, P, gi, asg, cp2, tid, synthetic_events(rnd, len(ex) - 1, len(iso) - 1, wf), "small/synthetic-events" + ("" if wf else "/malformed")))
            # synthetic read profiles: the function as a unit, beyond what the constructors produce (includes the no-common-exon case)
            nsp = len(gi.split_exon_profiles.features)
            for _ in range(60 if quick else 600):
                gp = [rnd.choice([-2, -1, 0, 1, 1]) for _ in range(nsp)]; a = rnd.randint(0, nsp); b = rnd.randint(a, nsp)
                ex = rnd.choice(reads); prof = MappedReadProfile(gp, [1] * len(ex), ex, (a, b))
                el.append(el_case(C, P, gi, asg, prof, "T%d" % rnd.randrange(len(ann)), "small/synthetic-profile"))
    # isoform_id None: the list comes back untouched
    P = ends_small_params(C, 1); gi, pc, asg = mk_gene(ANN_SMALL[0], ["+"], P)
    for _ in range(20):
        cp = profiles(pc, [(3, 5), (8, 10)], (10, -1, -1, -1))
        vr.append(vr_case(C, P, gi, asg, cp, None, synthetic_events(rnd, 1, 2, True), "small/no-isoform"))
    # ---------------- (ii) gene-like structures, the four presets
    PP = {m: C.mk_params(m) for m in C.MATCHING}
    for g in range(80 if quick else 1000):
        m = rnd.choice(C.MATCHING); P = PP[m]
        isoforms = C.gene_with_isoforms(rnd); strands = strands_for(len(isoforms))
        gi, pc, asg = mk_gene(isoforms, strands, P)
        for _r in range(6):
            k = rnd.randrange(len(isoforms)); iso = isoforms[k]; tid = "T%d" % k
            if rnd.random() < .25:
                xs = extra_reads(rnd, iso, P); ex = rnd.choice(xs) if xs else None
            else:
                ex = C.derive_read(rnd, iso, P)
            if ex is None: continue
            cp = profiles(pc, ex, polya_gene(rnd, iso, ex, P))
            if cp is None: stats["construct_profiles raised"] += 1; continue
            for t in gi.all_isoforms_exons: el.append(el_case(C, P, gi, asg, cp.read_split_exon_profile, t, "gene-like/" + m))
            for t in ([tid] + [x for x in gi.all_isoforms_exons if x != tid][:1]):
                cpt = profiles(pc, ex, polya_gene(rnd, gi.all_isoforms_exons[t], ex, P))
                try: evs = real_events(asg, gi, cpt, t)
                except Exception: stats["compare_junctions raised"] += 1; continue
                if evs is None: stats["undefined"] += 1; continue
                vr.append(vr_case(C, P, gi, asg, cpt, t, evs, "gene-like/real-events/" + m))
            cp2 = profiles(pc, ex, polya_gene(rnd, iso, ex, P)); wf = rnd.random() < .9
            vr.append(vr_case(C, P, gi, asg, cp2, tid, synthetic_events(rnd, len(ex) - 1, len(iso) - 1, wf), "gene-like/synthetic-events/" + m + ("" if wf else "/malformed")))
    return el, vr, stats

def run_ends(ctx, quick):
    lg = logging.getLogger("IsoQuant"); old = lg.level; lg.setLevel(logging.ERROR)       # the "Odd case" warnings of the code under test
    t0 = time.time()
    try:
        el, vr, stats = build_cases(ctx, quick)
    finally:
        lg.setLevel(old)
    ctx.notes.append("read-end cases built in %.0f s: %d elongation, %d verify_read_ends; %s" % (time.time() - t0, len(el), len(vr), dict(stats)))
    h1 = collections.Counter(e[0] for _, o in el if o["impl"][0] == "ok" for e in o["impl"][1])
    h2 = collections.Counter(e[0] for _, o in vr if o["impl"][0] == "ok" for e in o["impl"][1] if e not in o["events"])
    h2.update("Raises %d" % o["impl"][1] for _, o in vr if o["impl"][0] != "ok")
    ctx.notes.append("exon_elongation_subtype event histogram: " + ", ".join("%s=%d" % kv for kv in sorted(h1.items(), key=lambda kv: -kv[1])))
    ctx.notes.append("verify_read_ends added-event histogram: " + ", ".join("%s=%d" % kv for kv in sorted(h2.items(), key=lambda kv: -kv[1])))
    ctx.rule("exon_elongation_subtype: real GeneInfo.from_models / CombinedProfileConstructor / LongReadAssigner objects; (i) 7 small annotations x delta 0,1 with scaled "
             "tolerances (minor_exon_extension 1 or 3), reads sampled from ALL exon lists of <= 3 exons over positions 1..17, every isoform of the gene, plus synthetic "
             "MappedReadProfile objects (random gene profile over {-2,-1,0,1}, random range: reaches the no-common-exon case where Python indexes split_exons[-1]); "
             "(ii) gene-like annotations (c01.gene_with_isoforms) x reads derived by c01.derive_read and by dropping terminal isoform exons, the 4 presets of "
             "set_matching_options; non-trivial = at least one event is returned")
    ctx.rule("verify_read_ends: same objects; event lists (a) as detect_inconsistensies builds them (real compare_junctions + categorize_exon_elongation_subtype) and "
             "(b) synthetic lists mixing fake_terminal_exon / terminal_exon_misalignment / (major_)exon_elongation / incomplete_intron_retention of both sides with other "
             "types (10-15% malformed: more fake terminal exons than the read has exons -> the assertion); strands + / - / '.', isoforms of mixed strand; polyA / polyT "
             "positions absent, at / within / at the edge of / beyond apa_delta of the isoform end, at the read end, inside introns, where a read lacking the terminal "
             "isoform exons would end; internal positions in 30% of the cases; isoform_id None; non-trivial = the returned list differs from the one passed in")
    mism, viol = ctx.corr("exon_elongation_subtype", PRE_EL, el, shard=250, ctype="T", nontrivial=lambda o: o["impl"][0] == "ok" and len(o["impl"][1]) > 0)
    ctx.corr_report("exon_elongation_subtype", mism, viol, what="categorize_exon_elongation_subtype")
    mism, viol = ctx.corr("verify_read_ends", PRE_VR, vr, shard=250, ctype="T", nontrivial=lambda o: o["impl"][0] != "ok" or o["impl"][1] != o["events"])
    ctx.corr_report("verify_read_ends", mism, viol, what="PolyAVerifier.verify_read_ends")
    return dict(elongation=len(el), verify=len(vr), stats=dict(stats), elongation_hist=dict(h1), verify_hist=dict(h2))
