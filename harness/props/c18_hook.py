"""Runs the unmodified isoquant.py with one observation point: every call of IOSupport.check_sites_are_canonical is logged
(chromosome, intron, strand, stored window start and length, answer) to $C18_LOG.  Nothing is changed; worker processes inherit the wrapper by fork."""
import os, sys, runpy

repo = os.environ.get("VERIF_REPO", "/repo")
sys.path.insert(0, repo)
from src import assignment_io

_orig = assignment_io.IOSupport.check_sites_are_canonical
_log = os.environ.get("C18_LOG")

def _wrapped(self, read_introns, gene_info, strand):
    res = _orig(self, read_introns, gene_info, strand)
    if _log:
        try:
            n = len(gene_info.reference_region) if gene_info.reference_region else 0
            line = "%s\t%s\t%s\t%d\t%d\t%s\n" % (gene_info.chr_id, ",".join("%d-%d" % (i[0], i[1]) for i in read_introns), strand, gene_info.all_read_region_start, n, res)
            fd = os.open(_log, os.O_WRONLY | os.O_APPEND | os.O_CREAT, 0o644)
            os.write(fd, line.encode()); os.close(fd)
        except Exception:
            pass
    return res

assignment_io.IOSupport.check_sites_are_canonical = _wrapped
script = os.path.join(repo, "isoquant.py")
sys.argv[0] = script
runpy.run_path(script, run_name="__main__")
