"""C17 — identifiers in the outputs are unique, collision-free and functional."""
import itertools, os, shutil, types, collections, tempfile
from lib import *
from props._idcanon import *

PRE = "From IQ Require Import Ids IdsSpec Canon CanonSpec.\nOpen Scope Z_scope.\n"

# ids a reference annotation might carry (IsoQuant-made ones, near misses, things int() accepts or rejects)
T_POOL = ["transcript1.c.nic", "transcript2.c.nnic", "transcript3", "transcript", "transcriptX.c", "transcript+4.c", "transcript 5 .c", "transcript0007.c",
          "transcript1_0.c", "transcript_1.c", "transcript1_.c", "transcript-3.c", "transcripts12.c", "ENST0001.2", "transcript2", "transcript3.d.nic", "Transcript4.c.nic"]
G_POOL = ["novel_gene_c_1", "novel_gene_c_2", "novel_gene_3", "novel_gene_", "novel_gene_c_x", "novel_gene_c_1_5", "novel_gene_c_ 6", "novel_gene_c_+2", "novel_gene_c_4_",
          "ENSG0001", "novel_gene_d_2", "novelgene_c_7"]

def cdbf(f): return "(%s, %s, %s)" % (cs(f[0]), cz(f[1]), cs(f[2]))
KIND = {0: "gene", 1: "transcript", 2: "mRNA", 3: "exon"}

def make_db(feats):
    return FakeDB([(sid, KIND[k], FakeFeature(fid)) for sid, k, fid in feats])


def corr_naming(ctx):
    from src.common import TranscriptNaming as TN
    rnd = ctx.rnd
    pre = PRE + "Definition tc (c:str * str * str * str) := c.\nDefinition check (c:(str * str * str * str)) := naming_check c.\nDefinition prop := check.\n"
    tn = (TN.transcript_prefix, TN.novel_gene_prefix, TN.nic_transcript_suffix, TN.nnic_transcript_suffix)
    m, v = ctx.corr("naming-constants", pre, typed([("(%s, %s, %s, %s)" % tuple(cs(x) for x in tn), {"TranscriptNaming": tn})]))
    ctx.corr_report("naming-constants", m, v)
    pre = PRE + "Definition tc (c:Z * str) := c.\nDefinition check (c:Z * str) := dec_check c.\nDefinition prop := check.\n"
    nums = list(range(0, 130)) + [999, 1000, 1001, 4095, 4096, 65535, 65536, 10 ** 6, 10 ** 9 + 7, 2 ** 63, 10 ** 30] + [rnd.randint(0, 10 ** rnd.randint(1, 25)) for _ in range(300)]
    cases = [("(%s, %s)" % (cz(n), cs("%d" % n)), {"n": n, "impl": "%d" % n}) for n in nums] + [("(%s, %s)" % (cz(n), cs(str(n))), {"n": n, "impl": str(n)}) for n in nums[:50]]
    m, v = ctx.corr("decimal-print", pre, typed(cases)); ctx.corr_report("decimal-print", m, v)
    pre = PRE + "Definition tc (c:str * outcome Z) := c.\nDefinition check (c:str * outcome Z) := int_check c.\nDefinition prop (c:str * outcome Z) := match digits_num (fst c), snd c with Some n, Ok v => n =? v | Some _, _ => false | None, _ => true end.\n"
    strs = [""] + ["".join(t) for n in (1, 2, 3) for t in itertools.product("01_+- x", repeat=n)]
    for _ in range(1500): strs.append("".join(rnd.choice("0123456789_+- \t\nx.\x0b\x1c") for _ in range(rnd.randint(1, 7))))
    strs += ["007", "1_000", "+12", "-0", " 42 ", "4 2", "1__0", "_1", "1_", "+", "-", "+-1", "0x10", "1e3", "1.0", "\t9\n", "\x1c5\x1f", "12345678901234567890123"]
    cases = []
    for s in strs:
        try: out = "(Ok %s)" % cz(int(s)); o = int(s)
        except ValueError: out = "(Raises 1)"; o = "ValueError"
        cases.append(("(%s, %s)" % (cs(s), out), {"s": s, "impl": o}))
    m, v = ctx.corr("int-parse", pre, typed(cases), nontrivial=lambda o: o["impl"] != "ValueError"); ctx.corr_report("int-parse", m, v)
    ctx.rule("naming: TranscriptNaming constants; '%d' % n and str(n) for 0..129, powers, random up to 25 digits; int(s) for every string of <= 3 characters over {0,1,_,+,-,space,x} and random strings with digits, underscores, signs, white space")


def corr_distributor(ctx, quick):
    from src.id_policy import ExcludingIdDistributor, SimpleIDDistributor
    rnd = ctx.rnd
    pre = PRE + "Definition tc (c:(bool * str * list db_feature * Z) * (list Z * list Z)) := c.\nDefinition check := distributor_check.\nDefinition prop := distributor_prop.\n"
    cases = []
    def one(has_db, chr_id, feats, n):
        db = make_db(feats) if has_db else None
        d = ExcludingIdDistributor(db, chr_id)
        forb = sorted(d.forbidden_ids)
        issued = [d.increment() for _ in range(n)]
        if db is not None:
            for call in db.calls:
                if call[0] != chr_id: ctx.violation(None, "ExcludingIdDistributor queried another chromosome", {"call": call, "chr": chr_id})
        term = "((%s, %s, %s, %s), (%s, %s))" % (cbool(has_db), cs(chr_id), clist(feats, cdbf), cz(n), czs(forb), czs(issued))
        cases.append((term, {"has_db": has_db, "chr": chr_id, "features(seqid,kind,id)": feats, "n": n, "forbidden": forb, "issued": issued}))
    pool = [("c", 1, t) for t in T_POOL] + [("c", 0, g) for g in G_POOL]
    one(False, "c", [], 6); one(True, "c", [], 6)
    for k in (1, 2, 3) if not quick else (1, 2):
        for sub in itertools.combinations(pool, k): one(True, "c", list(sub), 5)
    if quick:
        for _ in range(700): one(True, "c", rnd.sample(pool, 3), 5)
    # dense forbidden runs, several chromosomes, ids in the wrong feature type, chromosome names with dots and underscores
    for _ in range(1200 if quick else 6000):
        chr_id = rnd.choice(["c", "chr1", "chr1_KI270.1", "9", "chr_2"])
        feats = []
        for _k in range(rnd.randint(0, 14)):
            sid = chr_id if rnd.random() < .75 else rnd.choice(["d", "chr2"])
            num = rnd.randint(1, 12)
            kind = rnd.choice([0, 1, 1, 2, 3])
            if rnd.random() < .5: fid = "transcript%d.%s%s" % (num, sid, rnd.choice([".nic", ".nnic"]))
            else: fid = "novel_gene_%s_%d" % (sid, num)
            if rnd.random() < .15: kind = 0 if fid.startswith("transcript") else 1      # id of the other kind: must be ignored
            feats.append((sid, kind, fid))
        one(True, chr_id, feats, rnd.randint(1, 16))
    # SimpleIDDistributor
    s = SimpleIDDistributor(); vals = [s.increment() for _ in range(8)]
    if vals != list(range(1, 9)): ctx.violation(None, "SimpleIDDistributor does not count 1, 2, 3, ...", {"issued": vals})
    ctx.rule("ExcludingIdDistributor on fake gene databases: every subset of <= %d ids from a pool of %d reference ids (IsoQuant-made, near misses, forms int() accepts) x 5 increments; random databases with dense number runs, several chromosomes, odd chromosome names; non-trivial = a number was skipped" % (2 if quick else 3, len(pool)))
    m, v = ctx.corr("excluding-id-distributor", pre, typed(cases), nontrivial=lambda o: o["issued"] != list(range(1, o["n"] + 1)))
    ctx.corr_report("excluding-id-distributor", m, v)


def cdbe(f):
    sid, ty, st, en, sd, attr = f
    return "(%s, %s, %s, %s, %s, %s)" % (cs(sid), cz(0 if ty == "exon" else 1), cz(st), cz(en), cs(sd), "None" if not attr else "(Some %s)" % cs(attr[0]))

def make_exon_db(feats):
    out = []
    for sid, ty, st, en, sd, attr in feats:
        out.append((sid, ty, FakeFeature("f", st, en, sd, {} if attr is None else {"exon_id": list(attr)})))
    return FakeDB(out)

def storage_case(ctx, has_db, chr_id, feats, keys):
    from src.id_policy import FeatureIdStorage, SimpleIDDistributor
    st = FeatureIdStorage(SimpleIDDistributor(), make_exon_db(feats) if has_db else None, chr_id, "exon")
    out = []; types_ = set()
    for k in keys:
        v = st.get_id(k[0], (k[1], k[2], "exon"), k[3]); types_.add(type(v).__name__); out.append("%s" % v)
    term = "((%s, %s, %s, %s), %s)" % (cbool(has_db), cs(chr_id), clist(feats, cdbe), clist(keys, ckey), cstrs(out))
    return term, {"has_db": has_db, "chr": chr_id, "reference_features": feats, "queries": keys, "returned(as printed)": out, "returned_types": sorted(types_)}

REF_CONFIGS = [
    ("no database", False, []),
    ("empty database", True, []),
    ("reference ids", True, [("c", "exon", 10, 20, "+", ["ENSE01"]), ("c", "exon", 30, 40, "-", ["ENSE02"]), ("c", "exon", 50, 60, "+", None), ("d", "exon", 10, 20, "+", ["ENSE09"])]),
    ("IsoQuant-made ids", True, [("c", "exon", 10, 20, "+", ["c.1"]), ("c", "exon", 70, 80, "+", ["c.2"]), ("c", "exon", 90, 95, "-", ["c.4"]), ("c", "CDS", 30, 40, "+", ["c.3"])]),
    ("bare-number ids of the unrepaired code", True, [("c", "exon", 10, 20, "+", ["1"]), ("c", "exon", 30, 40, "+", ["c.1"]), ("c", "exon", 70, 80, "+", ["2"])]),
    ("one exon, two ids; one id, two exons", True, [("c", "exon", 10, 20, "+", ["A"]), ("c", "exon", 10, 20, "+", ["B"]), ("c", "exon", 30, 40, "+", ["S"]), ("c", "exon", 30, 40, "-", ["S"])]),
    ("empty attribute lists", True, [("c", "exon", 10, 20, "+", []), ("c", "exon", 30, 40, "+", ["c.1", "ignored"])]),
]
KEY_POOL = [("c", 10, 20, "+"), ("c", 10, 20, "-"), ("c", 30, 40, "+"), ("c", 50, 60, "+")]

def corr_storage(ctx, quick):
    rnd = ctx.rnd
    pre = PRE + "Definition tc (c:(bool * str * list db_exon * list key) * list str) := c.\nDefinition check := storage_check.\nDefinition prop := storage_prop.\n"
    cases = []
    maxlen = 5 if quick else 6
    for name, has_db, feats in REF_CONFIGS:
        for n in range(1, maxlen + 1):
            for keys in itertools.product(KEY_POOL, repeat=n):
                if quick and n == 5 and rnd.random() < .5: continue
                cases.append(storage_case(ctx, has_db, "c", feats, list(keys)))
    for _ in range(800 if quick else 5000):
        chr_id = rnd.choice(["c", "chr1_KI270.1", "9"])
        coords = [(10 * k, 10 * k + rnd.randint(1, 9)) for k in range(1, 9)]
        feats = []
        for _k in range(rnd.randint(0, 8)):
            a, b = rnd.choice(coords); r = rnd.random()
            attr = None if r < .15 else [] if r < .2 else [rnd.choice(["%s.%d" % (chr_id, rnd.randint(1, 6)), "E%d" % rnd.randint(1, 4), "%d" % rnd.randint(1, 4)])]
            feats.append((chr_id if rnd.random() < .85 else "other", "exon" if rnd.random() < .85 else "CDS", a, b, rnd.choice("+-."), attr))
        keys = [(chr_id if rnd.random() < .9 else "other",) + rnd.choice(coords) + (rnd.choice("+-."),) for _k in range(rnd.randint(1, 30))]
        cases.append(storage_case(ctx, True, chr_id, feats, keys))
    ctx.rule("FeatureIdStorage (SimpleIDDistributor, fake gene database) under %d reference configurations x every query sequence of <= %d calls over 4 keys (exhaustive; half of length 5 in the quick tier), + random databases with IsoQuant-made / bare / foreign ids and up to 30 queries; non-trivial = some key queried twice" % (len(REF_CONFIGS), maxlen))
    m, v = ctx.corr("feature-id-storage", pre, typed(cases), nontrivial=lambda o: len(set(map(tuple, o["queries"]))) < len(o["queries"]))
    ctx.corr_report("feature-id-storage", m, v)


# ------------------------------------------------------------------ construct_fl_isoforms / generate_monoexon_from_clustered on stubs
def plant_text(rnd, n, introns_kinds, lower=0.0):
    s = [rnd.choice("ACGT") for _ in range(n)]
    for (l, r), kind in introns_kinds:
        d, a = {"+": ("GT", "AG"), "-": ("CT", "AC"), "gc": ("GC", "AG"), "at": ("AT", "AC"), "rgc": ("CT", "GC"), "rat": ("GT", "AT"), "n": ("AA", "CC"), "half": ("GT", "CC")}[kind]
        s[l - 1:l + 1] = d; s[r - 2:r] = a
    s = "".join(s)
    if lower: s = "".join(ch.lower() if rnd.random() < lower else ch for ch in s)
    return s

def gen_fl_world(rnd):
    """a small locus: intron pool with planted sites, annotated isoforms, paths"""
    from src.intron_graph import VERTEX_polya, VERTEX_polyt, VERTEX_read_end, VERTEX_read_start
    n_int = rnd.randint(2, 5); pos = 8; pool = []
    for k in range(n_int):
        ln = rnd.randint(6, 12); pool.append((pos, pos + ln - 1)); pos += ln + rnd.randint(5, 9)
    L = pos + 10
    kinds = [(i, rnd.choice(["+", "+", "-", "-", "gc", "at", "rgc", "rat", "n", "half"])) for i in pool]
    text = plant_text(rnd, L, kinds, lower=rnd.choice([0, 0, 0.3, 1.0]))
    genes = ["G1", "G2"][:rnd.randint(0, 2)]
    gene_strands = {g: rnd.choice("+-") for g in genes}
    isoforms = []
    for k in range(rnd.randint(0, 3) if genes else 0):
        g = rnd.choice(genes); ints = sorted(rnd.sample(pool, rnd.randint(1, len(pool))))
        isoforms.append(("T%d" % k, gene_strands[g] if rnd.random() < .85 else rnd.choice("+-."), g, ints))
    known = set(i for t in isoforms for i in t[3])
    if rnd.random() < .15 and pool: known.add(rnd.choice(pool))
    paths = []; seen = set()
    for k in range(rnd.randint(1, 4)):
        ints = tuple(sorted(rnd.sample(pool, rnd.randint(1, min(3, len(pool))))))
        start = ints[0][0] - rnd.randint(2, 6); end = ints[-1][1] + rnd.randint(2, 6)
        if (start, ints, end) in seen: continue
        seen.add((start, ints, end))
        p = ((rnd.choice([VERTEX_polyt, VERTEX_read_start, VERTEX_read_start]), start),) + ints + ((rnd.choice([VERTEX_polya, VERTEX_read_end, VERTEX_read_end]), end),)
        paths.append((p, rnd.randint(1, 5)))
    return text, isoforms, gene_strands, known, paths

def cparams(p):
    from src.graph_based_model_construction import StrandnessReportingLevel as L
    lv = {L.only_canonical: "OnlyCanonical", L.only_stranded: "OnlyStranded", L.all: "ReportAll"}[p.report_canonical_strategy]
    return "{| min_novel_count := %s; min_known_count := %s; require_monointronic_polya := %s; report_level := %s |}" % (cz(p.min_novel_count), cz(p.min_known_count), cbool(p.require_monointronic_polya), lv)

def fl_cases(ctx, n_worlds):
    """shared with C18: runs the REAL construct_fl_isoforms; returns list of (coq term, replay object)"""
    from src.id_policy import ExcludingIdDistributor
    from src.graph_based_model_construction import StrandnessReportingLevel as L
    from src.intron_graph import VERTEX_polya, VERTEX_polyt
    rnd = ctx.rnd; cases = []
    GI = {"G1": 1, "G2": 2}
    for _ in range(n_worlds):
        chr_id = rnd.choice(["chrA", "chr1_KI270.1", "9"])
        has_db = rnd.random() < .7
        feats = []
        for _k in range(rnd.randint(0, 8)):
            sid = chr_id if rnd.random() < .8 else "other"; num = rnd.randint(1, 8)
            feats.append((sid, 1, "transcript%d.%s%s" % (num, sid, rnd.choice([".nic", ".nnic"]))) if rnd.random() < .5 else (sid, 0, "novel_gene_%s_%d" % (sid, num)))
        dist = ExcludingIdDistributor(make_db(feats) if has_db else None, chr_id)
        for locus in range(rnd.randint(1, 2)):          # the distributor is shared by the loci of a chromosome
            text, isoforms, gene_strands, known, paths = gen_fl_world(rnd)
            params = types.SimpleNamespace(min_novel_count=rnd.choice([1, 2, 3]), min_known_count=rnd.choice([1, 2]), require_monointronic_polya=rnd.random() < .4,
                                           report_canonical_strategy=rnd.choice([L.only_canonical, L.only_stranded, L.all]), use_technical_replicas=False)
            empty = (not isoforms) or rnd.random() < .1
            c = make_constructor(chr_id, text, isoforms, gene_strands, empty, known, params, dist)
            v0 = dist.value
            matching = set(p for p, _ in paths if rnd.random() < .15)
            in_known = set(p[1:-1] for p, _ in paths if rnd.random() < .1)
            res = run_fl(c, paths, matching, in_known)
            counts = dict(paths)
            cpaths = []; couts = []
            for p, o in res:
                cpaths.append("{| p_count := %s; p_polyt := %s; p_polya := %s; p_introns := %s; p_matching := %s; p_in_known := %s |}" % (
                    cz(counts[p]), cbool(p[0][0] == VERTEX_polyt), cbool(p[-1][0] == VERTEX_polya), cintrons(p[1:-1]), cbool(p in matching), cbool(p[1:-1] in in_known)))
                if o is None: couts.append("NoModel")
                elif o[0] == "known": couts.append("Known")
                else:
                    _, strand, tid, gid, tname = o
                    gene = "(RefGene %d)" % GI[gid] if gid in GI else "(NovelGene %s)" % cs(gid)
                    couts.append("(Novel %s %s %s %s)" % (cstrand(strand), cs(tid), gene, cbool(tname == "novel_in_catalog")))
            sd = c.strand_detector.strand_dict
            ciso = clist(isoforms, lambda t: "(%s, %s, %s)" % (cstrand(t[1]), cz(GI[t[2]]), cintrons(t[3])))
            term = "((%s, %s, (%s, %s, %s), %s, (%s, %s, %s), %s, %s), (%s, %s, %s))" % (
                cs(text), cparams(params), cbool(empty), clist(sorted(gene_strands.items()), lambda e: "(%d, %s)" % (GI[e[0]], cstrand(e[1]))), cintrons(sorted(known)),
                ciso, cbool(has_db), cs(chr_id), clist(feats, cdbf), cz(v0), clist(cpaths),
                clist(couts), cz(dist.value), clist(sorted(sd.items()), lambda e: "(%s, %s)" % (civ(e[0]), cstrand(e[1]))))
            cases.append((term, {"chr": chr_id, "reference_text": text, "isoforms(tid,strand,gene,introns)": isoforms, "gene_strands": gene_strands, "known_introns": sorted(known),
                                 "empty": empty, "params": {k: str(v) for k, v in vars(params).items()}, "db(seqid,kind,id)": feats if has_db else None, "start_value": v0,
                                 "paths_in_processing_order": [(list(p), counts[p], p in matching, p[1:-1] in in_known) for p, _ in res], "impl": [o for _, o in res], "final_value": dist.value,
                                 "strand_dict": sorted(sd.items())}))
    return cases

def mono_cases(ctx, n):
    from src.id_policy import ExcludingIdDistributor
    from src.gene_info import TranscriptModel, TranscriptModelType
    rnd = ctx.rnd; cases = []
    for _ in range(n):
        chr_id = rnd.choice(["chrA", "chr1_KI270.1", "9"]); has_db = rnd.random() < .7
        feats = []
        for _k in range(rnd.randint(0, 8)):
            num = rnd.randint(1, 8)
            feats.append((chr_id, 1, "transcript%d.%s.nnic" % (num, chr_id)) if rnd.random() < .5 else (chr_id, 0, "novel_gene_%s_%d" % (chr_id, num)))
        dist = ExcludingIdDistributor(make_db(feats) if has_db else None, chr_id)
        for _k in range(rnd.randint(0, 3)): dist.increment()
        cutoff = rnd.choice([1, 2, 3])
        c = make_constructor(chr_id, "ACGT" * 10, [], {}, True, [], types.SimpleNamespace(min_novel_count=cutoff), dist)
        existing = []
        for _k in range(rnd.randint(0, 2)):
            a = rnd.randint(1, 150); ex = [(a, a + rnd.randint(5, 60))]
            if rnd.random() < .5: ex.append((ex[0][1] + 20, ex[0][1] + 50))
            existing.append(ex); c.transcript_model_storage.append(TranscriptModel(chr_id, "+", "old%d" % _k, "g", ex, TranscriptModelType.known))
        forward = rnd.random() < .5; v0 = dist.value
        clustered = collections.OrderedDict(); ccl = []
        for _k in range(rnd.randint(1, 4)):
            three = rnd.randint(20, 200)
            if three in clustered: continue
            reads = []
            for _r in range(rnd.randint(1, 4)):
                if forward: a = three - rnd.randint(5, 80); b = three
                else: a = three; b = three + rnd.randint(5, 80)
                reads.append(types.SimpleNamespace(read_id="r%d_%d" % (three, _r), corrected_exons=[(max(1, a), b)], cluster=three))
            clustered[three] = reads
            ccl.append("{| c_three := %s; c_reads := %s |}" % (cz(three), clist(reads, lambda r: civ((r.corrected_exons[0][0], r.corrected_exons[-1][1])))))
        before = len(c.transcript_model_storage)
        c.generate_monoexon_from_clustered(clustered, forward)
        made = {}
        for m in c.transcript_model_storage[before:]:
            made[c.transcript_read_ids[m.transcript_id][0].cluster] = m
        couts = []; outs = []
        for three, reads in clustered.items():
            if three in made:
                m = made[three]; couts.append("(Mono %s %s %s %s)" % (cstrand(m.strand), cs(m.transcript_id), cs(m.gene_id), civ(m.exon_blocks[0]))); outs.append((m.strand, m.transcript_id, m.gene_id, m.exon_blocks))
            elif len(reads) < cutoff: couts.append("MonoNone"); outs.append(None)
            else: couts.append("MonoSkipped"); outs.append("skipped")
        term = "((%s, (%s, %s, %s), %s, %s, %s, %s), (%s, %s))" % (cz(cutoff), cbool(has_db), cs(chr_id), clist(feats, cdbf), cbool(forward), cz(v0),
                                                                  clist(existing, cintrons), clist(ccl), clist(couts), cz(dist.value))
        cases.append((term, {"chr": chr_id, "db(seqid,kind,id)": feats if has_db else None, "cutoff": cutoff, "forward": forward, "start_value": v0, "existing_models": existing,
                             "clusters": {k: [r.corrected_exons for r in v] for k, v in clustered.items()}, "impl": outs, "final_value": dist.value}))
    return cases

def corr_constructor(ctx, quick):
    pre = PRE + "Definition tc (c:fl_input * (list fl_out * Z * sdict)) := c.\nDefinition check := fl_check.\nDefinition prop := fl_ids_prop.\n"
    cases = fl_cases(ctx, 700 if quick else 5000)
    ctx.rule("construct_fl_isoforms (REAL method; path storage, profile constructor and assigner stubbed) on random loci: 2-5 introns with planted splice sites, 0-3 annotated isoforms, 1-4 paths, all three reporting levels, a shared ExcludingIdDistributor over fake databases with IsoQuant-made ids; non-trivial = a novel model was reported")
    m, v = ctx.corr("construct_fl_isoforms-ids", pre, typed(cases), shard=200, nontrivial=lambda o: any(x and x[0] == "novel" for x in o["impl"]))
    ctx.corr_report("construct_fl_isoforms-ids", m, v)
    pre = PRE + "Definition tc (c:mono_input * (list mono_out * Z)) := c.\nDefinition check := mono_check.\nDefinition prop := mono_prop.\n"
    cases = mono_cases(ctx, 600 if quick else 4000)
    ctx.rule("generate_monoexon_from_clustered (REAL method) on random read clusters, cut-offs 1-3, existing overlapping models; non-trivial = a model was reported")
    m, v = ctx.corr("generate_monoexon-ids", pre, typed(cases), shard=200, nontrivial=lambda o: any(isinstance(x, tuple) for x in o["impl"]))
    ctx.corr_report("generate_monoexon-ids", m, v)


# ------------------------------------------------------------------ GFFPrinter.dump: the exon_id attributes of two printers sharing a storage
def corr_printer(ctx, quick):
    from src.id_policy import FeatureIdStorage, SimpleIDDistributor
    from src.transcript_printer import GFFPrinter
    from src.gene_info import TranscriptModel, TranscriptModelType
    rnd = ctx.rnd
    pre = PRE + "Definition tc (c:(bool * str * list db_exon * list key) * list str) := c.\nDefinition check := storage_check.\nDefinition prop := storage_prop.\n"
    cases = []; d = tempfile.mkdtemp(prefix="iqv_c17_gff_")
    try:
        for it in range(150 if quick else 1000):
            chr_id = rnd.choice(["chrA", "chr1_KI270.1"])
            coords = [(100 * k, 100 * k + rnd.randint(10, 60)) for k in range(1, 8)]
            feats = []
            for a, b in rnd.sample(coords, rnd.randint(0, 5)):
                feats.append((chr_id, "exon", a, b, rnd.choice("+-"), [rnd.choice(["%s.%d" % (chr_id, rnd.randint(1, 5)), "ENSE%d" % rnd.randint(1, 9)])]))
            has_db = rnd.random() < .8
            storage = FeatureIdStorage(SimpleIDDistributor(), make_exon_db(feats) if has_db else None, chr_id, "exon")
            p1 = GFFPrinter(d, "s%d" % it, storage); p2 = GFFPrinter(d, "s%d" % it, storage, gtf_suffix=".extended_annotation.gtf", output_r2t=False)
            gi = types.SimpleNamespace(chr_id=chr_id, empty=lambda: True, feature_attributes={}, sources={})
            all_models = []
            for call in range(rnd.randint(1, 3)):
                models = []
                for k in range(rnd.randint(1, 3)):
                    ex = sorted(rnd.sample(coords, rnd.randint(1, 4))); strand = rnd.choice("+-")
                    other = [(ex[0][0], ex[0][1], "CDS")] if rnd.random() < .3 else []
                    m = TranscriptModel(chr_id, strand, "t%d_%d" % (call, k), "g%s%d" % ("p" if strand == "+" else "m", rnd.randint(1, 2)), ex, TranscriptModelType.novel_not_in_catalog, other_features=other)
                    models.append(m)
                p1.dump(gi, models); all_models += models
            p2.dump(gi, all_models)
            keys = []; ids = []
            for fn in (p1.model_fname, p2.model_fname):
                for l in open(fn):
                    v = l.rstrip("\n").split("\t")
                    if v[2] in ("gene", "transcript"): continue
                    a = dict(re.findall(r'(\S+) "([^"]*)"', v[8]))
                    keys.append((v[0], int(v[3]), int(v[4]), v[6])); ids.append(a.get("exon_id", "<missing>"))
            del p1, p2
            term = "((%s, %s, %s, %s), %s)" % (cbool(has_db), cs(chr_id), clist(feats, cdbe), clist(keys, ckey), cstrs(ids))
            cases.append((term, {"chr": chr_id, "reference_features": feats if has_db else None, "printed_lines(key)": keys, "printed_exon_id": ids}))
    finally:
        shutil.rmtree(d, ignore_errors=True)
    ctx.rule("GFFPrinter.dump (REAL printers for the models file and the extended annotation sharing one FeatureIdStorage) on random models with shared exons, CDS features, both strands: the exon_id attribute of every printed feature line, in file order, against get_id replayed on the printed keys")
    m, v = ctx.corr("gff-printer-exon-ids", pre, typed(cases), shard=100, nontrivial=lambda o: len(set(o["printed_lines(key)"])) < len(o["printed_lines(key)"]))
    ctx.corr_report("gff-printer-exon-ids", m, v)


# ------------------------------------------------------------------ round 3: one worker per chromosome, one database
PRE_X = "From IQ Require Import Ids IdsSpec IdsMulti IdsMultiSpec.\nOpen Scope Z_scope.\n"

OTHER_CHR_KEY = "C17:reference-id-names-other-chromosome"

def report_exon_collisions(ctx, o):
    """every exon id returned for keys of two different chromosomes is a violation of 'distinct exons carry distinct IDs across all
    chromosomes'.  Structural key: the id is an exon_id attribute of a reference exon located on chromosome A, its text is <B>.<n> for
    another chromosome B, and the storage of B issued it for an exon that is not a reference exon of B carrying that id."""
    feats = o["reference_features"]; queries = o["queries(chr,keys)"]; outs = o["returned"]
    for (c1, k1), a in zip(queries, outs):
        for (c2, k2), b in zip(queries, outs):
            if c1 == c2: continue
            for key_b, v in zip(k2, b):
                if v not in a: continue
                key_a = k1[a.index(v)]
                ref_a = any(sid == c1 and ty == "exon" and attr and attr[0] == v and (sid, st, en, sd) == tuple(key_a) for sid, ty, st, en, sd, attr in feats)
                ref_on_b = any(sid == c2 and ty == "exon" and attr and attr[0] == v for sid, ty, st, en, sd, attr in feats)
                m = re.fullmatch(r"(.*)\.(\d+)", v)
                named = m is not None and m.group(1) == c2 and v == "%s.%d" % (c2, int(m.group(2)))
                structural = ref_a and not ref_on_b and named and c1 != c2
                if not structural and not (c1 < c2): continue          # report an unclassified pair once
                ctx.violation(OTHER_CHR_KEY if structural else None,
                              "exon id %r is carried by the reference exon %r of chromosome %s and issued again by the FeatureIdStorage of chromosome %s for the new exon %r" % (v, tuple(key_a), c1, c2, tuple(key_b))
                              if structural else "exon id %r is returned for exons of two chromosomes: %r and %r" % (v, tuple(key_a), tuple(key_b)),
                              {"correspondence": "exon-ids-across-chromosomes", "case": o})

def report_distributor_collisions(ctx, o):
    """an id built from an issued number that is an id of the reference violates 'novel IDs never collide with IDs present in the reference
    annotation'.  Structural key: the reference id has IsoQuant's generated shape naming chromosome B, is located on another chromosome A only,
    and the number was issued by the distributor of B."""
    feats = o["features(seqid,kind,id)"]; queries = o["queries(chr,n)"]; outs = o["issued"]
    for (c, _), xs in zip(queries, outs):
        for x in xs:
            for kinds, ids in (((1, 2), ["transcript%d.%s.nic" % (x, c), "transcript%d.%s.nnic" % (x, c)]), ((0,), ["novel_gene_%s_%d" % (c, x)])):
                for i in ids:
                    where = sorted(set(sid for sid, kind, fid in feats if kind in kinds and fid == i))
                    if not where: continue
                    structural = c not in where            # the colliding reference id sits only on chromosomes other than the one its text names
                    ctx.violation(OTHER_CHR_KEY if structural else None,
                                  "the ExcludingIdDistributor of chromosome %s issues %d although the reference id %r (located on %s) is built from it" % (c, x, i, ", ".join(where)),
                                  {"correspondence": "distributors-across-chromosomes", "case": o})


def corr_cross_chromosome(ctx, quick):
    """REAL FeatureIdStorage / ExcludingIdDistributor objects, one per chromosome, over ONE fake database holding all chromosomes"""
    from src.id_policy import FeatureIdStorage, SimpleIDDistributor, ExcludingIdDistributor
    rnd = ctx.rnd
    # --- exon ids
    pre = PRE_X + "Definition tc (c:(list db_exon * list (str * list key)) * list (list str)) := c.\nDefinition check := cross_storage_check.\nDefinition prop := cross_storage_prop.\n"
    cases = []
    def storages(feats, queries, note=None):
        outs = []
        for chr_id, keys in queries:
            st = FeatureIdStorage(SimpleIDDistributor(), make_exon_db(feats), chr_id, "exon")
            outs.append(["%s" % st.get_id(k[0], (k[1], k[2], "exon"), k[3]) for k in keys])
        collisions = sorted(set(a) & set(b) for (c1, _), a in zip(queries, outs) for (c2, _), b in zip(queries, outs) if c1 < c2 and set(a) & set(b))
        term = "((%s, %s), %s)" % (clist(feats, cdbe), clist(queries, lambda q: "(%s, %s)" % (cs(q[0]), clist(q[1], ckey))), clist(outs, cstrs))
        cases.append((term, {"reference_features": feats, "queries(chr,keys)": queries, "returned": outs, "ids_shared_between_chromosomes": [sorted(x) for x in collisions], "note": note}))
        return outs
    # the witnesses of IdsMulti.v on the real class
    w = storages([("chrA", "exon", 100, 200, "+", ["chrB.1"]), ("chrB", "exon", 500, 600, "+", ["ENSE7"])],
                 [("chrA", [("chrA", 100, 200, "+")]), ("chrB", [("chrB", 700, 800, "+")])], "C17_exon_ids_across_chromosomes_without_cross_clean_refuted")
    if w != [["chrB.1"], ["chrB.1"]]: ctx.broken("witness:exon-ids-across-chromosomes", "the implementation no longer reproduces the model's witness: %r" % (w,))
    report_exon_collisions(ctx, cases[-1][1])
    storages([("chrA", "exon", 100, 200, "+", ["ENSE7"]), ("chrB", "exon", 100, 200, "+", ["ENSE7"])],
             [("chrA", [("chrA", 100, 200, "+")]), ("chrB", [("chrB", 100, 200, "+")])], "C17_exon_ids_shared_reference_id_refuted")
    storages([], [("chr1", [("chr1", 10, 20, "+"), ("chr1", 30, 40, "+"), ("chr1", 50, 60, "+")]), ("chr1.2", [("chr1.2", 10, 20, "+"), ("chr1.2", 30, 40, "+")])], "C17_dotted_chromosome_names_example")
    names = ["chr1", "chr1.2", "chr1.2.3", "1", "1.1", "chr1_2", "chrA", "c"]
    for _ in range(500 if quick else 4000):
        chrs = rnd.sample(names, rnd.randint(2, 3))
        coords = [(10 * k, 10 * k + rnd.randint(1, 9)) for k in range(1, 9)]
        mode = rnd.choice(["none", "isoquant", "isoquant", "foreign", "mixed"])
        feats = []
        for c in chrs:
            for _k in range(rnd.randint(0, 5)):
                a, b = rnd.choice(coords)
                if mode == "none": attr = None
                elif mode == "isoquant": attr = ["%s.%d" % (c, rnd.randint(1, 6))]
                elif mode == "foreign": attr = ["E%d" % rnd.randint(1, 12)]
                else: attr = [rnd.choice(["%s.%d" % (rnd.choice(chrs), rnd.randint(1, 4)), "E%d" % rnd.randint(1, 4), "%d" % rnd.randint(1, 3)])]
                feats.append((c, "exon", a, b, rnd.choice("+-"), attr))
        queries = [(c, [(c,) + rnd.choice(coords) + (rnd.choice("+-"),) for _k in range(rnd.randint(1, 10))]) for c in chrs]
        storages(feats, queries, mode)
    ctx.rule("FeatureIdStorage, one REAL object per chromosome over one fake database with 2-3 chromosomes whose names are prefixes of one another with '.', '_' and digits (chr1, chr1.2, chr1.2.3, 1, 1.1, chr1_2): references without exon_id, IsoQuant-made (<chr>.<n> at home), foreign (E<n>, possibly repeated across chromosomes), mixed (<other chr>.<n>, bare numbers); the three witnesses of IdsMulti.v first; specification = C17_exon_ids_across_chromosomes under the decidable cross_clean_b (sound by IdsMultiSpec.cross_clean_b_sound); non-trivial = cross_clean_b holds for the pair and both chromosomes issue new ids")
    m, v = ctx.corr("exon-ids-across-chromosomes", pre, typed(cases), shard=200,
                    nontrivial=lambda o: not o["ids_shared_between_chromosomes"] and o["note"] in ("none", "isoquant", "foreign") and len(o["returned"]) > 1)
    ctx.corr_report("exon-ids-across-chromosomes", m, v)
    ctx.notes.append("exon-ids-across-chromosomes: %d of %d cases have an id shared between two chromosomes (all outside cross_clean: the model predicts each of them)" % (
        sum(1 for _, o in cases if o["ids_shared_between_chromosomes"]), len(cases)))
    # --- transcript / gene numbers
    pre = PRE_X + "Definition tc (c:(list db_feature * list (str * Z)) * list (list Z)) := c.\nDefinition check := cross_distributor_check.\nDefinition prop := cross_distributor_prop.\n"
    cases = []
    def distributors(feats, queries, note=None):
        outs = []
        for chr_id, n in queries:
            d = ExcludingIdDistributor(make_db(feats), chr_id); outs.append([d.increment() for _ in range(n)])
        ref_t = set(f[2] for f in feats if f[1] in (1, 2)); ref_g = set(f[2] for f in feats if f[1] == 0)
        hits = sorted(i for (c, _), xs in zip(queries, outs) for x in xs for i in ("transcript%d.%s.nic" % (x, c), "transcript%d.%s.nnic" % (x, c)) if i in ref_t) + \
               sorted(i for (c, _), xs in zip(queries, outs) for x in xs for i in ["novel_gene_%s_%d" % (c, x)] if i in ref_g)
        term = "((%s, %s), %s)" % (clist(feats, cdbf), clist(queries, lambda q: "(%s, %s)" % (cs(q[0]), cz(q[1]))), clist(outs, czs))
        cases.append((term, {"features(seqid,kind,id)": feats, "queries(chr,n)": queries, "issued": outs, "generated_ids_present_in_reference": hits, "note": note}))
        return outs
    w = distributors([("chrA", 1, "transcript1.chrB.nic"), ("chrA", 0, "novel_gene_chrB_2"), ("chrB", 1, "ENST1")], [("chrB", 2), ("chrA", 2)], "C17_novel_ids_without_home_ok_refuted")
    if w != [[1, 2], [3, 4]]: ctx.broken("witness:distributors-across-chromosomes", "the implementation no longer reproduces the model's witness: %r" % (w,))
    report_distributor_collisions(ctx, cases[-1][1])
    names = ["chr1", "chr1.2", "1", "1_2", "chr1_2", "chrA", "c", "c.nic"]
    for _ in range(700 if quick else 5000):
        chrs = rnd.sample(names, rnd.randint(2, 3)); feats = []
        misplace = rnd.random() < .3
        for c in chrs:
            for _k in range(rnd.randint(0, 7)):
                home = rnd.choice(chrs) if misplace and rnd.random() < .4 else c; num = rnd.randint(1, 8); r = rnd.random()
                if r < .4: feats.append((c, rnd.choice([1, 1, 2]), "transcript%d.%s%s" % (num, home, rnd.choice([".nic", ".nnic"]))))
                elif r < .75: feats.append((c, 0, "novel_gene_%s_%d" % (home, num)))
                elif r < .85: feats.append((c, 1, rnd.choice(T_POOL)))
                elif r < .95: feats.append((c, 0, rnd.choice(G_POOL)))
                else: feats.append((c, 3, "transcript%d.%s.nic" % (num, c)))
        distributors(feats, [(c, rnd.randint(1, 10)) for c in chrs], "misplaced" if misplace else "home")
    ctx.rule("ExcludingIdDistributor, one REAL object per chromosome over one fake database with 2-3 chromosomes (names with '.', '_', digits, even 'c.nic'): IsoQuant-made transcript / gene ids at home, in 30% of the databases some on another chromosome, near misses from the C17 pools; the witness of IdsMulti.v first; specification = C17_novel_ids_not_in_whole_reference under the decidable home_ok_b: no id built from an issued number is an id of the database on ANY chromosome; non-trivial = home_ok_b holds and a number was skipped")
    m, v = ctx.corr("distributors-across-chromosomes", pre, typed(cases), shard=200,
                    nontrivial=lambda o: o["note"] == "home" and any(xs != list(range(1, len(xs) + 1)) for xs in o["issued"]))
    ctx.corr_report("distributors-across-chromosomes", m, v)
    ctx.notes.append("distributors-across-chromosomes: %d of %d cases issue a number whose id exists on another chromosome of the reference (all outside home_ok: the model predicts each of them)" % (
        sum(1 for _, o in cases if o["generated_ids_present_in_reference"]), len(cases)))


# ------------------------------------------------------------------ pipeline: ids_ok on real runs, first and second generation
def ids_key(o):
    return None

def write_subset_bam(src, dst, keep):
    import pysam
    with pysam.AlignmentFile(src) as f, pysam.AlignmentFile(dst, "wb", template=f) as out:
        for i, a in enumerate(f):
            if keep(i, a): out.write(a)
    pysam.index(dst)

def pipeline(ctx, quick):
    import pipeline as P, gen_data
    from concurrent.futures import ThreadPoolExecutor
    root = P.scratch("iqv_c17_")
    pre = PRE + "Definition tc (c:gtf * gtf * gtf) := c.\nDefinition check (c:gtf * gtf * gtf) := true.\nDefinition prop (c:gtf * gtf * gtf) := let '(r, m, e) := c in ids_ok r m e.\n"
    try:
        jobs = []
        # bundled data: generation 1 on every second read, generation 2 on all reads with the extended annotation of generation 1
        b = P.bundled(os.path.join(root, "bundled"))
        half = os.path.join(root, "bundled", "half.bam"); write_subset_bam(b["bam"], half, lambda i, a: i % 2 == 0)
        jobs.append(dict(name="bundled", fasta=b["fasta"], gtf=b["gtf"], bam1=half, bam2=b["bam"], extra=["--complete_genedb"]))
        for seed in ([11] if quick else [11, 12, 13, 14]):
            w = gen_data.World(ctx.seed * 1000 + seed, n_chr=2, lower_frac=0.0); w.reads_from_annotation(per_isoform=3); w.novel_reads(per_gene=5)
            allreads = list(w.reads)
            genes_with_novel = sorted(set(r["name"].split("_")[1] + "_" + r["name"].split("_")[2] for r in allreads if r["name"].startswith("novel_")))
            first = set(genes_with_novel[::2])
            dd = os.path.join(root, "gen%d" % seed)
            w.reads = [r for r in allreads if not r["name"].startswith("novel_") or (r["name"].split("_")[1] + "_" + r["name"].split("_")[2]) in first]
            p1 = w.write(os.path.join(dd, "g1"))[0]
            w.reads = allreads
            p2 = w.write(os.path.join(dd, "g2"))[0]
            # give the reference exon_id attributes (a function of the exon) on every second gene
            gtf = os.path.join(dd, "g1", "annotation.gtf"); lines = []; eid = {}
            for l in open(gtf):
                v = l.rstrip("\n").split("\t")
                if v[2] == "exon" and sum(map(ord, v[8].split('"')[1])) % 2 == 0:
                    k = (v[0], v[3], v[4], v[6]); eid.setdefault(k, "REFEX%05d" % (len(eid) + 1)); l = l.rstrip("\n") + ' exon_id "%s";\n' % eid[k]
                lines.append(l)
            open(gtf, "w").writelines(lines)
            jobs.append(dict(name="generated-%d" % seed, fasta=os.path.join(dd, "g1", "genome.fa"), gtf=gtf, bam1=p1, bam2=p2, extra=["--complete_genedb"]))
        def run(job):
            res = []
            out1 = os.path.join(root, job["name"] + "_gen1"); os.makedirs(out1)
            rc, log = P.run_isoquant(out1, ["--bam", job["bam1"], "-r", job["fasta"], "-g", job["gtf"], "-d", "nanopore", "-p", "S", "-t", "2"] + job["extra"])
            if rc != 0: return job, [("gen1", rc, log[-1500:], None)]
            m1 = os.path.join(out1, "S", "S.transcript_models.gtf"); e1 = os.path.join(out1, "S", "S.extended_annotation.gtf")
            res.append(("gen1", 0, job["gtf"], (m1, e1)))
            out2 = os.path.join(root, job["name"] + "_gen2"); os.makedirs(out2)
            rc, log = P.run_isoquant(out2, ["--bam", job["bam2"], "-r", job["fasta"], "-g", e1, "-d", "nanopore", "-p", "S", "-t", "2"] + job["extra"])
            if rc != 0: return job, res + [("gen2", rc, log[-1500:], None)]
            res.append(("gen2", 0, e1, (os.path.join(out2, "S", "S.transcript_models.gtf"), os.path.join(out2, "S", "S.extended_annotation.gtf"))))
            return job, res
        cases = []
        with ThreadPoolExecutor(4) as ex:
            for job, res in ex.map(run, jobs):
                for gen, rc, ref, outs in res:
                    ctx.cov["pipeline_runs"] += 1
                    if rc != 0:
                        ctx.violation(None, "IsoQuant exits with %d (%s, %s)" % (rc, job["name"], gen), {"job": job["name"], "generation": gen, "log_tail": ref}); continue
                    r = parse_gtf_ordered(ref); m = parse_gtf_ordered(outs[0]); e = parse_gtf_ordered(outs[1])
                    novel = [t["id"] for t in m["trs"] if t["id"] not in set(x["id"] for x in r["trs"])]
                    keep = os.path.join(VERIF, "out", "replays", "C17_%s_%s" % (job["name"], gen))
                    cases.append(("(%s, %s, %s)" % (cgtf(r), cgtf(m), cgtf(e)),
                                  {"job": job["name"], "generation": gen, "novel_transcripts": novel[:20], "n_novel": len(novel), "n_exon_lines": len(m["exons"]) + len(e["exons"]),
                                   "files": (ref, outs[0], outs[1]), "keep": keep}))
        m_, v_ = ctx.corr("pipeline-ids_ok", pre, typed(cases), shard=1, nontrivial=lambda o: o["n_novel"] > 0, sample=0, timeout=900)
        for o in v_:
            # keep the offending files for the replay
            os.makedirs(o["keep"], exist_ok=True)
            for f in o["files"]:
                try: shutil.copy(f, o["keep"])
                except Exception: pass
            o["files_kept_in"] = o["keep"]
        ctx.corr_report("pipeline-ids_ok", m_, v_, what="ids_ok fails on the output GTFs")
        ctx.notes.append("pipeline: " + "; ".join("%s/%s novel=%d exon lines=%d" % (o["job"], o["generation"], o["n_novel"], o["n_exon_lines"]) for _, o in cases))
        ctx.rule("pipeline: bundled data and generated two-chromosome data sets, each run twice: generation 1 on a part of the reads against the original annotation (with exon_id attributes), generation 2 on all reads with --genedb = the extended annotation written by generation 1; both output GTFs of every run evaluated by Coq ids_ok against the run's reference; non-trivial = novel transcripts present")
    finally:
        shutil.rmtree(root, ignore_errors=True)


def run(ctx):
    quick = ctx.tier == "quick"
    ctx.prepare("C17.v")
    ctx.rule("regenerated from the source on every run (tools/translate_extra.py -> coq/gen/Extra.v; bridged to the model by C17_naming_constants_are_the_sources): TranscriptNaming.transcript_prefix, novel_gene_prefix, nic_transcript_suffix, nnic_transcript_suffix of src/common.py as byte lists")
    corr_naming(ctx)
    corr_distributor(ctx, quick)
    corr_storage(ctx, quick)
    corr_constructor(ctx, quick)
    corr_printer(ctx, quick)
    corr_cross_chromosome(ctx, quick)
    ctx.exhaustive = False
    pipeline(ctx, quick)
    ctx.assume.append("gffutils: FeatureDB.region(seqid, start, featuretype) returns the features of that chromosome and type; feature.id is the gene_id / transcript_id (ids are ASCII)")
    ctx.assume.append("the harness' GTF reader (attributes by regular expression) and its Coq-literal printers")
    ctx.assume.append("Python int() on non-ASCII digits / white space is not modelled; reference ids are assumed ASCII")
