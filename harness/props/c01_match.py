"""C01 (assigner layer): unit correspondence of the real LongReadAssigner.assign_to_isoform (profile construction included) against the
Gallina model coq/AssignerMatch.v instantiated with primitive floats (coq/AssignerMatchFloat.v).  Entry point: run_match(ctx, quick)."""
import types, collections, logging, itertools, json, os
from lib import *

PRE_MATCH = r"""From Coq Require Import QArith Floats.
From IQ Require Import Intervals Junctions AssignerDefs AssignerEndsDefs AssignerMatch AssignerMatchFloat.
From IQ.gen Require Import Tables Prims.
Open Scope Z_scope.
(* (params, minimal_intron_absence_overlap, resolve_ambiguous, isoforms, read exons, polyA info, whether the spec applies, implementation output) *)
Definition T := (params * Z * ARM * list isof * list iv * polya * outcome result)%type.
Definition mes_list_eqb := list_eqb MES_eqb.
Definition res_eqb (a b:result) : bool :=
  RAT_eqb (fst a) (fst b) && list_eqb (fun x y => (fst x =? fst y) && mes_list_eqb (snd x) (snd y)) (snd a) (snd b).
Definition model (c:T) : outcome result :=
  let '(P, absd, arm, isos, rex, pa, _) := c in
  match mk_gene isos with Some g => assign_float P absd arm g (mkRead rex pa) | None => Raises 9%N end.
Definition check (c:T) : bool := let '(_, _, _, _, _, _, out) := c in outcome_eqb res_eqb (model c) out.
(* the output specification of C01 (Assigner.judge) with EVERY isoform of the gene tried as the source the read may follow, and the
   negative clause (polyA-aware: Assigner.judge_pa with the external polyA / polyT position; reads with an internal polyA signal are not judged) *)
Definition no_polya (pa:polya) : bool := (pa_ext_a pa =? -1) && (pa_ext_t pa =? -1) && (pa_int_a pa =? -1) && (pa_int_t pa =? -1).
(* ... and when every exon and intron of the gene and of the read is longer than delta (shorter features are the subject of the C19
   findings profile-short-feature / profile-shadowed-match) *)
Definition longer (d:Z) (ex:list iv) : bool := forallb (fun e => d <? py_interval_len e) ex && forallb (fun i => d <? py_interval_len i) (jfb ex).
Definition prop (c:T) : bool :=
  let '(P, absd, arm, isos, rex, pa, out) := c in
  match out with
  | Raises _ => false
  | Ok (ty, ms) =>
    negb ((pa_int_a pa =? -1) && (pa_int_t pa =? -1)) || negb (longer (p_delta P) rex && forallb (fun t => longer (p_delta P) (i_exons t)) isos) ||
    (let ann := map (fun t => (i_id t, i_exons t)) isos in
     let strands := map (fun t => (i_id t, i_strand t)) isos in
     let po := mkPO (pa_ext_a pa) (pa_ext_t pa) in
     let rep := map fst ms in
     let ok c := match judge_pa P ann strands c po with Bad _ => false | _ => true end in
     ok (mkRC rex None ty rep) && forallb (fun t => ok (mkRC rex (Some (i_id t)) ty rep)) isos)
  end.
"""
EXC = {"IndexError": 1, "AssertionError": 3, "ZeroDivisionError": 4, "KeyError": 5, "TypeError": 6, "ValueError": 7}
ARMS = ["none", "monoexon_only", "monoexon_and_fsm", "all"]

def _c01():
    from props import c01
    return c01

def small_match_params(C, delta, arm, rnd):
    from src.long_read_assigner import AmbiguityResolvingMethod
    P = C.small_params(delta); P.count_exons = False; P.minimal_intron_absence_overlap = rnd.choice([1, 2, 3]); P.resolve_ambiguous = AmbiguityResolvingMethod[arm]
    P.min_abs_exon_overlap = rnd.choice([1, 2]); P.minimal_exon_overlap = rnd.choice([1, 2])
    return P

def real_assign(P, isoforms, strands, rex, pa):
    """isoforms: list of exon lists (ids T0..); returns ("ok", (type, [(id, [event names])])) or ("exc", k)"""
    from src.gene_info import GeneInfo, TranscriptModel, TranscriptModelType
    from src.long_read_profiles import CombinedProfileConstructor
    from src.long_read_assigner import LongReadAssigner
    from src.polya_finder import PolyAInfo
    models = [TranscriptModel("chr1", strands[i], "T%d" % i, "G", [tuple(e) for e in iso], TranscriptModelType.known) for i, iso in enumerate(isoforms)]
    gi = GeneInfo.from_models(models, P.delta)
    pc = CombinedProfileConstructor(gi, P); asg = LongReadAssigner(gi, P)
    try:
        prof = pc.construct_profiles([tuple(e) for e in rex], PolyAInfo(*pa), [])
        ra = with_timeout(asg.assign_to_isoform, "r", prof, seconds=5.0)
    except (IndexError, AssertionError, ZeroDivisionError, KeyError, TypeError, ValueError) as e:
        return ("exc", EXC[type(e).__name__])
    except ImplTimeout:
        return ("exc", 99)
    ms = []
    for m in ra.isoform_matches:
        if m.assigned_transcript is None: continue
        ms.append((int(m.assigned_transcript[1:]), [e.event_type.name for e in m.match_subclassifications]))
    return ("ok", (ra.assignment_type.name, ms))

def match_case(C, P, absd, arm, isoforms, strands, rex, pa, src):
    r = real_assign(P, isoforms, strands, rex, pa)
    if r[0] == "ok":
        out = "(Ok (RAT_%s, %s))" % (r[1][0], clist(r[1][1], lambda m: "(%d, %s)" % (m[0], clist(m[1], C.mes))) if r[1][1] else "(@nil (Z * list MES))")
    else:
        out = "(Raises %d%%N)" % r[1]
    isos = clist(list(enumerate(isoforms)), lambda it: "(mkIso %d %s %s)" % (it[0], cz(1 if strands[it[0]] == "+" else -1 if strands[it[0]] == "-" else 0), civs(it[1])))
    term = "(%s, %s, ARM_%s, %s, %s, (mkPA %s %s %s %s), %s)" % (C.cparams(P), cz(absd), arm + ("_" if arm in ("none", "all") else ""), isos, civs(rex),
                                                                 cz(pa[0]), cz(pa[1]), cz(pa[2]), cz(pa[3]), out)
    return term, dict(params={f: getattr(P, f) for f in C.PFIELDS}, absence_overlap=absd, resolve_ambiguous=arm, isoforms=isoforms, strands=strands, read=rex, polya=pa, impl=r, source=src)

def exon_lists(lo, hi, maxn):
    out = []
    def rec(start, cur):
        if cur: out.append(cur)
        if len(cur) == maxn: return
        for a in range(start, hi + 1):
            for b in range(a, hi + 1): rec(b + 2, cur + [(a, b)])
    rec(lo, []); return out

def run_match(ctx, quick):
    C = _c01(); rnd = ctx.rnd
    lg = logging.getLogger("IsoQuant"); old = lg.level; lg.setLevel(logging.ERROR)
    cases = []
    try:
        # (i) small gene models over a dozen positions, scaled tolerances: isoform sets x all short reads
        EX = exon_lists(2, 12, 3)
        n_small = 900 if quick else 12000
        for _ in range(n_small):
            k = rnd.choice([1, 2, 2, 3]); isoforms = []
            while len(isoforms) < k:
                e = rnd.choice(EX)
                if e not in isoforms: isoforms.append(e)
            isoforms.sort()
            strands = [rnd.choice("+-")] * k if rnd.random() < .8 else [rnd.choice("+-") for _i in range(k)]
            arm = rnd.choice(ARMS); delta = rnd.choice([0, 1]); P = small_match_params(C, delta, arm, rnd)
            for _r in range(3):
                if rnd.random() < .6:
                    rex = list(rnd.choice(isoforms))
                    if rnd.random() < .5 and len(rex) > 1: rex = rex[1:] if rnd.random() < .5 else rex[:-1]
                    if rnd.random() < .5: rex[0] = (min(rex[0][1], rex[0][0] + rnd.choice([-2, -1, 0, 1, 2])), rex[0][1])
                    if rnd.random() < .5: rex[-1] = (rex[-1][0], max(rex[-1][0], rex[-1][1] + rnd.choice([-2, -1, 0, 1, 2])))
                    if rex[0][0] < 1: rex[0] = (1, rex[0][1])
                else:
                    rex = rnd.choice(EX)
                if not all(a <= b for a, b in rex) or not all(x[1] + 1 < y[0] for x, y in zip(rex, rex[1:])): continue
                pr = rnd.random()
                pa = (-1, -1, -1, -1) if pr < .6 else (rex[-1][1] + rnd.choice([0, 1]), -1, -1, -1) if pr < .75 else (-1, max(1, rex[0][0] - rnd.choice([0, 1])), -1, -1) if pr < .9 else \
                     (rnd.choice([-1, rex[-1][1]]), rnd.choice([-1, rex[0][0]]), rnd.choice([-1, rex[-1][1] - 1]), rnd.choice([-1, rex[0][0] + 1]))
                cases.append(match_case(C, P, P.minimal_intron_absence_overlap, arm, isoforms, strands, rex, pa, "small"))
        # (ii) gene-like data, the four real presets (+ every resolve_ambiguous value), reads derived from the isoforms
        from src.long_read_assigner import AmbiguityResolvingMethod
        for _ in range(220 if quick else 3500):
            matching = rnd.choice(C.MATCHING); P = C.mk_params(matching)
            arm = P.resolve_ambiguous.name
            if rnd.random() < .4:
                arm = rnd.choice(ARMS); P.resolve_ambiguous = AmbiguityResolvingMethod[arm]
            isoforms = C.gene_with_isoforms(rnd)[:9]
            strand = rnd.choice("+-"); strands = [strand] * len(isoforms)
            for _r in range(5):
                rex = C.derive_read(rnd, rnd.choice(isoforms), P)
                if rex is None: continue
                pr = rnd.random()
                if pr < .5: pa = (-1, -1, -1, -1)
                elif pr < .8: pa = (rex[-1][1], -1, -1, -1) if strand == "+" else (-1, rex[0][0], -1, -1)
                else: pa = (rnd.choice([-1, rex[-1][1] + rnd.randint(-30, 5)]), rnd.choice([-1, max(1, rex[0][0] + rnd.randint(-5, 30))]), rnd.choice([-1, -1, rex[-1][1] - rnd.randint(0, 60)]), rnd.choice([-1, -1, rex[0][0] + rnd.randint(0, 60)]))
                cases.append(match_case(C, P, P.minimal_intron_absence_overlap, arm, isoforms, strands, rex, pa, "gene-like/" + matching))
    finally:
        lg.setLevel(old)
    hist = collections.Counter(o["impl"][1][0] if o["impl"][0] == "ok" else "raises-%s" % o["impl"][1] for _, o in cases)
    ctx.rule("assign_to_isoform (real GeneInfo.from_models, CombinedProfileConstructor.construct_profiles, LongReadAssigner.assign_to_isoform; model = AssignerMatch.assign with float scores): "
             "(i) 1-3 isoforms drawn from all exon lists of <= 3 exons over positions 2..12, delta 0/1, scaled tolerances, every resolve_ambiguous value, reads = isoforms / truncations / end shifts / "
             "arbitrary exon lists, polyA information absent / at the ends / internal; (ii) gene-like exon pools with up to 9 isoforms under the 4 real presets (40% with another resolve_ambiguous), "
             "reads derived by the recipes of the comparator correspondence; compared: assignment type, reported isoforms, event types per isoform; non-trivial = an isoform is reported")
    # corpus: a read spanning all introns of T0 but covering little of its last exon; T1 explains its bases better (known finding candidate)
    for m in C.MATCHING:
        P = C.mk_params(m)
        cases.append(match_case(C, P, P.minimal_intron_absence_overlap, P.resolve_ambiguous.name, [[(1000, 1100), (2000, 3000)], [(1050, 1100), (2000, 2100), (2500, 2600)]], ["+", "+"],
                                [(1050, 1100), (2000, 2080)], (-1, -1, -1, -1), "corpus/full-length-read-resolved-by-nucleotide-score/" + m))
    mism, viol = ctx.corr("assign_to_isoform", PRE_MATCH, cases, shard=150, ctype="T", nontrivial=lambda o: o["impl"][0] == "ok" and bool(o["impl"][1][1]))
    # which clause fails, per candidate source isoform (Coq's verdict codes: 10 + clause), and which isoforms are profile-compatible
    KEY = "C01:full-length-read-resolved-by-nucleotide-score"
    listed = any(f.get("key") == KEY for f in known_findings().get("findings", []) if isinstance(f, dict))
    term_of = {id(o): t for t, o in cases}
    codes = coq_codes(ctx, [term_of[id(o)] for o in viol]) if viol else []
    other = []; n_key = 0
    for o, cd in zip(viol, codes):
        o["verdict_codes"], o["profile_compatible"] = cd if cd else (None, None)
        vc, comp = o["verdict_codes"], o["profile_compatible"]
        bad = [c for c in (vc or []) if c >= 10]
        # structural key: ONLY clause 3 fails (consistent type, every reported isoform compatible), and every isoform T the read is full-length for but
        # that is not reported is profile-compatible in the model, i.e. it reached resolve_by_nucleotide_score and was dropped there (score(T)*1.5 < best)
        dropped = [i for i, c in enumerate((vc or [])[1:]) if c == 13]
        if vc is not None and bad and all(c == 13 for c in bad) and dropped and all(i in (comp or []) for i in dropped):
            n_key += 1
            if listed: ctx.violation(KEY, "assign_to_isoform: a read spanning all introns of T is resolved to a better covered compatible isoform (resolve_by_nucleotide_score), T is not reported",
                                     {"correspondence": "assign_to_isoform", "case": o})
        else: other.append(o)
    if n_key and not listed:
        ctx.notes.append("assign_to_isoform: %d case(s) violate only clause 3 of assignment_ok (full-length for T, T dropped by resolve_by_nucleotide_score): known-finding candidate %s, "
                         "not counted as violation until the key is listed" % (n_key, KEY))
    ctx.corr_report("assign_to_isoform", mism, other)
    return dict(cases=len(cases), types=dict(hist), clause3_only=n_key)

PRE_CODES = """
Definition vcode (v:verdict) : Z := match v with Positive_ok => 0 | Negative_ok => 1 | Not_judged => 2 | Bad k => 10 + k end.
Definition codes (c:T) : list Z :=
  let '(P, absd, arm, isos, rex, pa, out) := c in
  match out with
  | Raises _ => [99]
  | Ok (ty, ms) => let ann := map (fun t => (i_id t, i_exons t)) isos in let rep := map fst ms in
                   let strands := map (fun t => (i_id t, i_strand t)) isos in let po := mkPO (pa_ext_a pa) (pa_ext_t pa) in
                   vcode (judge_pa P ann strands (mkRC rex None ty rep) po) :: map (fun t => vcode (judge_pa P ann strands (mkRC rex (Some (i_id t)) ty rep) po)) isos
  end.
(* the isoforms whose profiles are compatible with the read (containing, overlapping, intron profile equal in the read's range) *)
Definition compat (c:T) : list Z :=
  let '(P, absd, arm, isos, rex, pa, out) := c in
  match mk_gene isos with
  | Some g => let r := mkRead rex pa in
              match intron_rprof P absd g r, split_rprof P g r with
              | Ok ri, Ok rs => find_matching (intron_prof g) g ri (find_overlapping g rs (find_containing P g r (ids_of g)))
              | _, _ => [] end
  | None => [] end.
"""
def coq_codes(ctx, terms):
    """per case: (verdict codes [source None, isoform 0, 1, ...], profile-compatible isoform ids)"""
    import re, shutil
    d = os.path.join(ctx.scratch, "match_codes"); os.makedirs(d, exist_ok=True)
    with open(os.path.join(d, "codes.v"), "w") as f:
        f.write("From IQ Require Import CorrSupport.\n" + PRE_MATCH + PRE_CODES + "Definition cases : list T := [\n" + ";\n".join(terms) + "].\n"
                "Eval vm_compute in (map codes cases).\nEval vm_compute in (map compat cases).\n")
    rc, out = sh(["timeout", "300", "coqc", "-Q", COQ, "IQ", os.path.join(d, "codes.v")], timeout=330)
    shutil.rmtree(d, ignore_errors=True)
    parts = re.findall(r"=\s*(\[.*?\])\s*:\s*list \(list Z\)", out, re.S)
    if rc != 0 or len(parts) != 2:
        ctx.broken("assign_to_isoform:codes", "coqc failed on the verdict-code file: " + out[-500:]); return [None] * len(terms)
    def lists(txt):
        inner = txt.strip()[1:-1]
        return [[int(x) for x in re.findall(r"-?\d+", l)] for l in re.findall(r"\[([^\[\]]*)\]", inner)]
    a, b = lists(parts[0]), lists(parts[1])
    if len(a) != len(terms) or len(b) != len(terms): return [None] * len(terms)
    return list(zip(a, b))
