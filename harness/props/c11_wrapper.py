#!/usr/bin/env python3
"""C11 attribution wrapper: runs the unmodified isoquant.py of $VERIF_REPO with chosen halves of mirrored code pairs replaced by
the exact mirror image of the OTHER half (computed by calling the real function of the other half on the mirrored argument), and
logs every call on which the two real halves disagree.  Nothing in the repository is touched.

  C11_SYM   comma-separated symmetrisations to install:
              finder       PolyAFinder.find_polyt_head(a, from, to, entire) := mirror(find_polya_tail(mirror a, from, to, entire))
              extra_right  select_similar_isoforms: `extra_right` tests read_region[1] (source-level substitution of the single
                           expression, fail-closed when the line is not found exactly once or already reads read_region[1])
              ovl          common.overlaps_at_least(a, b, d) := f(a, b, d) or f(mirror a, mirror b, d)
              micro        ExonCorrector.process_events also inserts the micro-intron retained in the LAST read exon
              thread       IntronPathProcessor.thread_starts := mirror(thread_ends on the mirrored intron graph)
  C11_LOG   prefix of the disagreement log (<prefix>.<pid>, one JSON object per line), written whether or not a symmetrisation
            is installed:  {"pair": "finder", "read": id, "args": [from, to, entire], "polyt": h, "mirror_of_polya": m, "polya_raw": t,
            "window_replay_raw": find_polya_tail(mirror a, from+1, to-1), "ref_start", "ref_end"},
            {"pair": "extra_right", "read": id, ...}, {"pair": "ovl", "read": id, ...}

Mirror of an alignment about its own span: the 0-based half-open reference interval [rs, re) is kept, the CIGAR is reversed and the
sequence reverse-complemented; a 0-based tail position p of the mirrored alignment corresponds to the 1-based-mirror position
rs + re + 1 - p (the 1-based closed exon [s, e] = [rs+1, re] maps to itself)."""
import os, sys, json, runpy, types

REPO = os.environ.get("VERIF_REPO", "/repo")
sys.path.insert(0, REPO)
SYM = set(x for x in os.environ.get("C11_SYM", "").split(",") if x)
LOG = os.environ.get("C11_LOG")
_fh = {}
COMP = str.maketrans("ACGTNacgtn", "TGCANtgcan")


def _log(rec):
    if not LOG: return
    pid = os.getpid()
    if pid not in _fh: _fh[pid] = open("%s.%d" % (LOG, pid), "a")
    _fh[pid].write(json.dumps(rec) + "\n"); _fh[pid].flush()


class MirAln:
    """what PolyAFinder reads of an alignment, mirrored about the alignment's own span"""
    def __init__(self, a):
        self.cigartuples = list(reversed(a.cigartuples)); s = a.seq
        self.seq = s.translate(COMP)[::-1] if s else s
        self.reference_start = a.reference_start; self.reference_end = a.reference_end; self.query_name = a.query_name


def mirror_pos(a, p):
    """0-based tail position reported on the mirrored alignment -> position in the frame of a (1-based reflection), -1 kept"""
    return -1 if p == -1 else a.reference_start + a.reference_end + 1 - p


def install_finder():
    from src import polya_finder as pf
    real_head = pf.PolyAFinder.find_polyt_head
    real_tail = pf.PolyAFinder.find_polya_tail
    def find_polyt_head(self, alignment, from_pos, to_pos, check_entire_head=False):
        h = real_head(self, alignment, from_pos, to_pos, check_entire_head)
        try:
            m = MirAln(alignment)
            t = real_tail(self, m, from_pos, to_pos, check_entire_head)
            mt = mirror_pos(alignment, t)
            if mt != -1 and mt < 1: mt = 1            # the clamp of the polyT side (positions stay distinguishable from the sentinel)
            if h != mt:
                w = real_tail(self, m, from_pos + 1, to_pos - 1, check_entire_head)
                _log(dict(pair="finder", read=alignment.query_name, args=[from_pos, to_pos, bool(check_entire_head)], polyt=h, mirror_of_polya=mt,
                          polya_raw=t, window_replay_raw=w, ref_start=alignment.reference_start, ref_end=alignment.reference_end))
        except AssertionError:
            mt = h
        return mt if "finder" in SYM else h
    pf.PolyAFinder.find_polyt_head = find_polyt_head


CURRENT = {"read": None}


def install_current_read():
    import src.long_read_assigner as lra
    real = lra.LongReadAssigner.assign_to_isoform
    def assign_to_isoform(self, read_id, combined_read_profile):
        CURRENT["read"] = read_id
        return real(self, read_id, combined_read_profile)
    lra.LongReadAssigner.assign_to_isoform = assign_to_isoform


def _extra_right(read_region, delta, transcript_end):
    """both readings of the penalty; the code's (read_region[0]) unless the symmetrisation is installed"""
    cur = 1 if read_region[0] - delta > transcript_end else 0
    fix = 1 if read_region[1] - delta > transcript_end else 0
    if cur != fix:
        _log(dict(pair="extra_right", read=CURRENT["read"], args=[list(read_region), delta, transcript_end], code=cur, mirror_of_extra_left=fix))
    return fix if "extra_right" in SYM else cur


def install_extra_right():
    """source-level substitution of the single expression by a call of _extra_right, fail-closed"""
    import importlib.util
    path = os.path.join(REPO, "src", "long_read_assigner.py")
    src = open(path).read()
    bad = "extra_right = 1 if read_region[0] - self.params.delta > transcript_end else 0"
    good = "extra_right = 1 if read_region[1] - self.params.delta > transcript_end else 0"
    if src.count(good) == 1 and src.count(bad) == 0: return            # already repaired: the halves cannot disagree
    if src.count(bad) != 1:
        sys.stderr.write("c11_wrapper: the extra_right line of select_similar_isoforms was not found exactly once\n"); sys.exit(3)
    import src as pkg
    spec = importlib.util.spec_from_file_location("src.long_read_assigner", path)
    mod = importlib.util.module_from_spec(spec); sys.modules["src.long_read_assigner"] = mod
    mod.__dict__["_c11_extra_right"] = _extra_right
    code = compile(src.replace(bad, "extra_right = _c11_extra_right(read_region, self.params.delta, transcript_end)"), path, "exec")
    exec(code, mod.__dict__)
    pkg.long_read_assigner = mod


def install_ovl():
    from src import common
    real = common.overlaps_at_least
    def overlaps_at_least(range1, range2, delta=0):
        r = real(range1, range2, delta)
        m = real((-range1[1], -range1[0]), (-range2[1], -range2[0]), delta)
        if r != m: _log(dict(pair="ovl", read=CURRENT["read"], args=[list(range1), list(range2), delta], value=r, mirrored=m))
        return (r or m) if "ovl" in SYM else r
    common.overlaps_at_least = overlaps_at_least
    import importlib, pkgutil, src as pkg
    for mi in pkgutil.iter_modules(pkg.__path__):
        try: m = importlib.import_module("src." + mi.name)
        except Exception: continue
        if getattr(m, "overlaps_at_least", None) is real: m.overlaps_at_least = overlaps_at_least


def install_micro():
    """ExonCorrector.process_events inserts the annotated micro-intron of a fake_micro_intron_retention event when it meets the read intron
    that FOLLOWS it (`if -i-1 in event_map` inside the loop over the read introns), so a micro-intron retained in the LAST read exon (or in a
    mono-exonic read) is never inserted; the mirror image of that loop would skip the FIRST exon instead.  The symmetrisation handles every exon."""
    from src import exon_corrector as ec
    real = ec.ExonCorrector.process_events
    def process_events(self, alignment_info, event_map, read_region, read_introns, isoform_region, isoform_introns):
        region, new_introns = real(self, alignment_info, event_map, read_region, read_introns, isoform_region, isoform_introns)
        k = -len(read_introns) - 1
        if k in event_map:
            intron = isoform_introns[event_map[k].isoform_region[0]]
            _log(dict(pair="micro", read=CURRENT["read"], args=[list(read_region), [list(x) for x in read_introns], list(intron)]))
            if "micro" in SYM: new_introns = list(new_introns) + [intron]
        return region, new_introns
    ec.ExonCorrector.process_events = process_events


BIG = 1 << 40


def install_thread():
    """IntronPathProcessor.thread_starts := mirror image of the real thread_ends evaluated on a mirrored view of the intron graph
    (intron (a, b) -> (BIG-b, BIG-a), polyT / read-start vertices -> polyA / read-end vertices at BIG-pos)"""
    from src import graph_based_model_construction as gb
    from src.intron_graph import VERTEX_polya, VERTEX_read_end, VERTEX_polyt, VERTEX_read_start
    real_starts = gb.IntronPathProcessor.thread_starts
    real_ends = gb.IntronPathProcessor.thread_ends
    TO_END = {VERTEX_polyt: VERTEX_polya, VERTEX_read_start: VERTEX_read_end}
    TO_START = {v: k for k, v in TO_END.items()}
    def mi(v): return (BIG - v[1], BIG - v[0])
    class GView:
        def __init__(self, g): self.g = g
        def get_outgoing(self, intron, v_type=None):
            orig = mi(intron)
            if v_type is None: return [mi(v) for v in self.g.get_incoming(orig)]
            return [(v_type, BIG - v[1]) for v in self.g.get_incoming(orig, TO_START[v_type])]
    def thread_starts(self, intron, start, trusted=False):
        r = real_starts(self, intron, start, trusted)
        view = types.SimpleNamespace(params=self.params, intron_graph=GView(self.intron_graph))
        m = real_ends(view, mi(intron), BIG - start, trusted)
        m = None if m is None else (TO_START[m[0]], BIG - m[1])
        if (r is None) != (m is None) or (r is not None and tuple(r) != tuple(m)):
            _log(dict(pair="thread", read=CURRENT["read"], args=[list(intron), start, bool(trusted)], thread_starts=r, mirror_of_thread_ends=m, apa_delta=self.params.apa_delta))
        return m if "thread" in SYM else r
    gb.IntronPathProcessor.thread_starts = thread_starts
    real_fill = gb.IntronPathStorage.fill
    def fill(self, read_assignments):
        for a in read_assignments:                 # the loop of fill() itself, one element at a time, so that the log knows the read
            CURRENT["read"] = a.read_id
            real_fill(self, [a])
    gb.IntronPathStorage.fill = fill


def main():
    install_extra_right()
    install_current_read()
    install_finder()
    install_ovl()
    install_micro()
    install_thread()
    script = os.path.join(REPO, "isoquant.py")
    sys.argv = [script] + sys.argv[1:]
    runpy.run_path(script, run_name="__main__")


if __name__ == "__main__":
    main()
