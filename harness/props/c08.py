"""C08 — multi-mapped reads resolve to one best locus, order-independently, counted once."""
import itertools, os, types, shutil, ast, textwrap, collections
from fractions import Fraction
from lib import *

# ---------------------------------------------------------------- naming of the real enum in the model
TYN = {"unique": "Unique", "noninformative": "Noninformative", "intergenic": "Intergenic", "ambiguous": "Ambiguous",
       "unique_minor_difference": "UniqueMinor", "inconsistent": "Inconsistent", "inconsistent_non_intronic": "InconsNonIntronic",
       "inconsistent_ambiguous": "InconsAmbiguous", "suspended": "Suspended"}
CONS = ("unique", "unique_minor_difference", "ambiguous")
INC = ("inconsistent", "inconsistent_non_intronic", "inconsistent_ambiguous")
KEY_TIE = "C08:uninformative-tie"
KEY_WEIGHT = "C08:ambiguous-multilocus-weight"


class Names:
    """injective numbering of the strings that occur in a case.  Chromosome names and isoform ids are numbered
       ORDER-PRESERVINGLY (Z order in the model = Python string order): the repaired select_noninformative compares them.
       They must therefore be known in advance: Names(records, chrs)."""
    ORDERED = ("chr", "iso")
    def __init__(self, recs=(), chrs=()):
        self.d = {}
        for k, x in enumerate(sorted(set(chrs) | set(r["chr"] for r in recs))): self.d[("chr", x)] = k + 1
        for k, x in enumerate(sorted(set(i for r in recs for i in r["isos"]))): self.d[("iso", x)] = k + 1
    def __call__(self, kind, s):
        if kind in self.ORDERED: return self.d[(kind, s)]
        return self.d.setdefault((kind, s), len([1 for k in self.d if k[0] == kind]) + 1)


def detect_repaired():
    """which select_noninformative is checked out?  Run the real resolver on the two-record tie of the known finding
       (coq/Multimap2.v tie1 / tie2) in both orders: the unrepaired code retains the first record of the list in either order
       (-> models `..._unrepaired`), the repaired code the same alignment in both (-> the unsuffixed models)."""
    from src.multimap_resolver import MultimapResolver, MultimapResolvingStrategy
    from src.isoform_assignment import BasicReadAssignment, ReadAssignmentType
    def mk(aid, c):
        b = BasicReadAssignment.__new__(BasicReadAssignment)
        b.__setstate__((aid, "r", c, 100, 200, 50, 300, False, False, ReadAssignmentType.noninformative.value, ReadAssignmentType.noninformative.value, 0.0, [], []))
        return b
    kept = []
    for order in (("chrA", "chrB"), ("chrB", "chrA")):
        res = MultimapResolver(MultimapResolvingStrategy.take_best).resolve([mk(i + 1, c) for i, c in enumerate(order)])
        kept.append(frozenset(a.chr_id for a in res if a.assignment_type != ReadAssignmentType.suspended))
    return kept[0] == kept[1]


def gene_type_for(t, genes):
    """ReadAssignment.__init__: the gene assignment type an assignment of this type starts with"""
    if t == "ambiguous": return "ambiguous" if len(set(genes)) > 1 else "unique"
    if t == "inconsistent_ambiguous": return "inconsistent_ambiguous" if len(set(genes)) > 1 else "inconsistent"
    return t


def crec(r, nm):
    """a candidate record (dict) as a Coq `rec`"""
    return "(mkrec %s %s %s %s %s (%s,%s) %s %s %s %s %s %s %s)" % (
        cz(r["aid"]), cz(nm("read", r["read"])), cz(nm("chr", r["chr"])), cz(r["start"]), cz(r["end"]), cz(r["reg"][0]), cz(r["reg"][1]),
        cbool(r["mm"]), cbool(r["polya"]), TYN[r["ty"]], TYN[r["gty"]], cz(r["pen4"]),
        clist([nm("iso", x) for x in r["isos"]], cz), clist([nm("gene", x) for x in r["genes"]], cz))


def cverdicts(out):
    if isinstance(out, str): return "(@Raises (list verdict) %s)" % {"AssertionError": 2, "TypeError": 3}.get(out, 9)
    return "(Ok %s)" % clist(out, lambda v: "(%s, %s, %s)" % (TYN[v[0]], TYN[v[1]], cbool(v[2])))


def is_non(r): return r["ty"] not in CONS and r["ty"] not in INC
def ovl(r): return max(0, min(r["reg"][1], r["end"]) - max(r["reg"][0], r["start"]) + 1)
def rkey(r): return (r["read"], r["chr"], r["start"], r["end"], tuple(r["isos"]))


PRE_T = """From IQ Require Import Multimap2.
Open Scope Z_scope.
Definition check := run_check%s %%s.
Definition prop := run_spec%s.
"""
PRE_L_T = "From IQ Require Import Multimap2.\nOpen Scope Z_scope.\nDefinition check := load_check%s.\nDefinition prop := load_spec%s.\n"
VARIANT = {"repaired": None}
def suffix(): return "" if VARIANT["repaired"] else "_unrepaired"
def pre(): return PRE_T % (suffix(), suffix())
def pre_l(): return PRE_L_T % (suffix(), suffix())
def set_variant(ctx):
    VARIANT["repaired"] = rp = detect_repaired()
    ctx.notes.append("select_noninformative variant detected on the two-record tie: %s -> models %s" %
                     (("REPAIRED (same alignment retained in both orders)", "run_check / run_spec / load_check / load_spec (order independence required of every case)") if rp else
                      ("UNREPAIRED (first record of the list retained)", "run_check_unrepaired / run_spec_unrepaired / load_check_unrepaired / load_spec_unrepaired")))
    return rp
def tie_key(is_tie):
    """structural key of an order-dependence violation: the known finding only on the unrepaired code"""
    return KEY_TIE if (is_tie and not VARIANT["repaired"]) else None


def run(ctx):
    from src.multimap_resolver import MultimapResolver, MultimapResolvingStrategy
    from src.isoform_assignment import BasicReadAssignment, ReadAssignmentType
    import logging
    logging.getLogger('IsoQuant').setLevel(logging.ERROR)
    quick = ctx.tier == "quick"
    rnd = ctx.rnd
    ctx.prepare("C08.v")
    repaired = set_variant(ctx)
    PRE = pre()

    def mk_basic(r):
        b = BasicReadAssignment.__new__(BasicReadAssignment)
        b.__setstate__((r["aid"], r["read"], r["chr"], r["start"], r["end"], r["reg"][0], r["reg"][1], r["mm"], r["polya"],
                        ReadAssignmentType[r["ty"]].value, ReadAssignmentType[r["gty"]].value, r["pen4"] / 4.0, list(r["isos"]), list(r["genes"])))
        return b

    def run_resolver(strategy, recs):
        objs = [mk_basic(r) for r in recs]
        try:
            res = MultimapResolver(strategy).resolve(objs)
        except AssertionError: return "AssertionError"
        except TypeError: return "TypeError"
        except Exception as e: return type(e).__name__
        return [(a.assignment_type.name, a.gene_assignment_type.name, bool(a.multimapper)) for a in res]

    def make_case(strategy, base, perms):
        nm = Names(base); runs = []
        for p in perms:
            out = run_resolver(strategy, [base[i] for i in p])
            runs.append((p, out))
        term = "(%s, %s)" % (clist(base, lambda r: crec(r, nm)),
                             clist(runs, lambda t: "(%s, %s)" % (clist(t[0], cnat), cverdicts(t[1]))))
        return term, {"records": base, "runs": [{"order": list(p), "impl": o} for p, o in runs]}

    def order_dependence(obj):
        """retained key sets of the implementation across the orders of one multiset; returns None or a description"""
        base = obj["records"]; sets = []
        for r in obj["runs"]:
            if isinstance(r["impl"], str): return None
            sets.append(frozenset(rkey(base[i]) for i, v in zip(r["order"], r["impl"]) if v[0] != "suspended"))
        if len(set(sets)) <= 1: return None
        return sets

    def tie_shape(obj, sets):
        """all candidates uninformative, and the records retained under the various orders tie on (overlap, region start) at the optimum"""
        base = obj["records"]
        if not all(is_non(r) for r in base): return False
        best = max(ovl(r) for r in base); rs = min(r["reg"][0] for r in base if ovl(r) == best)
        diff = set().union(*sets)
        return all(any(rkey(r) == k and ovl(r) == best and r["reg"][0] == rs for r in base) for k in diff)

    def handle(name, strategy_name, cases):
        mism, viol = ctx.corr(name, PRE % strategy_name, cases, shard=250,
                              nontrivial=lambda o: len(o["records"]) > 1 and any(isinstance(r["impl"], list) and any(v[0] == "suspended" for v in r["impl"]) for r in o["runs"]))
        ctx.corr_report(name, mism, viol)
        # order independence of the retained key set, on the implementation's outputs
        nod = 0
        for _, o in cases:
            if any(r["ty"] == "suspended" for r in o["records"]): continue
            sets = order_dependence(o)
            if sets is None: continue
            nod += 1
            ctx.violation(tie_key(tie_shape(o, sets)),
                          "the set of retained alignments of one read depends on the order of its records", {"correspondence": name, "case": o})
        return nod

    # ---- 1. exhaustive vectors over a pool of candidate alignments, every order
    loci = [  # chr, start, end, region, isoform (single / pair), genes (single / pair), penalty*4
        dict(chr="chrA", start=100, end=200, reg=(50, 300), iso1=["T1"], iso2=["T1", "T2"], g1=["G1"], g2=["G1"], pen4=0),
        dict(chr="chrA", start=100, end=200, reg=(150, 400), iso1=["T1"], iso2=["T1", "T2"], g1=["G1"], g2=["G1"], pen4=-4),   # same key as the first, seen from another region
        dict(chr="chrA", start=100, end=260, reg=(50, 300), iso1=["T1"], iso2=["T1", "T3"], g1=["G1"], g2=["G1"], pen4=-4),    # same isoform, other coordinates
        dict(chr="chrB", start=100, end=200, reg=(50, 300), iso1=["T4"], iso2=["T4", "T5"], g1=["G2"], g2=["G2", "G3"], pen4=0),  # other chromosome, ties with the first
        dict(chr="chrB", start=500, end=700, reg=(450, 600), iso1=["T6"], iso2=["T6", "T5"], g1=["G2"], g2=["G2"], pen4=-8),   # same overlap, other region start
    ]
    def candidates(types):
        pool = []
        for t in types:
            for mm in (False, True):
                for L in loci:
                    amb = t in ("ambiguous", "inconsistent_ambiguous"); non = t not in CONS and t not in INC
                    isos = [] if non else (L["iso2"] if amb else L["iso1"]); genes = [] if non else (L["g2"] if amb else L["g1"])
                    pool.append(dict(read="r", chr=L["chr"], start=L["start"], end=L["end"], reg=L["reg"], mm=mm, polya=False, ty=t,
                                     gty=gene_type_for(t, genes), pen4=L["pen4"], isos=isos, genes=genes))
        return pool
    all_types = list(TYN)
    main_types = ["unique", "ambiguous", "inconsistent", "inconsistent_ambiguous", "noninformative", "intergenic"]
    def with_ids(recs): return [dict(r, aid=i + 1) for i, r in enumerate(recs)]
    pool_all = candidates(all_types); pool_main = candidates(main_types if quick else [t for t in all_types if t != "suspended"])
    stat = dict(n=0, nod=0, chunk=0); cases = []
    def flush(force=False):
        if cases and (force or len(cases) >= 30000):
            stat["nod"] += handle("resolve_exhaustive%s" % ("" if stat["chunk"] == 0 else "_%d" % stat["chunk"]), "TakeBest", cases)
            stat["n"] += len(cases); stat["chunk"] += 1; del cases[:]
    def add(pool, comb):
        n = len(comb)
        cases.append(make_case(MultimapResolvingStrategy.take_best, with_ids([pool[i] for i in comb]), list(itertools.permutations(range(n)))))
        if not quick: flush()
    for n in (0, 1, 2):
        for comb in itertools.combinations_with_replacement(range(len(pool_all)), n): add(pool_all, comb)
    for comb in itertools.combinations_with_replacement(range(len(pool_main)), 3): add(pool_main, comb)
    if not quick:
        small = candidates(["unique", "ambiguous", "inconsistent", "noninformative"])
        small = [r for r in small if (r["chr"], r["start"], r["end"], r["reg"]) in [(L["chr"], L["start"], L["end"], L["reg"]) for L in (loci[0], loci[1], loci[3])]]
        for comb in itertools.combinations_with_replacement(range(len(small)), 4): add(small, comb)
    flush(True)
    ctx.rule("resolve (take_best) on real BasicReadAssignment objects: every multiset of <= 2 candidates from 9 types x primary/secondary x 5 loci "
             "(duplicate key seen from two regions, same isoform at other coordinates, other chromosome tying on (overlap, region start), same overlap with another region start; 3 penalties) "
             "and every multiset of 3 from %d types%s, each under ALL orders; non-trivial = some record suspended" % (6 if quick else 8, "" if quick else "; every multiset of 4 from 4 types x 3 loci"))
    ctx.rule("the variant of select_noninformative is detected by running the real resolver on the two-record tie in both orders; on the unrepaired code the models `..._unrepaired` are used and an order-dependent "
             "retained key set of tie shape is the known finding %s; on the repaired code the specification (run_spec, guard one_read_b) and the harness REQUIRE the same retained key set under every order" % KEY_TIE)
    ctx.notes.append("resolve_exhaustive: %d multisets, %d with an order-dependent retained key set" % (stat["n"], stat["nod"]))
    ctx.exhaustive = False

    # ---- 2. random longer lists (all nine types, richer fields), identity + random orders; the other two strategies on a small domain
    def random_record(k):
        t = rnd.choice(all_types if rnd.random() < .15 else main_types + ["unique_minor_difference", "inconsistent_non_intronic"])
        non = t not in CONS and t not in INC
        n_iso = 0 if non else (2 if t in ("ambiguous", "inconsistent_ambiguous") else 1)
        if rnd.random() < .05: n_iso = rnd.randint(0, 3)
        isos = rnd.sample(["T1", "T2", "T3", "T4"], n_iso); genes = sorted(set({"T1": "G1", "T2": "G1", "T3": "G2", "T4": "G3"}[x] for x in isos), reverse=rnd.random() < .5)
        s = rnd.choice([100, 100, 100, 140, 500]); e = s + rnd.choice([100, 100, 160, 30]); r0 = rnd.choice([50, 50, 150, 450]); r1 = r0 + rnd.choice([250, 250, 150, 600])
        gty = gene_type_for(t, genes) if rnd.random() < .9 else rnd.choice(all_types)
        return dict(aid=k + 1, read="r", chr=rnd.choice(["chrA", "chrA", "chrB", "chrC"]), start=s, end=e, reg=(r0, r1), mm=rnd.random() < .6, polya=rnd.random() < .5, ty=t, gty=gty,
                    pen4=rnd.choice([0, 0, 0, -4, -4, -8, -1, 4]), isos=isos, genes=genes)
    cases = []
    for _ in range(2500 if quick else 20000):
        n = rnd.randint(4, 8); base = [random_record(k) for k in range(n)]
        if rnd.random() < .5:   # plant duplicates of existing records (possibly with another type / region)
            for _ in range(rnd.randint(1, 2)):
                src = dict(rnd.choice(base)); src["aid"] = len(base) + 1
                if rnd.random() < .4: src["reg"] = (src["reg"][0] + 10, src["reg"][1] + 10)
                if rnd.random() < .3: src["mm"] = not src["mm"]
                base.insert(rnd.randint(0, len(base)), src)
        n = len(base); perms = [tuple(range(n))] + [tuple(rnd.sample(range(n), n)) for _ in range(4)]
        cases.append(make_case(MultimapResolvingStrategy.take_best, base, perms))
    ctx.rule("random lists of 4-10 records (all nine types incl. already suspended ones, 3 chromosomes, planted duplicates, penalties incl. positive ones, odd isoform/gene lists), identity + 4 random orders")
    nod = handle("resolve_random", "TakeBest", cases)
    ctx.notes.append("resolve_random: %d lists, %d with an order-dependent retained key set" % (len(cases), nod))
    # ---- 2b. uninformative alignments only, built to tie: every component of the tie-break key of select_noninformative varies on its own
    dom = [dict(read="r", chr=c, start=se[0], end=se[1], reg=rg, mm=mm, polya=False, ty=t, gty=t, pen4=0, isos=list(iso), genes=[])
           for c in ("chrA", "chrB") for se in ((100, 200), (140, 240)) for rg in ((50, 300), (150, 400)) for iso in ((), ("T1",), ("T2",), ("T1", "T2"), ("T2", "T1"))
           for t in ("noninformative", "intergenic") for mm in (False,)]
    cases = []
    for comb in itertools.combinations_with_replacement(range(len(dom)), 2):
        cases.append(make_case(MultimapResolvingStrategy.take_best, with_ids([dom[i] for i in comb]), list(itertools.permutations(range(2)))))
    for n, cnt in ((3, 1500 if quick else 20000), (4, 400 if quick else 5000)):
        for _ in range(cnt):
            base = [dict(rnd.choice(dom), mm=rnd.random() < .3) for _ in range(n)]
            if rnd.random() < .5: base[1] = dict(base[0], **{f: base[1][f] for f in rnd.sample(["chr", "start", "isos", "reg", "ty"], rnd.randint(0, 2))})
            if base[1]["start"] != base[0]["start"]: base[1]["end"] = base[1]["start"] + 100
            cases.append(make_case(MultimapResolvingStrategy.take_best, with_ids(base), list(itertools.permutations(range(n)))))
    ctx.rule("uninformative ties: lists of 2 (all), 3 and 4 (sampled) noninformative / intergenic records over 2 chromosomes x 2 (start, end) with equal overlap x 2 regions x 5 isoform lists (incl. the same set in both orders), "
             "half of them built as a copy of the first record with <= 2 fields changed, under ALL orders: every component of the tie-break key (region start, chr_id, start, end, isoforms) decides on its own")
    nod = handle("resolve_uninformative_ties", "TakeBest", cases)
    ctx.notes.append("resolve_uninformative_ties: %d lists, %d with an order-dependent retained key set" % (len(cases), nod))
    for strat, sname in ((MultimapResolvingStrategy.merge, "Merge"), (MultimapResolvingStrategy.ignore_multimapper, "IgnoreMultimapper")):
        cases = []
        sub = [r for r in pool_all if r["mm"] is False and (r["chr"], r["reg"]) in (("chrA", (50, 300)), ("chrB", (50, 300)))]
        for n in (0, 1, 2, 3):
            for comb in itertools.combinations_with_replacement(range(len(sub)), n):
                if n == 3 and rnd.random() > (.15 if quick else 1): continue
                cases.append(make_case(strat, with_ids([sub[i] for i in comb]), [tuple(range(n))]))
        mism, _ = ctx.corr("resolve_" + sname, (PRE % sname).replace("Definition prop := run_spec%s." % suffix(), "Definition prop (c:list rec * list (list nat * outcome (list verdict))) := true."), cases, shard=400)
        ctx.corr_report("resolve_" + sname, mism, [])
    ctx.rule("strategies merge / ignore_multimapper (not selectable from the command line): model = implementation only, incl. the TypeError of merge on two informative records")

    # ---- 3. the loader path: real save files -> prepare_multimapper_dict / in-memory lists -> resolve_multimappers -> multimapper files -> ReadAssignmentLoader
    run_loader_path(ctx, quick)
    # ---- 4. pipeline level
    run_pipeline(ctx, quick)


# ==================================================================================================================
BLOCKS = {  # per chromosome: gene regions (as processed), the transcripts/genes seen there, alignments that fall there
    "chrA": [dict(reg=(50, 300), iso=[("T1", "G1"), ("T2", "G1")], aln=[[(100, 200)], [(100, 260)], [(100, 140), (170, 200)]]),
             dict(reg=(150, 400), iso=[("T1", "G1"), ("T3", "G1")], aln=[[(100, 200)], [(160, 390)]]),
             dict(reg=(800, 1200), iso=[("T7", "G4"), ("T8", "G5")], aln=[[(900, 990)], [(850, 1100)]])],
    "chrB": [dict(reg=(50, 300), iso=[("T4", "G2"), ("T5", "G3")], aln=[[(100, 200)], [(60, 290)]]),
             dict(reg=(450, 600), iso=[("T6", "G2"), ("T5", "G3")], aln=[[(500, 700)], [(460, 590)]])],
}


def load_multimappers_fn(ctx):
    """the statements of construct_models_in_parallel that read the <save>_multimappers_<chr> file, compiled as a function
       inside the real module (so every name resolves to the real code)"""
    import src.dataset_processor as dp
    src = open(dp.__file__).read(); tree = ast.parse(src)
    fn = [n for n in tree.body if isinstance(n, ast.FunctionDef) and n.name == "construct_models_in_parallel"]
    if not fn: return None
    body = fn[0].body; start = end = None
    for k, stt in enumerate(body):
        seg = ast.get_source_segment(src, stt) or ""
        if start is None and seg.startswith("multimapped_reads = defaultdict(list)"): start = k
        if start is not None and isinstance(stt, ast.While) and "list_size" in seg: end = k; break
    if start is None or end is None: return None
    f = ast.FunctionDef(name="__verif_load_multimappers", args=ast.arguments(posonlyargs=[], args=[ast.arg("dump_filename"), ast.arg("chr_id")], kwonlyargs=[], kw_defaults=[], defaults=[]),
                        body=body[start:end + 1] + [ast.parse("multimap_loader.close()").body[0], ast.Return(ast.Name("multimapped_reads", ast.Load()))], decorator_list=[])
    mod = ast.Module(body=[f], type_ignores=[]); ast.fix_missing_locations(mod)
    ns = dp.__dict__; exec(compile(mod, dp.__file__, "exec"), ns)
    return ns["__verif_load_multimappers"]


def gen_scenario(rnd, n_reads, allow_dup=True):
    """records per chromosome in file order: dict(read, chr, block, exons, ty, matches[(t,g,pen)], mm, polya)"""
    types = ["unique", "unique", "ambiguous", "unique_minor_difference", "inconsistent", "inconsistent_non_intronic", "inconsistent_ambiguous", "noninformative", "intergenic"]
    recs = []
    for r in range(n_reads):
        k = rnd.choice([1, 2, 2, 3, 3, 4]); mine = []; primary_given = False
        for j in range(k):
            if allow_dup and mine and rnd.random() < .2:
                d = dict(rnd.choice(mine))                      # the same alignment again: identical record, or seen from another gene region
                if d["chr"] == "chrA" and d["block"] in (0, 1) and d["exons"] == [(100, 200)] and rnd.random() < .6: d["block"] = 1 - d["block"]
                d["matches"] = list(d["matches"]); mine.append(d); continue
            c = rnd.choice(["chrA", "chrA", "chrB"]); b = rnd.randrange(len(BLOCKS[c])); B = BLOCKS[c][b]
            t = rnd.choice(types); pen = rnd.choice([0.0, 0.0, 0.5, 2.0])
            if t in ("noninformative", "intergenic"): matches = [(None, None, 0.0)]
            elif t in ("ambiguous", "inconsistent_ambiguous"): matches = [(B["iso"][0][0], B["iso"][0][1], pen), (B["iso"][1][0], B["iso"][1][1], rnd.choice([0.0, 1.0]))]
            else:
                i = rnd.randrange(2); matches = [(B["iso"][i][0], B["iso"][i][1], pen)]
            mm = primary_given or rnd.random() < .4
            if not mm: primary_given = True
            mine.append(dict(read="read%d" % r, chr=c, block=b, exons=rnd.choice(B["aln"]), ty=t, matches=matches, mm=mm, polya=rnd.random() < .5))
        recs += mine
    rnd.shuffle(recs)
    files = {c: [] for c in BLOCKS}
    for c in BLOCKS:
        aid = 0
        for b in range(len(BLOCKS[c])):
            for d in recs:
                if d["chr"] == c and d["block"] == b:
                    aid += 1; d["aid"] = aid; files[c].append(d)
    return files


def run_loader_path(ctx, quick, scenarios=None, replaying=False):
    from src.isoform_assignment import ReadAssignment, ReadAssignmentType, IsoformMatch, MatchClassification, BasicReadAssignment
    from src.assignment_io import TmpFileAssignmentPrinter
    from src.gene_info import GeneInfo
    from src.polya_finder import PolyAInfo
    from src.dataset_processor import DatasetProcessor, ReadAssignmentLoader, BasicReadAssignmentLoader
    from src.multimap_resolver import MultimapResolvingStrategy
    from src.long_read_counter import create_gene_counter, create_transcript_counter, ReadWeightCounter, COUNTING_STRATEGIES
    rnd = ctx.rnd
    load_mm = load_multimappers_fn(ctx)
    if load_mm is None:
        ctx.broken("correspondence:loader_path", "could not locate the multimapper-file reading loop in construct_models_in_parallel"); return
    work = os.path.join(ctx.scratch, "loader"); os.makedirs(work, exist_ok=True)
    args = types.SimpleNamespace(multimap_strategy=MultimapResolvingStrategy.take_best)
    fake = types.SimpleNamespace(args=args)

    def mk_ra(d):
        matches = [IsoformMatch(MatchClassification.full_splice_match, assigned_gene=g, assigned_transcript=t, penalty_score=p) for (t, g, p) in d["matches"]]
        ra = ReadAssignment(d["read"], ReadAssignmentType[d["ty"]], matches)
        ra.assignment_id = d["aid"]; ra.chr_id = d["chr"]; ra.exons = list(d["exons"]); ra.corrected_exons = list(d["exons"])
        ra.genomic_region = BLOCKS[d["chr"]][d["block"]]["reg"]; ra.multimapper = d["mm"]; ra.polyA_found = d["polya"]; ra.polya_info = PolyAInfo(-1, -1, -1, -1)
        return ra

    def load(out_raw, c):
        mmd = load_mm(out_raw, c)
        loader = ReadAssignmentLoader(out_raw + "_" + c, None, None, mmd); res = []
        while loader.has_next():
            gi, storage = loader.get_next(); res += storage
        del loader
        return res

    def one(files, chr_ids, tag):
        out_raw = os.path.join(work, "s%s.save" % tag)
        basics = {}; pens = []
        for c in chr_ids:
            pr = TmpFileAssignmentPrinter(out_raw + "_" + c, args); basics[c] = []
            cur = None
            for d in files[c]:
                if d["block"] != cur:
                    cur = d["block"]; reg = BLOCKS[c][cur]["reg"]; pr.add_gene_info(GeneInfo.from_region(c, reg[0], reg[1], 0))
                ra = mk_ra(d); pr.add_read_info(ra)
                b = BasicReadAssignment(ra); basics[c].append(b)               # what --high_memory keeps (collect_reads_in_parallel)
                pens.append(([p for (_, _, p) in d["matches"]], b.penalty_score))
            del pr
        # default path
        counts = collections.defaultdict(int); deser = {}
        for c in chr_ids:
            l = BasicReadAssignmentLoader(out_raw + "_" + c)
            while l.has_next():
                for a in l.get_next():
                    if a is None: continue
                    counts[a.read_id] += 1; deser.setdefault(c, []).append(a)
            del l
        # both constructors give the same compact record
        for c in chr_ids:
            s1 = [a.__getstate__() for a in deser.get(c, [])]; s2 = [a.__getstate__() for a in basics[c]]
            if s1 != s2:
                k = next((i for i, (x, y) in enumerate(zip(s1, s2)) if x != y), None)
                ctx.violation(None, "BasicReadAssignment(read_assignment) and deserialize_from_read_assignment disagree", {"scenario": files, "chr": c, "default": s1[k] if k is not None else len(s1), "high_memory": s2[k] if k is not None else len(s2)})
        res = {}
        for mode in ("default", "high_memory"):
            try:
                if mode == "default":
                    mmr, uniq, _ = DatasetProcessor.prepare_multimapper_dict(fake, chr_ids, types.SimpleNamespace(out_raw_file=out_raw), counts)
                else:
                    mmr = collections.defaultdict(list); uniq = 0
                    for c in chr_ids:
                        for b in basics[c]: mmr[b.read_id].append(b)
                tot, _ = DatasetProcessor.resolve_multimappers(fake, chr_ids, types.SimpleNamespace(out_raw_file=out_raw), mmr)
                loaded_objs = [load(out_raw, c) for c in chr_ids]
                res[mode] = [[(ra.assignment_id, (ra.assignment_type.name, ra.gene_assignment_type.name, bool(ra.multimapper))) for ra in l] for l in loaded_objs]
                if tot + uniq != sum(len(l) for l in loaded_objs) and not replaying:
                    ctx.violation(None, "total_assignments reported by resolve_multimappers differs from the number of records the loader returns", {"scenario": files, "chr_ids": chr_ids, "mode": mode, "total": tot + uniq, "loaded": sum(len(l) for l in loaded_objs)})
                if mode == "default": objs = loaded_objs
            except Exception as e:
                res[mode] = type(e).__name__; objs = []
        for f in os.listdir(work): os.remove(os.path.join(work, f))
        # the records as the resolver saw them (taken from the real compact objects)
        def rec_of(b):
            return dict(aid=b.assignment_id, read=b.read_id, chr=b.chr_id, start=b.start, end=b.end, reg=b.genomic_region, mm=bool(b.multimapper), polya=bool(b.polyA_found),
                        ty=b.assignment_type.name, gty=b.gene_assignment_type.name, pen4=int(round(b.penalty_score * 4)), isos=list(b.isoforms), genes=list(b.genes))
        nm = Names([rec_of(b) for c in chr_ids for b in basics[c]], chr_ids)
        def cout(o):
            if isinstance(o, str): return "(@Raises (list loaded) 9)"
            return "(Ok %s)" % clist(o, lambda l: clist(l, lambda x: "(%s, (%s, %s, %s))" % (cz(x[0]), TYN[x[1][0]], TYN[x[1][1]], cbool(x[1][2]))))
        fterm = clist(chr_ids, lambda c: "(%s, %s)" % (cz(nm("chr", c)), clist(basics[c], lambda b: crec(rec_of(b), nm))))
        pterm = clist(pens, lambda x: "(%s, %s)" % (clist([int(round(p * 4)) for p in x[0]], cz), cz(int(round(x[1] * 4)))))
        term = "(%s, %s, %s, %s)" % (fterm, cout(res["default"]), cout(res["high_memory"]), pterm)
        return term, {"scenario": {c: files[c] for c in chr_ids}, "chr_ids": chr_ids, "default": res["default"], "high_memory": res["high_memory"]}, objs

    PRE_L = pre_l()
    cases = []; wcases = []
    flags = {s: ReadWeightCounter(s).strategy_flags for s in COUNTING_STRATEGIES}
    n_scn = (250 if quick else 2500) if scenarios is None else len(scenarios)
    cdir = os.path.join(ctx.scratch, "counters"); os.makedirs(cdir, exist_ok=True)
    n_multi = 0
    def R(read, c, b, ex, ty, matches, mm, aid): return dict(read=read, chr=c, block=b, exons=ex, ty=ty, matches=matches, mm=mm, polya=False, aid=aid)
    corpus = [  # fixed cases that are there on every run: two loci with one isoform each (both retained, `ambiguous`, weight 1 each); two alignments to the same isoform; primary wins; duplicate
        ({"chrA": [R("two_loci", "chrA", 0, [(100, 200)], "unique", [("T1", "G1", 0.0)], True, 1), R("same_iso", "chrA", 0, [(100, 200)], "unique", [("T1", "G1", 0.0)], True, 2),
                   R("same_iso", "chrA", 0, [(100, 260)], "unique", [("T1", "G1", 0.0)], True, 3), R("prim", "chrA", 0, [(100, 200)], "unique", [("T2", "G1", 0.0)], False, 4),
                   R("dup", "chrA", 0, [(100, 200)], "inconsistent", [("T2", "G1", 0.5)], False, 5), R("dup", "chrA", 1, [(100, 200)], "inconsistent", [("T1", "G1", 0.5)], False, 6),
                   R("dup", "chrA", 1, [(100, 200)], "inconsistent", [("T1", "G1", 0.5)], False, 7)],
          "chrB": [R("two_loci", "chrB", 0, [(100, 200)], "unique", [("T4", "G2", 0.0)], True, 1), R("prim", "chrB", 0, [(100, 200)], "unique", [("T4", "G2", 0.0)], True, 2),
                   R("prim", "chrB", 1, [(500, 700)], "inconsistent", [("T6", "G2", 2.0)], True, 3)]}, ["chrA", "chrB"])]
    corpus.append((corpus[0][0], ["chrB", "chrA"]))
    if scenarios is None: n_scn += len(corpus)
    for k in range(n_scn):
        if scenarios is None:
            if k < len(corpus): files, chr_ids = corpus[k]
            else: files = gen_scenario(rnd, rnd.randint(2, 6)); chr_ids = ["chrA", "chrB"] if rnd.random() < .5 else ["chrB", "chrA"]
        else:
            files, chr_ids = scenarios[k]
        term, obj, objs = one(files, chr_ids, k)
        cases.append((term, obj))
        # ---- the real counters on what the loader returned, read by read
        by_read = collections.defaultdict(list)
        for l in objs:
            for ra in l:
                ra.gene_info.all_isoforms_introns = collections.defaultdict(list); by_read[ra.read_id].append(ra)
        for rid, ras in by_read.items():
            if len(ras) > 1: n_multi += 1
            for sname in COUNTING_STRATEGIES:
                for gl, mkc in ((False, create_transcript_counter), (True, create_gene_counter)):
                    cnt = mkc(os.path.join(cdir, "c"), sname)
                    for ra in ras: cnt.add_read_info(ra)
                    tot = sum(Fraction(v).limit_denominator(1000) for f in cnt.feature_counter.values() for v in f.data.values())
                    recs = [dict(aid=ra.assignment_id, read=ra.read_id, chr=ra.chr_id, start=ra.exons[0][0], end=ra.exons[-1][1], reg=ra.genomic_region, mm=bool(ra.multimapper), polya=False,
                                 ty=ra.assignment_type.name, gty=ra.gene_assignment_type.name, pen4=0,
                                 isos=sorted(set(m.assigned_transcript for m in ra.isoform_matches if m.assigned_transcript)),
                                 genes=sorted(set(m.assigned_gene for m in ra.isoform_matches if m.assigned_gene))) for ra in ras]
                    nm = Names(recs)
                    fl = flags[sname]
                    term = "(((Build_flags %s %s %s), %s), %s, (Qmake %s %d%%positive))" % (cbool(fl.use_ambiguous), cbool(fl.use_inconsistent_minor), cbool(fl.use_inconsistent), cbool(gl),
                                                                                          clist(recs, lambda r: crec(r, nm)), cz(tot.numerator), tot.denominator)
                    wcases.append((term, {"read": rid, "strategy": sname, "table": "gene" if gl else "transcript", "retained_records": recs, "total_added_by_the_real_counter": str(tot),
                                          "scenario": obj["scenario"], "chr_ids": chr_ids}))
    shutil.rmtree(cdir, ignore_errors=True)
    ctx.rule("loader path: 2-6 reads with 1-4 alignment records each (2 chromosomes, 5 gene regions incl. overlapping ones, exact duplicates, the same alignment seen from two regions, "
             "assignment ids restarting per chromosome) written with the real TmpFileAssignmentPrinter; default path = BasicReadAssignmentLoader + prepare_multimapper_dict, "
             "--high_memory path = BasicReadAssignment(read_assignment) lists; real resolve_multimappers, the multimapper-file reading loop of construct_models_in_parallel, real ReadAssignmentLoader; "
             "chromosome order swapped at random; both paths must equal the model's load_all and satisfy the specification behind the loader")
    mism, viol = ctx.corr("loader_path", PRE_L, cases, shard=40, nontrivial=lambda o: isinstance(o["default"], list) and sum(len(l) for l in o["default"]) < sum(len(v) for v in o["scenario"].values()))
    ctx.corr_report("loader_path", mism, viol)
    # counters
    PRE_W = "From Coq Require Import QArith.\nFrom IQ Require Import Multimap2 MultimapWeight.\nOpen Scope Z_scope.\nDefinition check := weight_check.\nDefinition prop := weight_prop.\n"
    ctx.rule("contribution: the records of each read behind the loader fed to the real gene and transcript counters (create_gene_counter / create_transcript_counter, "
             "5 counting strategies, flags read from the real CountingStrategyFlags); accumulated total over all features = model's contribution; specification: total <= 1")
    mism, viol = ctx.corr("contribution", PRE_W, wcases, shard=400, nontrivial=lambda o: len(o["retained_records"]) > 1)
    def wkey(o):
        # over-count of a read that is retained on k > 1 records, each of which is weighted as if it were the only one
        return KEY_WEIGHT if len(o["retained_records"]) > 1 else None
    ctx.corr_report("contribution", mism, viol, keyfn=wkey)
    ctx.notes.append("loader_path: %d scenarios, %d reads behind the loader with > 1 record; contribution: %d evaluations, %d with total > 1" % (len(cases), n_multi, len(wcases), len(viol)))
    ctx.assume.append("GeneInfo.from_region / deserialisation without an annotation database; gene_info.all_isoforms_introns replaced by an empty table for the counters' confirms_feature")


def novel_chain(g):
    """an exon chain of the gene that no annotated isoform has (an inconsistent read), or None"""
    n = len(g["pool"])
    for ix in ([0, n - 1], [0, n - 2, n - 1], [0, 1, n - 1], [0, 2, n - 1]):
        ix = sorted(set(i for i in ix if 0 <= i < n))
        if len(ix) >= 2 and ix not in g["isoforms"].values(): return [g["pool"][i] for i in ix]
    return None


def run_pipeline(ctx, quick):
    """synthetic two-chromosome BAM with reads aligned to two loci -> real IsoQuant (default / --high_memory, chromosome order swapped)"""
    import pipeline as P, gen_data as G
    from src.dataset_processor import ReadAssignmentLoader
    from src.isoform_assignment import BasicReadAssignment
    from src.long_read_counter import create_gene_counter, create_transcript_counter, ReadWeightCounter
    load_mm = load_multimappers_fn(ctx)
    if load_mm is None: return
    rnd = ctx.rnd
    PRE_L = pre_l()
    PRE_W = "From Coq Require Import QArith.\nFrom IQ Require Import Multimap2 MultimapWeight.\nOpen Scope Z_scope.\nDefinition check := weight_check.\nDefinition prop := weight_prop.\n"
    lcases = []; wcases = []; nruns = 0; n_suppressed = 0; n_order_dep = 0
    base = P.scratch("c08pipe_")
    try:
        for wi in range(1 if quick else 4):
            seed = ctx.seed * 100 + wi
            for attempt in range(20):
                w = G.World(seed + 1000 * attempt, n_chr=2, chr_len=(60000, 60001), genes_per_chr=(3, 4))
                ga = [g for g in w.genes if g["chr"] == "chrA" and len(g["pool"]) >= 4 and novel_chain(g)]
                gb = [g for g in w.genes if g["chr"] == "chrB" and len(g["pool"]) >= 4 and novel_chain(g)]
                if ga and gb: break
            else:
                ctx.broken("pipeline", "no suitable synthetic world"); return
            gA, gB = ga[0], gb[0]
            fl = lambda g, tid=None: [g["pool"][i] for i in g["isoforms"][tid or list(g["isoforms"])[0]]]
            for g in w.genes:                                   # every annotated isoform gets unique full-length support (so that every feature is confirmed)
                for tid in g["isoforms"]:
                    for k in range(3): w.add_read("u_%s_%d" % (tid, k), g["chr"], fl(g, tid), g["strand"])
            tA = fl(gA); tB = fl(gB); sA, sB = gA["strand"], gB["strand"]
            for k in range(2):
                def two(name, a, b, fa, fb, **kw):
                    w.add_read("%s_%d" % (name, k), a[0], a[1], a[2], flag=fa, **kw); w.add_read("%s_%d" % (name, k), b[0], b[1], b[2], flag=fb, **kw)
                A = ("chrA", tA, sA); B = ("chrB", tB, sB); NA = ("chrA", novel_chain(gA), sA); NB = ("chrB", novel_chain(gB), sB)
                two("primsec", A, B, 0, 256)                     # primary unique vs secondary unique
                two("secprim", A, B, 256, 0)
                two("twoprim", A, B, 0, 0)                       # the same read name twice as primary: tie between two loci
                two("twosec", A, B, 256, 256)
                two("inccons", NA, B, 0, 256)                    # primary inconsistent vs secondary consistent
                two("consinc", A, NB, 256, 0)
                two("incinc", NA, NB, 0, 256)                    # primary inconsistent vs secondary inconsistent
                two("incinc2", NA, NB, 256, 256)
                two("dup", A, A, 0, 0)                           # identical record twice
                two("dupsec", B, B, 256, 256)
                two("tie", ("chrA", [(40000, 40300)], "+"), ("chrB", [(40000, 40300)], "+"), 0, 0, polya=False)   # intergenic on both, same overlap and region start (secondary intergenic alignments are not stored at all)
                two("nontie", ("chrA", [(41000, 41300)], "+"), ("chrB", [(42000, 42200)], "+"), 0, 0, polya=False)
                two("intcons", ("chrA", [(43000, 43300)], "+"), B, 0, 256)    # primary intergenic vs secondary consistent
                w.add_read("three_%d" % k, "chrA", tA, sA, flag=256); w.add_read("three_%d" % k, "chrB", tB, sB, flag=256); w.add_read("three_%d" % k, "chrB", novel_chain(gB), sB, flag=0)
            across_orders = {}
            for longer in ("chrA", "chrB"):
                d = os.path.join(base, "w%d_%s" % (wi, longer)); os.makedirs(d)
                chroms = dict(w.chroms); w2 = G.World.__new__(G.World); w2.__dict__.update(w.__dict__); w2.chroms = chroms
                chroms[longer] = chroms[longer] + "ACGT" * 700      # the pipeline processes chromosomes longest first
                bam = w2.write(d)[0]
                lens = P.fasta_lengths(os.path.join(d, "genome.fa")); chr_ids = sorted(lens, key=lambda c: lens[c], reverse=True)
                for mode, threads in (("default", "2"), ("high_memory", "1")) if longer == "chrA" else (("default", "1"), ("high_memory", "2")):
                    out = os.path.join(d, "out_" + mode)
                    rc, log = P.run_isoquant(out, ["--reference", os.path.join(d, "genome.fa"), "--genedb", os.path.join(d, "annotation.gtf"), "--complete_genedb", "--bam", bam,
                                                   "--data_type", "nanopore", "-p", "S", "--keep_tmp", "--threads", threads] + (["--high_memory"] if mode == "high_memory" else []))
                    nruns += 1; ctx.cov["pipeline_runs"] += 1
                    cfg = {"world_seed": seed, "longer_chromosome": longer, "mode": mode, "threads": threads}
                    if rc != 0:
                        ctx.violation(None, "IsoQuant exits %d on the synthetic multi-mapper BAM" % rc, dict(cfg, log=log[-1500:])); continue
                    raw = os.path.join(out, "S", "aux", "S.save")
                    # pre-resolution records decoded from the save files by the real loader (no verdict applied)
                    pre = {}
                    for c in chr_ids:
                        ld = ReadAssignmentLoader(raw + "_" + c, None, None, None); pre[c] = []
                        while ld.has_next(): pre[c] += ld.get_next()[1]
                        del ld
                    # behind the loader, with the multimapper files this very run wrote
                    post = {}
                    for c in chr_ids:
                        ld = ReadAssignmentLoader(raw + "_" + c, None, None, load_mm(raw, c)); post[c] = []
                        while ld.has_next(): post[c] += ld.get_next()[1]
                        del ld
                    n_suppressed += sum(len(pre[c]) - len(post[c]) for c in chr_ids)
                    retained = collections.defaultdict(set); cand = collections.defaultdict(list)
                    for c in chr_ids:
                        for ra in post[c]: retained[ra.read_id].add((c, tuple(map(tuple, ra.exons))))
                        for ra in pre[c]:
                            b = BasicReadAssignment(ra); cand[ra.read_id].append(dict(chr=c, start=b.start, end=b.end, reg=b.genomic_region, ty=b.assignment_type.name, isos=list(b.isoforms), read=b.read_id))
                    across_orders.setdefault((wi, mode), []).append((longer, retained, cand))
                    def rec_of(b):
                        return dict(aid=b.assignment_id, read=b.read_id, chr=b.chr_id, start=b.start, end=b.end, reg=b.genomic_region, mm=bool(b.multimapper), polya=bool(b.polyA_found),
                                    ty=b.assignment_type.name, gty=b.gene_assignment_type.name, pen4=int(round(b.penalty_score * 4)), isos=list(b.isoforms), genes=list(b.genes))
                    pre_recs = {c: [rec_of(BasicReadAssignment(ra)) for ra in pre[c]] for c in chr_ids}
                    nm = Names([r for c in chr_ids for r in pre_recs[c]], chr_ids)
                    fterm = clist(chr_ids, lambda c: "(%s, %s)" % (cz(nm("chr", c)), clist(pre_recs[c], lambda r: crec(r, nm))))
                    oterm = "(Ok %s)" % clist(chr_ids, lambda c: clist(post[c], lambda ra: "(%s, (%s, %s, %s))" % (cz(ra.assignment_id), TYN[ra.assignment_type.name], TYN[ra.gene_assignment_type.name], cbool(ra.multimapper))))
                    obj = dict(cfg, chr_ids=chr_ids, multi_mapped_records={c: [(ra.read_id, ra.assignment_id, ra.exons, ra.assignment_type.name, bool(ra.multimapper)) for ra in pre[c] if not ra.read_id.startswith("u_")] for c in chr_ids},
                               behind_loader={c: [(ra.read_id, ra.assignment_id, ra.assignment_type.name, ra.gene_assignment_type.name, bool(ra.multimapper)) for ra in post[c] if not ra.read_id.startswith("u_")] for c in chr_ids})
                    lcases.append(("(%s, %s, %s, @nil (list Z * Z))" % (fterm, oterm, oterm), obj))
                    # ---- the output files against what the loader returned
                    exp_tsv = collections.Counter(); exp_bed = collections.Counter(); chrs_of = collections.defaultdict(set)
                    for c in chr_ids:
                        for ra in post[c]:
                            ex = tuple(map(tuple, ra.exons)); chrs_of[ra.read_id].add(c)
                            exp_bed[(ra.read_id, c, tuple(map(tuple, ra.corrected_exons)))] += 1
                            for m in (ra.isoform_matches or [None]):
                                assigned = m is not None and m.assigned_transcript is not None
                                exp_tsv[(ra.read_id, c, m.assigned_transcript if assigned else ".", ra.assignment_type.name, ra.gene_assignment_type.name if assigned else None, ex)] += 1
                    obs_tsv = collections.Counter((t["read_id"], t["chr"], t["isoform_id"], t["assignment_type"], t["info"].get("gene_assignment"), tuple(t["exons"]))
                                                  for t in P.read_assignments(P.find(out, "S", "read_assignments.tsv")))
                    obs_bed = collections.Counter((b["name"], b["chr"], tuple(b["exons"])) for b in P.read_bed(P.find(out, "S", "corrected_reads.bed")))
                    if obs_tsv != exp_tsv:
                        ctx.violation(None, "read_assignments.tsv differs from the records behind the loader (a suppressed alignment is printed, or a retained one is missing / has another type)",
                                      dict(cfg, only_in_file=sorted(map(str, (obs_tsv - exp_tsv).elements()))[:6], only_expected=sorted(map(str, (exp_tsv - obs_tsv).elements()))[:6]))
                    if obs_bed != exp_bed:
                        ctx.violation(None, "corrected_reads.bed differs from the records behind the loader",
                                      dict(cfg, only_in_file=sorted(map(str, (obs_bed - exp_bed).elements()))[:6], only_expected=sorted(map(str, (exp_bed - obs_bed).elements()))[:6]))
                    tr, _ = P.read_gtf(P.find(out, "S", "transcript_models.gtf")); tchr = {t: v["chr"] for t, v in tr.items()}
                    for g in w.genes:
                        for t in g["isoforms"]: tchr.setdefault(t, g["chr"])
                    for line in P.opn(P.find(out, "S", "transcript_model_reads.tsv")):
                        if line.startswith("#"): continue
                        rid, tid = line.rstrip("\n").split("\t")[:2]
                        if tid != "*" and tchr.get(tid) not in chrs_of.get(rid, set()):
                            ctx.violation(None, "transcript_model_reads lists a read for a transcript on a chromosome where its alignment was suppressed", dict(cfg, read=rid, transcript=tid, retained_on=sorted(chrs_of.get(rid, []))))
                    # ---- contribution: the real counters on the records behind the loader, read by read; their sum is the printed table
                    by_read = collections.defaultdict(list)
                    for c in chr_ids:
                        for ra in post[c]:
                            ra.gene_info.all_isoforms_introns = collections.defaultdict(lambda: [1]); by_read[ra.read_id].append(ra)
                    for gl, mkc, sname, fname in ((False, create_transcript_counter, "unique_only", "transcript_counts.tsv"), (True, create_gene_counter, "unique_splicing_consistent", "gene_counts.tsv")):
                        fl_ = ReadWeightCounter(sname).strategy_flags; per_feature = collections.defaultdict(Fraction)
                        for rid, ras in by_read.items():
                            cnt = mkc(os.path.join(d, "cnt"), sname)
                            for ra in ras: cnt.add_read_info(ra)
                            tot = Fraction(0)
                            for f, inc in cnt.feature_counter.items():
                                for v in inc.data.values(): per_feature[f] += Fraction(v).limit_denominator(1000); tot += Fraction(v).limit_denominator(1000)
                            if len(ras) > 1 or rnd.random() < .1:
                                recs = [dict(aid=ra.assignment_id, read=ra.read_id, chr=ra.chr_id, start=ra.exons[0][0], end=ra.exons[-1][1], reg=ra.genomic_region, mm=bool(ra.multimapper), polya=False,
                                             ty=ra.assignment_type.name, gty=ra.gene_assignment_type.name, pen4=0,
                                             isos=sorted(set(m.assigned_transcript for m in ra.isoform_matches if m.assigned_transcript)),
                                             genes=sorted(set(m.assigned_gene for m in ra.isoform_matches if m.assigned_gene))) for ra in ras]
                                nm2 = Names(recs)
                                term = "(((Build_flags %s %s %s), %s), %s, (Qmake %s %d%%positive))" % (cbool(fl_.use_ambiguous), cbool(fl_.use_inconsistent_minor), cbool(fl_.use_inconsistent), cbool(gl),
                                                                                                      clist(recs, lambda r: crec(r, nm2)), cz(tot.numerator), tot.denominator)
                                wcases.append((term, dict(cfg, read=rid, strategy=sname, table="gene" if gl else "transcript", retained_records=recs, total_added_by_the_real_counter=str(tot))))
                        _, table = P.read_counts(P.find(out, "S", fname))
                        bad = [(f, table[f][0], float(per_feature.get(f, 0))) for f in table if not f.startswith("__") and abs(table[f][0] - float(per_feature.get(f, 0))) > 0.006]
                        if bad:
                            ctx.violation(None, "%s is not the sum of the per-read contributions of the records behind the loader" % fname, dict(cfg, cells_file_vs_recount=bad[:6]))
            # the same BAM records, the other chromosome order: the retained alignments of every read must be the same
            for (wi_, mode), runs_ in across_orders.items():
                if len(runs_) != 2: continue
                (l1, r1, cand), (l2, r2, _) = runs_
                for rid in sorted(set(r1) | set(r2)):
                    if r1.get(rid) == r2.get(rid): continue
                    n_order_dep += 1; cs = cand[rid]
                    tie = all(is_non(r) for r in cs) and len(set((ovl(r), r["reg"][0]) for r in cs if ovl(r) == max(ovl(x) for x in cs))) == 1
                    ctx.violation(tie_key(tie), "the retained alignments of a read change with the order in which chromosomes are processed",
                                  {"world_seed": seed, "mode": mode, "read": rid, "candidates": cs, "retained_when_%s_first" % l1: sorted(r1.get(rid, [])), "retained_when_%s_first" % l2: sorted(r2.get(rid, []))})
    finally:
        shutil.rmtree(base, ignore_errors=True)
    ctx.rule("pipeline: synthetic 2-chromosome genome/annotation/BAM (harness/gen_data.py) with 3 unique full-length reads per isoform and 14 kinds of two- and three-locus reads "
             "(primary/secondary in both arrangements, the same read name twice as primary, consistent vs inconsistent vs intergenic, identical duplicated records, intergenic ties) -> real isoquant.py, "
             "default and --high_memory, threads 1 and 2, each chromosome made the longer one in turn (IsoQuant processes chromosomes longest first); the save files kept by --keep_tmp are decoded with the real "
             "loader, the model's load_all must equal what the real loader returns with the run's own multimapper files; read_assignments.tsv, corrected_reads.bed, transcript_model_reads.tsv and the two count "
             "tables are compared with the records behind the loader; non-trivial = a run in which alignments were suppressed")
    mism, viol = ctx.corr("pipeline_loader", PRE_L, lcases, shard=1, nontrivial=lambda o: True)
    ctx.corr_report("pipeline_loader", mism, viol)
    mism, viol = ctx.corr("pipeline_contribution", PRE_W, wcases, shard=400, nontrivial=lambda o: len(o["retained_records"]) > 1)
    ctx.corr_report("pipeline_contribution", mism, viol, keyfn=lambda o: KEY_WEIGHT if len(o["retained_records"]) > 1 else None)
    ctx.notes.append("pipeline: %d runs, %d alignment records suppressed in total, %d reads whose retained alignments depend on the chromosome order, %d per-read contribution cases of which %d exceed 1" % (nruns, n_suppressed, n_order_dep, len(wcases), len(viol)))
    ctx.assume.append("pysam / htslib (BAM writing, sorting, indexing); harness/gen_data.py; the TSV/BED/GTF parsers of harness/pipeline.py; chromosome order recomputed as 'longest first'")


def replay(ctx, rep):
    """./check C08 --replay <file>: re-run the recorded input through the real code and the model"""
    r = rep.get("replay") or {}
    case = r.get("case", r)
    if isinstance(case, dict) and "records" in case:
        from src.multimap_resolver import MultimapResolver, MultimapResolvingStrategy
        from src.isoform_assignment import BasicReadAssignment, ReadAssignmentType
        ctx.prepare("C08.v"); set_variant(ctx)
        base = [dict(x, reg=tuple(x["reg"])) for x in case["records"]]; n = len(base)
        orders = list(itertools.permutations(range(n))) if n <= 5 else [tuple(x["order"]) for x in case["runs"]]
        nm = Names(base); runs = []
        for p in orders:
            objs = []
            for x in (base[i] for i in p):
                b = BasicReadAssignment.__new__(BasicReadAssignment)
                b.__setstate__((x["aid"], x["read"], x["chr"], x["start"], x["end"], x["reg"][0], x["reg"][1], x["mm"], x["polya"], ReadAssignmentType[x["ty"]].value,
                                ReadAssignmentType[x["gty"]].value, x["pen4"] / 4.0, list(x["isos"]), list(x["genes"]))); objs.append(b)
            try: out = [(a.assignment_type.name, a.gene_assignment_type.name, bool(a.multimapper)) for a in MultimapResolver(MultimapResolvingStrategy.take_best).resolve(objs)]
            except Exception as e: out = type(e).__name__
            runs.append((p, out)); print("order", p, "->", out)
        term = "(%s, %s)" % (clist(base, lambda x: crec(x, nm)), clist(runs, lambda t: "(%s, %s)" % (clist(t[0], cnat), cverdicts(t[1]))))
        obj = {"records": base, "runs": [{"order": list(p), "impl": o} for p, o in runs]}
        mism, viol = ctx.corr("replay_resolve", pre() % "TakeBest", [(term, obj)])
        ctx.corr_report("replay_resolve", mism, viol)
        sets = set(frozenset(rkey(base[i]) for i, v in zip(p, o) if v[0] != "suspended") for p, o in runs if isinstance(o, list))
        if len(sets) > 1:
            tie = all(is_non(x) for x in base) and len(set((ovl(x), x["reg"][0]) for x in base if ovl(x) == max(ovl(y) for y in base))) == 1
            ctx.violation(tie_key(tie), "the set of retained alignments of one read depends on the order of its records", {"case": obj})
    elif isinstance(case, dict) and "scenario" in case and "chr_ids" in case:
        ctx.prepare("C08.v"); set_variant(ctx)
        files = {c: [dict(d, exons=[tuple(e) for e in d["exons"]], matches=[tuple(m) for m in d["matches"]]) for d in v] for c, v in case["scenario"].items()}
        for c in BLOCKS: files.setdefault(c, [])
        run_loader_path(ctx, True, scenarios=[(files, list(case["chr_ids"]))], replaying=True)
    else:
        run(ctx)
