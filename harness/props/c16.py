"""C16 — CIGAR -> exon blocks, polyA/polyT exon trimming, tail detection."""
import itertools, os, random, shutil, traceback, types, collections
from fractions import Fraction
from lib import *

OPN = {0: "Cigar.M", 1: "Cigar.I", 2: "Cigar.D", 3: "Cigar.N", 4: "Cigar.S", 5: "Cigar.H", 6: "Cigar.P", 7: "Cigar.EQ", 8: "Cigar.X"}
def cops(ops): return clist(ops, lambda o: "(%s,%s)" % (OPN[o[0]], cz(o[1])))
def cblocks3(ref, read, cig): return clist(list(zip(ref, read, cig)), lambda t: "(%s,%s,%s)" % (civ(t[0]), civ(t[1]), civ(t[2])))

PRE_GRB = """From IQ Require Import Cigar Cigar2.
Open Scope Z_scope.
Definition b3_eqb := list_eqb (pair_eqb (pair_eqb iv_eqb iv_eqb) iv_eqb).
Definition b2_eqb := list_eqb (pair_eqb iv_eqb iv_eqb).
Definition check (c:(Z * list cop) * list (iv*iv*iv)) := b3_eqb (get_read_blocks3 (fst (fst c)) (snd (fst c))) (snd c).
(* specification evaluated on the implementation's output: reference and read blocks are the SAM blocks *)
Definition prop (c:(Z * list cop) * list (iv*iv*iv)) := b2_eqb (sam_blocks (fst (fst c)) (snd (fst c))) (map fst (snd c)).
"""

def gen_cigars(ctx, maxlen, nrandom):
    kinds = [(o, l) for o in (0, 1, 2, 3, 4, 5, 6, 7, 8) for l in (1, 2)]
    for n in range(1, maxlen + 1):
        for ops in itertools.product(kinds, repeat=n):
            for rs in (0, 255):
                yield rs, list(ops)
    rnd = ctx.rnd
    for _ in range(nrandom):
        yield rnd.randint(0, 10 ** 6), [(rnd.choice([0, 0, 0, 1, 2, 3, 3, 4, 5, 6, 7, 8]), rnd.randint(1, 500)) for _ in range(rnd.randint(1, 40))]


def valid_for_pysam(ops):
    return sum(l for o, l in ops if o in (0, 1, 4, 7, 8)) > 0 and any(o in (0, 7, 8) for o, _ in ops)

def random_valid_cigar(rnd, maxops=12, maxlen=60, allow_p=False):
    """clips at the ends only, at least one match"""
    ops = []
    if rnd.random() < .3: ops.append((5, rnd.randint(1, 20)))
    if rnd.random() < .5: ops.append((4, rnd.randint(1, 40)))
    n = rnd.randint(1, maxops)
    body = []
    for i in range(n):
        body.append((rnd.choice([0, 0, 0, 0, 1, 2, 3, 3, 7, 8]), rnd.randint(1, maxlen)))
    body.insert(rnd.randint(0, len(body)), (0, rnd.randint(1, maxlen)))
    ops += body
    if rnd.random() < .5: ops.append((4, rnd.randint(1, 40)))
    if rnd.random() < .3: ops.append((5, rnd.randint(1, 20)))
    return ops


def guarded(ctx, name, f, *a):
    """one section of the check: an exception of the harness (or of real code called outside an adapter) breaks that section only"""
    try:
        return f(*a)
    except Exception:
        ctx.broken("harness:%s" % name, "exception in section %s:\n%s" % (name, traceback.format_exc()[-3000:]))


def run(ctx):
    quick = ctx.tier == "quick"
    ctx.prepare("C16.v")
    ctx.rule("methods regenerated from the source on every run (tools/translate_loops.py -> coq/gen/Loops.v) and proved equal to the hand models for all inputs: PolyAFixer.count_polya_exons / count_polyt_exons whole (C16_count_polya_exons_is_the_source, C16_count_polyt_exons_is_the_source), PolyAFixer.correct_read_info with its while loop as a Fixpoint on fuel (C16_correct_read_info_is_the_source)")
    ctx.rule("loop functions regenerated from the source on every run (tools/translate_loops.py -> coq/gen/Loops.v) and proved equal to the hand models for all inputs: correct_bam_coords (C16_correct_bam_coords_is_the_source), shift_polya / shift_polyt for 0 <= exon_count <= len(read_exons) (C16_shift_polya_is_the_source, C16_shift_polyt_is_the_source)")
    ctx.rule("regenerated from the source on every run (tools/translate_extra.py -> coq/gen/Extra.v; bridged to the models by C16_cigar_codes_are_the_sources, C16_polya_exon_counts_are_the_sources, C16_finder_defaults_are_the_sources): CigarEvent values with get_match_events / get_ins_del_match_events (the code -> constructor table OPN of this file is CigarBridgeDefs.cigar_of_code), the sentinel / scan direction / break test / exon test of PolyAFixer.count_polya_exons and count_polyt_exons, the PolyAFinder defaults (window 16, fraction 0.75, polyA_count 12) and its external / internal search windows")
    guarded(ctx, "get_read_blocks", sec_read_blocks, ctx, quick)
    ctx.exhaustive = False
    guarded(ctx, "alignment_info", sec_alignment_info, ctx, quick)
    guarded(ctx, "add_polya_info", sec_add_polya_info, ctx, quick)
    guarded(ctx, "polya_finder", sec_finder, ctx, quick)
    guarded(ctx, "end_to_end_trimming", sec_e2e, ctx, quick)
    guarded(ctx, "pipeline", sec_pipeline, ctx, quick)
    ctx.assume.append("pysam/htslib: cigartuples, get_blocks, reference_end")
    ctx.assume.append("pipeline section: the harness' BAM reader (pysam) and TSV parser; harness/props/c16_hook.py only logs calls")


def sec_read_blocks(ctx, quick):
    from src.common import get_read_blocks
    # ---- 1. get_read_blocks: exhaustive short CIGARs + random long ones
    cases = []
    for rs, ops in gen_cigars(ctx, 3 if quick else 4, 3000 if quick else 20000):
        try:
            r = get_read_blocks(rs, ops)
        except Exception as e:
            ctx.violation(None, "get_read_blocks raises %s" % type(e).__name__, {"ref_start": rs, "cigar": ops}); continue
        cases.append(("((%s, %s), %s)" % (cz(rs), cops(ops), cblocks3(*r)), {"ref_start": rs, "cigar": ops, "impl": [list(map(list, x)) for x in r]}))
    ctx.rule("get_read_blocks: every CIGAR of <= %d operations over {M,I,D,N,S,H,P,=,X} x lengths {1,2} x ref_start {0,255} (exhaustive) + random CIGARs of up to 40 operations; non-trivial = at least one block reported" % (3 if quick else 4))
    mism, viol = ctx.corr("get_read_blocks", PRE_GRB, cases, nontrivial=lambda o: len(o["impl"][0]) > 0)
    ctx.corr_report("get_read_blocks", mism, viol)


def sec_alignment_info(ctx, quick):
    import pysam
    from src.common import concat_gapless_blocks
    from src.alignment_info import AlignmentInfo
    # ---- 2. AlignmentInfo on real pysam segments (cigartuples glue) + pysam get_blocks + concat_gapless_blocks
    PRE_AI = PRE_GRB + """
Definition strip_clips (ops:list cop) := filter (fun c => negb (is_clip (fst c))) ops.
Fixpoint split_n (acc:list cop) (l:list cop) : list (list cop) :=
  match l with [] => [rev acc] | c :: t => match fst c with Cigar.N => rev acc :: split_n [] t | _ => split_n (c :: acc) t end end.
Definition normal_form (ops:list cop) : bool :=
  forallb (fun run => match run with [] => false | c :: _ => is_match (fst c) && is_match (fst (last run c)) end) (split_n [] (strip_clips ops)).
Definition check2 (c:((Z * list cop) * list (iv*iv*iv)) * (list iv * list iv)) :=
  check (fst c) && ivs_eqb (pysam_blocks (fst (fst (fst c))) (snd (fst (fst c)))) (fst (snd c))
  && ivs_eqb (concat_gapless_blocks (fst (snd c)) (snd (fst (fst c)))) (snd (snd c)).
(* for CIGARs in normal form (every N-separated run starts and ends with a match) the legacy helper yields the same exons *)
Definition prop2 (c:((Z * list cop) * list (iv*iv*iv)) * (list iv * list iv)) :=
  prop (fst c) && (negb (normal_form (snd (fst (fst c)))) || ivs_eqb (correct_bam_coords (snd (snd c))) (map (fun b => fst (fst b)) (snd (fst c)))).
"""
    PRE_AI = PRE_AI.replace("Definition check (", "Definition check0 (").replace("Definition prop (", "Definition prop0 (")
    PRE_AI = PRE_AI.replace("  check (fst c) &&", "  check0 (fst c) &&").replace("  prop (fst c) &&", "  prop0 (fst c) &&")
    PRE_AI += "Definition check := check2.\nDefinition prop := prop2.\n"
    rnd = ctx.rnd; cases = []
    for i in range(1500 if quick else 10000):
        ops = random_valid_cigar(rnd)
        rs = rnd.randint(0, 100000)
        a = pysam.AlignedSegment(); a.query_name = "r"; a.flag = 0; a.reference_id = 0; a.reference_start = rs; a.cigartuples = ops
        qlen = sum(l for o, l in ops if o in (0, 1, 4, 7, 8)); a.query_sequence = "".join(rnd.choice("ACGT") for _ in range(qlen))
        ops2 = [(int(o), int(l)) for o, l in a.cigartuples]
        try:
            ai = with_timeout(AlignmentInfo, a)
            blocks = a.get_blocks(); cg = with_timeout(concat_gapless_blocks, blocks, a.cigartuples)
        except (Exception, ImplTimeout) as e:
            ctx.violation(None, "AlignmentInfo / concat_gapless_blocks raises %s on a well-formed alignment record" % type(e).__name__, {"ref_start": rs, "cigar": ops2, "error": str(e)[:300]}); continue
        cases.append(("(((%s, %s), %s), (%s, %s))" % (cz(rs), cops(ops2), cblocks3(ai.read_exons, ai.read_blocks, ai.cigar_blocks), civs(blocks), civs(cg)),
                      {"ref_start": rs, "cigar": ops2, "exons": ai.read_exons, "get_blocks": blocks, "concat_gapless": cg}))
    ctx.rule("AlignmentInfo/concat_gapless_blocks: random well-formed CIGARs (clips at the ends, >=1 match) on real pysam.AlignedSegment objects")
    mism, viol = ctx.corr("alignment_info+concat_gapless", PRE_AI, cases)
    ctx.corr_report("alignment_info+concat_gapless", mism, viol)


def sec_add_polya_info(ctx, quick):
    from src.alignment_info import AlignmentInfo
    from src import polya_verification as pv
    from src import polya_finder as pf
    rnd = ctx.rnd
    # ---- 3. add_polya_info with all position pairs over small exon lists
    PRE_PA = """From IQ Require Import PolyA PolyA2 PolyAProofs3.
Open Scope Z_scope.
Definition pinfo_eqb (a b:pinfo) := (ext_a a =? ext_a b) && (ext_t a =? ext_t b) && (int_a a =? int_a b) && (int_t a =? int_t b).
Definition res := outcome (list iv * pinfo * (Z*Z)).
Definition model (mf:Z) (ex:list iv) (p:pinfo) : res :=
  let r := add_polya_info mf ex p in match fst (fst r) with [] => Raises 1 | _ => Ok r end.
Definition res_eqb := outcome_eqb (pair_eqb (pair_eqb ivs_eqb pinfo_eqb) (pair_eqb Z.eqb Z.eqb)).
Definition check (c:(Z * list iv * pinfo) * res) := let '(mf, ex, p) := fst c in res_eqb (model mf ex p) (snd c).
Fixpoint is_infix (a b:list iv) : bool :=
  match b with [] => match a with [] => true | _ => false end
  | _ :: t => ivs_eqb a (firstn (length a) b) || is_infix a t end.
(* for every pair of tail positions: non-empty contiguous result, tail positions on the retained exons, and WHERE on them:
   PolyAProofs3.tail_spec (proved of the model: C16_tail_position_spec_of_add_polya_info) - for each side on which exons were removed, every
   recorded position of that side = boundary of the retained exon +- number of bases of the removed exons between it and the old position *)
Definition prop (c:(Z * list iv * pinfo) * res) :=
  let '(mf, ex, p) := fst c in
    match snd c with
    | Raises _ => false
    | Ok (ex', p', (a, t)) =>
       negb (length ex' =? 0)%nat && is_infix ex' ex &&
       ((a <=? 0) || (int_a p =? -1) || (snd (last ex' (0,0)) <=? int_a p') || (0 <? t)) &&
       ((t <=? 0) || (int_t p =? -1) || (int_t p' <=? fst (hd (0,0) ex'))) &&
       tail_spec ex p (ex', p', (a, t))
    end.
"""
    class FakeAln: pass
    class FakeFinder:
        def __init__(self, info): self.info = info
        def detect_polya(self, aln): return self.info
    params = types.SimpleNamespace(max_fake_terminal_exon_len=8)
    fixer = pv.PolyAFixer(params)
    def run_add(exons, pos4):
        ai = AlignmentInfo.__new__(AlignmentInfo)
        ai.alignment = None; ai.read_exons = list(exons); ai.read_blocks = [(i, i) for i in range(len(exons))]; ai.cigar_blocks = [(i, i) for i in range(len(exons))]
        ai.exons_changed = False; ai.read_start = exons[0][0]; ai.read_end = exons[-1][1]
        info = pf.PolyAInfo(pos4[0], pos4[1], pos4[2], pos4[3])
        # remember the counts the fixer returns
        cnt = {}
        class Fx:
            def correct_read_info(self, ex, pi):
                cnt["v"] = fixer.correct_read_info(ex, pi); return cnt["v"]
        try:
            with_timeout(ai.add_polya_info, FakeFinder(info), Fx())
        except IndexError:
            return None
        except (Exception, ImplTimeout) as e:
            return "raises " + type(e).__name__
        if not (len(ai.read_blocks) == len(ai.read_exons) == len(ai.cigar_blocks)):
            ctx.violation(None, "read_blocks / cigar_blocks not trimmed in step with read_exons", {"exons": exons, "positions": pos4}); return "raises length mismatch"
        # read_blocks / cigar_blocks must be trimmed in step with the exons
        if ai.read_exons:
            k = exons.index(ai.read_exons[0]) if ai.read_exons[0] in exons else -1
            if [b[0] for b in ai.read_blocks] != list(range(k, k + len(ai.read_exons))):
                ctx.violation(None, "read_blocks not trimmed in step with read_exons", {"exons": exons, "positions": pos4})
        p = ai.polya_info
        return ai.read_exons, (p.external_polya_pos, p.external_polyt_pos, p.internal_polya_pos, p.internal_polyt_pos), cnt["v"]
    cases = []; exon_sets = []
    coords = list(range(1, 41, 3))
    for n in (1, 2, 3, 4):
        for _ in range(12 if quick else 60):
            c = sorted(rnd.sample(range(1, 60), 2 * n)); exon_sets.append([(c[2 * i], c[2 * i + 1]) for i in range(n)])
    exon_sets += [[(10, 12), (20, 21), (30, 45)], [(10, 30), (40, 41), (50, 52)], [(5, 6), (9, 10)], [(100, 120), (200, 230), (300, 330)]]
    for ex in exon_sets:
        pts = sorted(set([-1] + [x + d for e in ex for x in e for d in (-2, 0, 1, 3)] + [ex[0][0] - 5, ex[-1][1] + 5]))
        pts = [p for p in pts if p == -1 or p > 0]
        pairs = [(a, t) for a in pts for t in pts]
        if quick and len(pairs) > 150: pairs = rnd.sample(pairs, 150)
        for (ia, it) in pairs:
            ea = ia if ia == -1 or rnd.random() < .5 else ia + rnd.randint(0, 3)
            et = it if it == -1 or rnd.random() < .5 else max(1, it - rnd.randint(0, 3))
            r = run_add(ex, (ea, et, ia, it))
            inp = "(%s, %s, (mkp %s %s %s %s))" % (cz(8), civs(ex), cz(ea), cz(et), cz(ia), cz(it))
            out = "(Raises 1)" if r is None else "(Raises 9)" if isinstance(r, str) else "(Ok (%s, (mkp %s %s %s %s), (%s, %s)))" % (civs(r[0]), cz(r[1][0]), cz(r[1][1]), cz(r[1][2]), cz(r[1][3]), cz(r[2][0]), cz(r[2][1]))
            cases.append(("(%s, %s)" % (inp, out), {"exons": ex, "positions(ext_a,ext_t,int_a,int_t)": (ea, et, ia, it), "impl": r}))
    ctx.rule("add_polya_info: exon lists of 1-4 exons x internal polyA/polyT positions at every exon boundary +-{2,0,1,3} and outside the read (max_fake_terminal_exon_len=8); the specification includes the tail-position clause C16_tail_position_spec (new position = boundary of the retained exon +- bases of the removed exons up to the old position); non-trivial = at least one exon trimmed")
    mism, viol = ctx.corr("add_polya_info", PRE_PA, cases, nontrivial=lambda o: o["impl"] is None or isinstance(o["impl"], str) or len(o["impl"][0]) < len(o["exons"]))
    ctx.corr_report("add_polya_info", mism, viol)


def mkseg(ops, rs, seq):
    import pysam
    a = pysam.AlignedSegment(); a.query_name = "r"; a.flag = 0; a.reference_id = 0; a.reference_start = rs; a.cigartuples = ops; a.query_sequence = seq
    return a


def sec_finder(ctx, quick):
    from src import polya_finder as pf
    rnd = ctx.rnd
    # ---- 4. PolyAFinder: sliding window, reference projection, tail/head detection on real pysam segments
    PRE_F = """From IQ Require Import Cigar Cigar2.
Open Scope Z_scope.
Definition zres_eqb := outcome_eqb Z.eqb.
(* case: ((w, need), seq, ops, ref_start, (from, to, entire), which) -> impl *)
Definition model (c:(Z*Z) * list Z * list cop * Z * (Z*Z*bool) * bool) : outcome Z :=
  let '(wn, seq, ops, rs, (fr, to, en), tail) := c in
  if tail then find_polya_tail (fst wn) (snd wn) 3 4 seq ops rs fr to en else find_polyt_head (fst wn) (snd wn) 3 4 seq ops rs fr to en.
Definition check (c:((Z*Z) * list Z * list cop * Z * (Z*Z*bool) * bool) * outcome Z) := zres_eqb (model (fst c)) (snd c).
Definition prop (c:((Z*Z) * list Z * list cop * Z * (Z*Z*bool) * bool) * outcome Z) :=
  match snd c with Ok v => (v =? -1) || (0 <? v) | Raises 2 => true | Raises _ => false end.
"""
    BASE = {"A": 0, "C": 1, "G": 2, "T": 3, "N": 4}
    cases = []
    n_f = 1200 if quick else 8000
    for i in range(n_f):
        w = rnd.choice([4, 8, 16, 16])
        finder = pf.PolyAFinder(window_size=w, min_polya_fraction=0.75)
        ops = random_valid_cigar(rnd, maxops=6, maxlen=30)
        ops = [o for o in ops if o[0] != 6]
        qlen = sum(l for o, l in ops if o in (0, 1, 4, 7, 8))
        kind = rnd.random()
        seq = [rnd.choice("ACGT") for _ in range(qlen)]
        # plant A-rich tail / T-rich head around the clip boundaries
        tl = rnd.randint(0, min(qlen, 50))
        for j in range(qlen - tl, qlen):
            if rnd.random() < .9: seq[j] = "A"
        hl = rnd.randint(0, min(qlen, 50))
        for j in range(0, hl):
            if rnd.random() < .9: seq[j] = "T"
        if rnd.random() < .1: seq = [c.lower() if rnd.random() < .3 else c for c in seq]
        seq = "".join(seq)
        rs = rnd.randint(40, 5000)
        a = mkseg(ops, rs, seq)
        for tail in (True, False):
            for (fr, to, en) in ((2, 2 * w, False), (4 * w, 2, True)):
                f = finder.find_polya_tail if tail else finder.find_polyt_head
                try:
                    v = with_timeout(f, a, fr, to, en)
                    out = "(Ok %s)" % cz(v)
                except AssertionError:
                    v = "AssertionError"; out = "(Raises 2)"
                except (Exception, ImplTimeout) as e:
                    v = "raises " + type(e).__name__; out = "(Raises 9)"
                term = "((((((%s,%s), %s), %s), %s), (%s,%s,%s)), %s)" % (cz(w), cz(int(w * 0.75)), clist([BASE.get(ch.upper(), 4) for ch in seq], str), cops(ops), cz(rs), cz(fr), cz(to), cbool(en), cbool(tail))
                cases.append(("(%s, %s)" % (term, out), {"window": w, "seq": seq, "cigar": ops, "ref_start": rs, "from,to,entire": (fr, to, en), "tail": tail, "impl": v}))
    ctx.rule("PolyAFinder.find_polya_tail/find_polyt_head (incl. find_polya, move_ref_coord_alogn_alignment) on real pysam segments: random CIGARs with planted A tails / T heads, windows {4,8,16}; non-trivial = a tail was found")
    mism, viol = ctx.corr("polya_finder", PRE_F, cases, shard=300, nontrivial=lambda o: o["impl"] not in (-1, "AssertionError"))
    ctx.corr_report("polya_finder", mism, viol)


def sec_e2e(ctx, quick):
    from src.alignment_info import AlignmentInfo
    from src import polya_verification as pv
    from src import polya_finder as pf
    rnd = ctx.rnd
    # real finder + real fixer + real AlignmentInfo on multi-exon reads with T heads and A tails: trimming never fails
    finder = pf.PolyAFinder(); fixer40 = pv.PolyAFixer(types.SimpleNamespace(max_fake_terminal_exon_len=40))
    n_e2e = 30000 if quick else 300000; both = inv = trimmed = 0
    for i in range(n_e2e):
        nex = rnd.randint(2, 4); exl = [rnd.randint(3, 40) for _ in range(nex)]
        clipa = rnd.randint(0, 30); clipt = rnd.randint(0, 30); ops = []
        if clipt: ops.append((4, clipt))
        for k, l in enumerate(exl):
            if k: ops.append((3, rnd.randint(20, 200)))
            ops.append((0, l))
        if clipa: ops.append((4, clipa))
        ln = sum(l for o, l in ops if o in (0, 4)); seq = [rnd.choice("ACGT") for _ in range(ln)]
        tl = rnd.randint(0, ln); hl = rnd.randint(0, ln)
        for j in range(max(0, ln - tl), ln):
            if rnd.random() < .92: seq[j] = "A"
        for j in range(0, min(hl, ln)):
            if rnd.random() < .92: seq[j] = "T"
        a = mkseg(ops, 1000, "".join(seq)); before = None; ai = None
        try:
            ai = AlignmentInfo(a); before = list(ai.read_exons)
            with_timeout(ai.add_polya_info, finder, fixer40)
            okr = len(ai.read_exons) > 0 and ai.read_exons == sorted(ai.read_exons)
        except (Exception, ImplTimeout):
            okr = False
        p = getattr(ai, "polya_info", None)
        if p is not None and p.internal_polya_pos != -1 and p.internal_polyt_pos != -1: both += 1
        if okr and len(ai.read_exons) < len(before): trimmed += 1
        if not okr:
            ctx.violation(None, "add_polya_info with the real PolyAFinder raises or leaves no / unordered exons", {"cigar": ops, "seq": "".join(seq), "ref_start": 1000, "exons_before": before})
    ctx.count(evaluations=n_e2e, nontrivial=trimmed)
    ctx.rule("end-to-end trimming: random 2-4 exon reads with planted T heads / A tails through the real PolyAFinder, PolyAFixer and AlignmentInfo.add_polya_info; non-trivial = exons were trimmed")
    ctx.notes.append("end-to-end trimming: %d reads, %d with both internal tails, %d trimmed" % (n_e2e, both, trimmed))


# ------------------------------------------------------------------ pipeline level: the exons column of *.read_assignments.tsv
BASES = {"A": 0, "C": 1, "G": 2, "T": 3, "N": 4}
EXON_KINDS = ["M", "M", "EQX", "INS", "DEL", "I_N", "N_I", "D_N", "N_D"]

def zlist(vals):
    """list Z literal in chunks (very long list literals overflow coqc's stack)"""
    vals = list(vals)
    if len(vals) <= 800: return "[" + ";".join(map(str, vals)) + "]"
    return "(" + " ++ ".join("[" + ";".join(map(str, vals[i:i + 800])) + "]" for i in range(0, len(vals), 800)) + ")"


def exon_part(sub, kind):
    """CIGAR operations and query bases for one exon whose reference bases are `sub`; the exon's reference interval is the same for every kind"""
    ln = len(sub)
    if ln < 12: kind = "M"
    if kind == "EQX":
        c = ln // 3; mut = "".join("ACGT"[(BASES.get(x, 0) + 1) % 4] for x in sub[c:c + 2]); return [(7, c), (8, 2), (7, ln - c - 2)], sub[:c] + mut + sub[c + 2:]
    if kind == "INS": c = ln // 2; return [(0, c), (1, 3), (0, ln - c)], sub[:c] + "GGG" + sub[c:]
    if kind == "DEL": c = ln // 2; return [(0, c), (2, 4), (0, ln - c - 4)], sub[:c] + sub[c + 4:]
    if kind == "I_N": return [(0, ln), (1, 2)], sub + "CC"              # insertion right before the next N (or the end of the alignment)
    if kind == "N_I": return [(1, 2), (0, ln)], "CC" + sub              # insertion right after the previous N (or the start of the alignment)
    if kind == "D_N": return [(0, ln - 3), (2, 3)], sub[:ln - 3]        # deletion next to N / trailing deletion
    if kind == "N_D": return [(2, 3), (0, ln - 3)], sub[3:]             # deletion next to N / leading deletion
    return [(0, ln)], sub


def c16_dataset(seed, dest, per_chain):
    """Two chromosomes, each with an annotated '+' gene, an annotated '-' gene, an unannotated spliced locus and an unannotated mono-exonic locus.
       Long reads: every CIGAR operation kind (M = X I D N S H), indels next to N and at the ends of the alignment, N N, clips of all shapes,
       polyA tails / polyT heads aligned as one or two extra terminal exons, junctions 4 bp off the short-read junctions, secondary alignments
       under the same read id, low mapping qualities.  Short reads: across every true junction."""
    import pysam
    from gen_data import World
    rnd = random.Random(seed * 104729 + 16)
    w = World(seed * 31 + 16, n_chr=2, chr_len=(72000, 78000), genes_per_chr=(0, 0))
    loci = []
    for chrom in list(w.chroms):
        w.chroms[chrom] = list(w.chroms[chrom]); pos = 3000
        for li, (kind, strand) in enumerate([("gene", "+"), ("gene", "-"), ("unannotated", rnd.choice("+-")), ("mono", "+")]):
            n = 1 if kind == "mono" else rnd.randint(4, 6); pool = []
            for _ in range(n):
                ln = rnd.randint(40, 220); pool.append((pos, pos + ln - 1)); pos += ln + rnd.randint(90, 700)
            chains = [list(range(n))] + ([[0] + list(range(2, n))] if n >= 4 else [])
            locus = dict(kind=kind, chr=chrom, strand=strand, pool=pool, chains=chains, id="%s_L%d" % (chrom, li))
            for ch in chains: w.plant([pool[i] for i in ch], chrom, strand)
            loci.append(locus)
            if kind == "gene":
                w.genes.append(dict(id=locus["id"], chr=chrom, strand=strand, pool=pool, isoforms={"%s.T%d" % (locus["id"], k): ch for k, ch in enumerate(chains)}, start=pool[0][0], end=pool[-1][1]))
            pos += rnd.randint(5000, 7000)
        w.chroms[chrom] = "".join(w.chroms[chrom])
    def rseq(n): return "".join(rnd.choice("ACGT") for _ in range(n))
    def add(name, locus, exons, strand, kinds, lead, trail, tails=(), into=0, nn=False, flag=0, mapq=60):
        ref = w.chroms[locus["chr"]]; ops = []; q = ""
        for k, (a, b) in enumerate(exons):
            if k:
                gap = a - exons[k - 1][1] - 1
                ops += [(3, gap // 2), (3, gap - gap // 2)] if (nn and gap > 20) else [(3, gap)]
            o, s_ = exon_part(ref[a - 1:b].upper(), kinds[k % len(kinds)]); ops += o; q += s_
        start = exons[0][0] - 1
        if into:                                   # the tail begins inside the last real exon
            q = (q[:-into] + "A" * into) if strand == "+" else ("T" * into + q[into:])
        for gap, k_ in tails:                      # aligned tail: extra terminal exon(s) of A (right end) / T (left end)
            if strand == "+": ops += [(3, gap), (0, k_)]; q += "A" * k_
            else: ops = [(0, k_), (3, gap)] + ops; q = "T" * k_ + q; start -= gap + k_
        polyclip = bool(tails) or rnd.random() < .5
        if lead in ("S", "HS"):
            n = rnd.randint(3, 30); ops = [(4, n)] + ops; q = (("T" * n) if (polyclip and strand == "-") else rseq(n)) + q
        if lead in ("H", "HS"): ops = [(5, rnd.randint(1, 20))] + ops
        if trail in ("S", "SH"):
            n = rnd.randint(3, 30); ops = ops + [(4, n)]; q = q + (("A" * n) if (polyclip and strand == "+") else rseq(n))
        if trail in ("H", "SH"): ops = ops + [(5, rnd.randint(1, 20))]
        if start < 0 or start + sum(l for o, l in ops if o in (0, 2, 3, 7, 8)) >= len(ref): return
        w.reads.append(dict(name=name, chr=locus["chr"], start=start, cigar=ops, seq=q, flag=flag | (16 if strand == "-" else 0), mapq=mapq, tags={}))
    n = 0
    for li, locus in enumerate(loci):
        for ci, ch in enumerate(locus["chains"]):
            full = [locus["pool"][i] for i in ch]
            for rep in range(per_chain):
                ex = list(full); strand = locus["strand"]
                if len(ex) == 1:
                    d1, d2 = rnd.randint(0, 8), rnd.randint(0, 8); ex = [(ex[0][0] + d1, ex[0][1] - d2)]
                else:
                    r = rnd.random()
                    if r < .12: ex = ex[1:]
                    elif r < .24: ex = ex[:-1]
                    if len(ex) > 1 and rnd.random() < .35:       # 4 bp off the (short-read) junction on one side
                        j = rnd.randrange(len(ex) - 1)
                        if rnd.random() < .5: ex[j + 1] = (ex[j + 1][0] - 4, ex[j + 1][1])
                        else: ex[j] = (ex[j][0], ex[j][1] + 4)
                kinds = [rnd.choice(EXON_KINDS) for _ in ex] if rep % 3 else [EXON_KINDS[(rep // 3 + k) % len(EXON_KINDS)] for k in range(len(ex))]
                r = rnd.random(); tails = (); into = 0
                if r < .3: tails = ((rnd.randint(60, 400), rnd.choice([6, 10, 18, 25, 34])),)
                elif r < .4: tails = ((rnd.randint(60, 300), rnd.choice([8, 14, 20])), (rnd.randint(60, 300), rnd.choice([12, 22, 30])))
                if tails and rnd.random() < .5: into = rnd.choice([4, 10, 16])
                name = "r%d_%s_c%d" % (n, locus["id"], ci); n += 1
                add(name, locus, ex, strand, kinds, rnd.choice(["", "S", "S", "HS", "H"]), rnd.choice(["", "S", "S", "SH", "H"]), tails, into, nn=rnd.random() < .2,
                    mapq=60 if rnd.random() < .9 else rnd.choice([0, 3, 20]))
                if rnd.random() < .12:                          # a secondary alignment of the same read at another locus
                    other = rnd.choice([l for l in loci if l is not locus and len(l["pool"]) > 1])
                    add(name, other, [other["pool"][i] for i in other["chains"][0]], other["strand"], ["M"], "S", "", flag=256)
    paths = w.write(dest)
    names = list(w.chroms); hdr = {"HD": {"VN": "1.6", "SO": "unsorted"}, "SQ": [{"SN": c, "LN": len(w.chroms[c])} for c in names]}
    u = os.path.join(dest, "u_ill.bam"); ill = os.path.join(dest, "illumina.bam"); k = 0
    with pysam.AlignmentFile(u, "wb", header=hdr) as out:
        for locus in loci:
            for ch in locus["chains"]:
                iso = [locus["pool"][i] for i in ch]
                for a, b in zip(iso, iso[1:]):
                    for rep in range(3):
                        l1 = min(40, a[1] - a[0] + 1); l2 = min(40, b[1] - b[0] + 1); ref = w.chroms[locus["chr"]]
                        r = pysam.AlignedSegment(); r.query_name = "s%d" % k; k += 1; r.flag = 0; r.reference_id = names.index(locus["chr"]); r.reference_start = a[1] - l1
                        r.cigartuples = [(0, l1), (3, b[0] - a[1] - 1), (0, l2)]; r.query_sequence = (ref[a[1] - l1:a[1]] + ref[b[0] - 1:b[0] - 1 + l2]).upper(); r.mapping_quality = 60
                        out.write(r)
    pysam.sort("-o", ill, u); pysam.index(ill); os.remove(u)
    return dict(bam=paths[0], fasta=os.path.join(dest, "genome.fa"), gtf=os.path.join(dest, "annotation.gtf"), illumina=ill)


PRE_PIPE = """From IQ Require Import Cigar Cigar2 PolyA PolyA2.
Open Scope Z_scope.
(* an alignment record: reference_start (0-based), CIGAR, query bases (A=0 C=1 G=2 T=3 other=4) *)
Definition arec := (Z * list cop * list Z)%type.
Definition quad := (Z * Z * Z * Z)%type.
Definition quad_eqb (a b:quad) : bool := let '(a1, a2, a3, a4) := a in let '(b1, b2, b3, b4) := b in (a1 =? b1) && (a2 =? b2) && (a3 =? b3) && (a4 =? b4).
(* parameters of the run: max_fake_terminal_exon_len, window, polyA_count, fraction numerator / denominator *)
Definition par := (Z * Z * Z * Z * Z)%type.
(* PolyAFinder.detect_polya: external / internal polyA and polyT positions *)
Definition finder (pr:par) (r:arec) : option quad :=
  let '(mf, w, need, num, den) := pr in let '(rs, ops, seq) := r in
  match find_polya_tail w need num den seq ops rs 2 (2 * w) false, find_polyt_head w need num den seq ops rs 2 (2 * w) false,
        find_polya_tail w need num den seq ops rs (4 * w) 2 true, find_polyt_head w need num den seq ops rs (4 * w) 2 true with
  | Ok ea, Ok et, Ok ia, Ok it => Some (ea, et, ia, it) | _, _, _, _ => None end.
Definition cigar_exons (r:arec) : list iv := let '(rs, ops, _) := r in map (fun b => fst (fst b)) (get_read_blocks3 rs ops).
(* the exons the read is reported with: SAM blocks of the CIGAR, minus the terminal exons that are an aligned polyA / polyT tail *)
Definition model_exons (pr:par) (r:arec) : option (list iv) :=
  let '(mf, w, need, num, den) := pr in
  match finder pr r with Some (ea, et, ia, it) => Some (fst (fst (add_polya_info mf (cigar_exons r) (mkp ea et ia it)))) | None => None end.
(* case: parameters, the alignment records of the BAM file that carry the line's read id on the line's chromosome (with the positions the real
   PolyAFinder returned for them in the run, where it was called), the exons column of the line *)
Definition tcase := (par * list (arec * option quad) * list iv)%type.
Definition check (c:tcase) : bool :=
  let '(pr, cands, _) := c in
  forallb (fun ct => match snd ct with None => true | Some q => match finder pr (fst ct) with Some q' => quad_eqb q q' | None => false end end) cands.
Definition prop (c:tcase) : bool :=
  let '(pr, cands, printed) := c in
  existsb (fun ct => match model_exons pr (fst ct) with Some ex => ivs_eqb ex printed | None => false end) cands.
"""


def sec_pipeline(ctx, quick):
    import pysam, pipeline as P
    from concurrent.futures import ThreadPoolExecutor
    root = P.scratch("iqv_c16_")
    hook = os.path.join(os.path.dirname(os.path.abspath(__file__)), "c16_hook.py")
    try:
        per_chain = 16 if quick else 40
        data = c16_dataset(ctx.seed, os.path.join(root, "data"), per_chain)
        regen = "props.c16.c16_dataset(seed=%d, dest=<dir>, per_chain=%d) rewrites the FASTA / GTF / BAM / short-read BAM of this run" % (ctx.seed, per_chain)
        recs = collections.defaultdict(list); n_rec = 0; kinds_seen = set(); shapes = collections.Counter()
        with pysam.AlignmentFile(data["bam"]) as bam:
            for a in bam:
                ops = [(int(o), int(l)) for o, l in a.cigartuples]
                recs[(a.query_name, a.reference_name)].append(dict(start=int(a.reference_start), cigar=ops, cigarstring=a.cigarstring, seq=a.query_sequence, flag=int(a.flag), mapq=int(a.mapping_quality)))
                n_rec += 1; kinds_seen.update(o for o, _ in ops)
                body = [o for o, _ in ops if o not in (4, 5)]
                if body[0] in (1, 2): shapes["leading indel"] += 1
                if body[-1] in (1, 2): shapes["trailing indel"] += 1
                if any(x in (1, 2) and y == 3 or x == 3 and y in (1, 2) for x, y in zip(body, body[1:])): shapes["indel next to N"] += 1
                if any(x == 3 and y == 3 for x, y in zip(body, body[1:])): shapes["N N"] += 1
        missing = set((0, 1, 2, 3, 4, 5, 7, 8)) - kinds_seen
        if missing: ctx.broken("harness:pipeline-generator", "the generated BAM lacks CIGAR operations %s" % sorted(missing))
        base = ["--bam", data["bam"], "-r", data["fasta"], "-d", "nanopore", "-p", "S", "--no_gzip"]
        g = ["-g", data["gtf"], "--complete_genedb"]
        jobs = [dict(name="genedb", args=base + g + ["-t", "1"]),
                dict(name="no-genedb", args=base + ["-t", "1"]),
                dict(name="genedb+illumina", args=base + g + ["-t", "1", "--illumina_bam", data["illumina"]]),
                dict(name="no-genedb+illumina", args=base + ["-t", "2", "--illumina_bam", data["illumina"]]),
                dict(name="genedb+high_memory", args=base + g + ["-t", "2", "--high_memory"])]
        if not quick:
            jobs += [dict(name="genedb+illumina+high_memory", args=base + g + ["-t", "2", "--high_memory", "--illumina_bam", data["illumina"]]),
                     dict(name="genedb+precise", args=base + g + ["-t", "1", "--matching_strategy", "precise"]),
                     dict(name="no-genedb+no_secondary", args=base + ["-t", "1", "--no_secondary"])]
        P.ensure_reference_index(data["fasta"])
        def run_job(job):
            out = os.path.join(root, job["name"] + "_out"); os.makedirs(out); log = os.path.join(root, job["name"] + ".c16.log")
            rc, txt = P.run_isoquant(out, job["args"], wrapper=hook, env_extra={"C16_LOG": log})
            return job, rc, txt, out, log
        with ThreadPoolExecutor(5) as ex:
            results = list(ex.map(run_job, jobs))
        for job, rc, txt, out, log in results:
            ctx.cov["pipeline_runs"] += 1
            if rc != 0:
                ctx.violation(None, "IsoQuant exits with %d on well-formed alignment records (%s)" % (rc, job["name"]), {"job": job["name"], "arguments": job["args"], "log_tail": txt[-2000:]}); continue
            pars = set(); traced = {}; exons_traced = {}
            if os.path.exists(log):
                for l in open(log):
                    v = l.rstrip("\n").split("\t")
                    if v[0] == "P": pars.add((int(v[1]), int(v[2]), Fraction(float(v[3])).limit_denominator(10 ** 6), int(v[4])))
                    elif v[0] == "D": traced[(v[1], v[2], int(v[3]), v[4])] = tuple(int(x) for x in v[5:9])
                    elif v[0] == "X": exons_traced[(v[1], v[2], int(v[3]), v[4])] = P.parse_ranges(v[5])
                    elif v[0] == "E": ctx.broken("harness:pipeline-trace", "run %s: the trace wrapper could not log a call: %s" % (job["name"], l[:300]))
            if len(pars) != 1:
                ctx.broken("harness:pipeline-trace", "run %s: expected one set of polyA parameters in the trace, got %s" % (job["name"], sorted(pars))); continue
            mf, win, frac, need = next(iter(pars))
            cpar = "(%s, %s, %s, %s, %s)" % (cz(mf), cz(win), cz(need), cz(frac.numerator), cz(frac.denominator))
            # observation points: the exons column of read_assignments.tsv (written only with --genedb); without an annotation the in-process
            # AlignmentInfo.read_exons after add_polya_info (trace), one line per processed record
            lines = []
            if "-g" in job["args"]:
                tsv = P.find(out, "S", "read_assignments.tsv")
                if tsv is None:
                    ctx.violation(None, "no read_assignments.tsv written (%s)" % job["name"], {"job": job["name"], "arguments": job["args"]}); continue
                for d in P.read_assignments(tsv):
                    lines.append(dict(d, cands=recs.get((d["read_id"], d["chr"]), []), observed="exons column of read_assignments.tsv"))
            else:
                for (rid, chr_id, st, cig), exs in exons_traced.items():
                    lines.append(dict(read_id=rid, chr=chr_id, exons=exs, assignment_type=None, isoform_id=None, observed="AlignmentInfo.read_exons after add_polya_info (trace)",
                                      cands=[c for c in recs.get((rid, chr_id), []) if c["start"] == st and c["cigarstring"] == cig]))
            cases = []; seen = set(); n_lines = 0
            for d in lines:
                n_lines += 1
                cands = d["cands"]
                if not cands:
                    ctx.violation(None, "a read is reported that has no alignment record on that chromosome", {"job": job["name"], "line": {k: v for k, v in d.items() if k != "cands"}}); continue
                key = (d["read_id"], d["chr"], tuple(d["exons"]), tuple((c["start"], c["cigarstring"]) for c in cands))
                if key in seen: continue
                seen.add(key)
                cterms = []
                for c in cands:
                    t = traced.get((d["read_id"], d["chr"], c["start"], c["cigarstring"]))
                    cterms.append("((%s, %s, %s), %s)" % (cz(c["start"]), cops(c["cigar"]), zlist(BASES.get(ch.upper(), 4) for ch in c["seq"]),
                                                        "None" if t is None else "(Some (%s, %s, %s, %s))" % tuple(cz(x) for x in t)))
                blocks = [sum(1 for o, _ in c["cigar"] if o == 3) + 1 for c in cands]
                cases.append(("(%s, %s, %s)" % (cpar, clist(cterms), civs(d["exons"])),
                              {"job": job["name"], "arguments": job["args"], "dataset": regen, "observed": d["observed"], "read_id": d["read_id"], "chr": d["chr"], "assignment_type": d["assignment_type"], "isoform_id": d["isoform_id"],
                               "exons_column": d["exons"], "alignment_records(reference_start, cigar, flag, mapq)": [(c["start"], c["cigarstring"], c["flag"], c["mapq"]) for c in cands],
                               "query_sequences": [c["seq"] for c in cands], "max_fake_terminal_exon_len": mf,
                               "nontrivial": any(o not in (0, 3) for c in cands for o, _ in c["cigar"]) or len(d["exons"]) < min(blocks)}))
            n_trim = sum(1 for _, o in cases if len(o["exons_column"]) < min(sum(1 for x in c[1].split("N")) for c in o["alignment_records(reference_start, cigar, flag, mapq)"]))
            mism, viol = ctx.corr("pipeline-exons-column/%s" % job["name"], PRE_PIPE, cases, shard=40, sample=1, ctype="tcase", nontrivial=lambda o: o["nontrivial"])
            ctx.corr_report("pipeline-exons-column/%s" % job["name"], mism, viol, keyfn=lambda o: None,
                            what="reported exons (exons column of read_assignments.tsv / AlignmentInfo.read_exons) differ from the blocks of the record's CIGAR with the aligned polyA/polyT exons removed")
            ctx.notes.append("pipeline %s: %d TSV lines, %d distinct (read, exons) cases, %d with fewer exons than N-separated blocks, %d detect_polya calls traced, max_fake_terminal_exon_len=%d" % (job["name"], n_lines, len(cases), n_trim, len(traced), mf))
            if not cases: ctx.broken("harness:pipeline", "run %s printed no read assignment" % job["name"])
            elif n_trim == 0 and "precise" not in job["name"]: ctx.broken("harness:pipeline-generator", "run %s: no read lost an aligned polyA/polyT exon (generator too weak)" % job["name"])
        ctx.notes.append("pipeline data: %d alignment records, CIGAR operations %s, %s" % (n_rec, sorted(kinds_seen), dict(shapes)))
        ctx.rule("pipeline: generated two-chromosome data (annotated '+' and '-' genes, an unannotated spliced locus, an unannotated mono-exonic locus; %d alignment records with every operation of {M,=,X,I,D,N,S,H}, "
                 "indels next to N and at both ends, N N, all clip shapes, polyA tails / polyT heads aligned as one or two terminal exons, junctions 4 bp off the short-read junctions, secondary alignments under the same "
                 "read id, low MAPQ) through isoquant.py with / without --genedb, with --illumina_bam, with --high_memory: for EVERY line of read_assignments.tsv (runs without --genedb write no such file: there every AlignmentInfo.read_exons after add_polya_info, taken from the trace) Coq recomputes the exons from the BAM record alone "
                 "(get_read_blocks model = SAM blocks, PolyAFinder model on the query sequence, add_polya_info model with the run's max_fake_terminal_exon_len) and compares them with the exons column; one of the read's "
                 "records on that chromosome must match; the positions the real PolyAFinder returned in the run (trace) are compared with the finder model; non-trivial = a CIGAR with operations other than M/N or a trimmed read" % n_rec)
    finally:
        shutil.rmtree(root, ignore_errors=True)
