"""C16 — CIGAR -> exon blocks, polyA/polyT exon trimming, tail detection."""
import itertools, random, types
from lib import *

OPN = {0: "Cigar.M", 1: "Cigar.I", 2: "Cigar.D", 3: "Cigar.N", 4: "Cigar.S", 5: "Cigar.H", 6: "Cigar.P", 7: "Cigar.EQ", 8: "Cigar.X"}
def cops(ops): return clist(ops, lambda o: "(%s,%s)" % (OPN[o[0]], cz(o[1])))
def cblocks3(ref, read, cig): return clist(list(zip(ref, read, cig)), lambda t: "(%s,%s,%s)" % (civ(t[0]), civ(t[1]), civ(t[2])))

PRE_GRB = """From IQ Require Import Cigar Cigar2.
Open Scope Z_scope.
Definition b3_eqb := list_eqb (pair_eqb (pair_eqb iv_eqb iv_eqb) iv_eqb).
Definition b2_eqb := list_eqb (pair_eqb iv_eqb iv_eqb).
Definition check (c:(Z * list cop) * list (iv*iv*iv)) := b3_eqb (get_read_blocks3 (fst (fst c)) (snd (fst c))) (snd c).
(* specification evaluated on the implementation's output: reference and read blocks are the SAM blocks *)
Definition prop (c:(Z * list cop) * list (iv*iv*iv)) := b2_eqb (sam_blocks (fst (fst c)) (snd (fst c))) (map fst (snd c)).
"""

def gen_cigars(ctx, maxlen, nrandom):
    kinds = [(o, l) for o in (0, 1, 2, 3, 4, 5, 6, 7, 8) for l in (1, 2)]
    for n in range(1, maxlen + 1):
        for ops in itertools.product(kinds, repeat=n):
            for rs in (0, 255):
                yield rs, list(ops)
    rnd = ctx.rnd
    for _ in range(nrandom):
        yield rnd.randint(0, 10 ** 6), [(rnd.choice([0, 0, 0, 1, 2, 3, 3, 4, 5, 6, 7, 8]), rnd.randint(1, 500)) for _ in range(rnd.randint(1, 40))]


def valid_for_pysam(ops):
    return sum(l for o, l in ops if o in (0, 1, 4, 7, 8)) > 0 and any(o in (0, 7, 8) for o, _ in ops)

def random_valid_cigar(rnd, maxops=12, maxlen=60, allow_p=False):
    """clips at the ends only, at least one match"""
    ops = []
    if rnd.random() < .3: ops.append((5, rnd.randint(1, 20)))
    if rnd.random() < .5: ops.append((4, rnd.randint(1, 40)))
    n = rnd.randint(1, maxops)
    body = []
    for i in range(n):
        body.append((rnd.choice([0, 0, 0, 0, 1, 2, 3, 3, 7, 8]), rnd.randint(1, maxlen)))
    body.insert(rnd.randint(0, len(body)), (0, rnd.randint(1, maxlen)))
    ops += body
    if rnd.random() < .5: ops.append((4, rnd.randint(1, 40)))
    if rnd.random() < .3: ops.append((5, rnd.randint(1, 20)))
    return ops


def run(ctx):
    import pysam
    from src.common import get_read_blocks, concat_gapless_blocks, correct_bam_coords
    from src.alignment_info import AlignmentInfo
    from src import polya_verification as pv
    from src import polya_finder as pf
    quick = ctx.tier == "quick"
    ctx.prepare("C16.v")
    ctx.rule("regenerated from the source on every run (tools/translate_extra.py -> coq/gen/Extra.v; bridged to the models by C16_cigar_codes_are_the_sources, C16_polya_exon_counts_are_the_sources, C16_finder_defaults_are_the_sources): CigarEvent values with get_match_events / get_ins_del_match_events (the code -> constructor table OPN of this file is CigarBridgeDefs.cigar_of_code), the sentinel / scan direction / break test / exon test of PolyAFixer.count_polya_exons and count_polyt_exons, the PolyAFinder defaults (window 16, fraction 0.75, polyA_count 12) and its external / internal search windows")

    # ---- 1. get_read_blocks: exhaustive short CIGARs + random long ones
    cases = []
    for rs, ops in gen_cigars(ctx, 3 if quick else 4, 3000 if quick else 20000):
        try:
            r = get_read_blocks(rs, ops)
        except Exception as e:
            ctx.violation(None, "get_read_blocks raises %s" % type(e).__name__, {"ref_start": rs, "cigar": ops}); continue
        cases.append(("((%s, %s), %s)" % (cz(rs), cops(ops), cblocks3(*r)), {"ref_start": rs, "cigar": ops, "impl": [list(map(list, x)) for x in r]}))
    ctx.rule("get_read_blocks: every CIGAR of <= %d operations over {M,I,D,N,S,H,P,=,X} x lengths {1,2} x ref_start {0,255} (exhaustive) + random CIGARs of up to 40 operations; non-trivial = at least one block reported" % (3 if quick else 4))
    mism, viol = ctx.corr("get_read_blocks", PRE_GRB, cases, nontrivial=lambda o: len(o["impl"][0]) > 0)
    ctx.corr_report("get_read_blocks", mism, viol)
    ctx.exhaustive = False

    # ---- 2. AlignmentInfo on real pysam segments (cigartuples glue) + pysam get_blocks + concat_gapless_blocks
    PRE_AI = PRE_GRB + """
Definition strip_clips (ops:list cop) := filter (fun c => negb (is_clip (fst c))) ops.
Fixpoint split_n (acc:list cop) (l:list cop) : list (list cop) :=
  match l with [] => [rev acc] | c :: t => match fst c with Cigar.N => rev acc :: split_n [] t | _ => split_n (c :: acc) t end end.
Definition normal_form (ops:list cop) : bool :=
  forallb (fun run => match run with [] => false | c :: _ => is_match (fst c) && is_match (fst (last run c)) end) (split_n [] (strip_clips ops)).
Definition check2 (c:((Z * list cop) * list (iv*iv*iv)) * (list iv * list iv)) :=
  check (fst c) && ivs_eqb (pysam_blocks (fst (fst (fst c))) (snd (fst (fst c)))) (fst (snd c))
  && ivs_eqb (concat_gapless_blocks (fst (snd c)) (snd (fst (fst c)))) (snd (snd c)).
(* for CIGARs in normal form (every N-separated run starts and ends with a match) the legacy helper yields the same exons *)
Definition prop2 (c:((Z * list cop) * list (iv*iv*iv)) * (list iv * list iv)) :=
  prop (fst c) && (negb (normal_form (snd (fst (fst c)))) || ivs_eqb (correct_bam_coords (snd (snd c))) (map (fun b => fst (fst b)) (snd (fst c)))).
"""
    PRE_AI = PRE_AI.replace("Definition check (", "Definition check0 (").replace("Definition prop (", "Definition prop0 (")
    PRE_AI = PRE_AI.replace("  check (fst c) &&", "  check0 (fst c) &&").replace("  prop (fst c) &&", "  prop0 (fst c) &&")
    PRE_AI += "Definition check := check2.\nDefinition prop := prop2.\n"
    rnd = ctx.rnd; cases = []
    for i in range(1500 if quick else 10000):
        ops = random_valid_cigar(rnd)
        rs = rnd.randint(0, 100000)
        a = pysam.AlignedSegment(); a.query_name = "r"; a.flag = 0; a.reference_id = 0; a.reference_start = rs; a.cigartuples = ops
        qlen = sum(l for o, l in ops if o in (0, 1, 4, 7, 8)); a.query_sequence = "".join(rnd.choice("ACGT") for _ in range(qlen))
        ai = AlignmentInfo(a)
        blocks = a.get_blocks(); cg = concat_gapless_blocks(blocks, a.cigartuples)
        ops2 = [(int(o), int(l)) for o, l in a.cigartuples]
        cases.append(("(((%s, %s), %s), (%s, %s))" % (cz(rs), cops(ops2), cblocks3(ai.read_exons, ai.read_blocks, ai.cigar_blocks), civs(blocks), civs(cg)),
                      {"ref_start": rs, "cigar": ops2, "exons": ai.read_exons, "get_blocks": blocks, "concat_gapless": cg}))
    ctx.rule("AlignmentInfo/concat_gapless_blocks: random well-formed CIGARs (clips at the ends, >=1 match) on real pysam.AlignedSegment objects")
    mism, viol = ctx.corr("alignment_info+concat_gapless", PRE_AI, cases)
    ctx.corr_report("alignment_info+concat_gapless", mism, viol)

    # ---- 3. add_polya_info with all position pairs over small exon lists
    PRE_PA = """From IQ Require Import PolyA PolyA2.
Open Scope Z_scope.
Definition pinfo_eqb (a b:pinfo) := (ext_a a =? ext_a b) && (ext_t a =? ext_t b) && (int_a a =? int_a b) && (int_t a =? int_t b).
Definition res := outcome (list iv * pinfo * (Z*Z)).
Definition model (mf:Z) (ex:list iv) (p:pinfo) : res :=
  let r := add_polya_info mf ex p in match fst (fst r) with [] => Raises 1 | _ => Ok r end.
Definition res_eqb := outcome_eqb (pair_eqb (pair_eqb ivs_eqb pinfo_eqb) (pair_eqb Z.eqb Z.eqb)).
Definition check (c:(Z * list iv * pinfo) * res) := let '(mf, ex, p) := fst c in res_eqb (model mf ex p) (snd c).
Fixpoint is_infix (a b:list iv) : bool :=
  match b with [] => match a with [] => true | _ => false end
  | _ :: t => ivs_eqb a (firstn (length a) b) || is_infix a t end.
(* for every pair of tail positions: non-empty contiguous result, tail positions on the retained exons *)
Definition prop (c:(Z * list iv * pinfo) * res) :=
  let '(mf, ex, p) := fst c in
    match snd c with
    | Raises _ => false
    | Ok (ex', p', (a, t)) =>
       negb (length ex' =? 0)%nat && is_infix ex' ex &&
       ((a <=? 0) || (int_a p =? -1) || (snd (last ex' (0,0)) <=? int_a p') || (0 <? t)) &&
       ((t <=? 0) || (int_t p =? -1) || (int_t p' <=? fst (hd (0,0) ex')))
    end.
"""
    class FakeAln: pass
    class FakeFinder:
        def __init__(self, info): self.info = info
        def detect_polya(self, aln): return self.info
    params = types.SimpleNamespace(max_fake_terminal_exon_len=8)
    fixer = pv.PolyAFixer(params)
    def run_add(exons, pos4):
        ai = AlignmentInfo.__new__(AlignmentInfo)
        ai.alignment = None; ai.read_exons = list(exons); ai.read_blocks = [(i, i) for i in range(len(exons))]; ai.cigar_blocks = [(i, i) for i in range(len(exons))]
        ai.exons_changed = False; ai.read_start = exons[0][0]; ai.read_end = exons[-1][1]
        info = pf.PolyAInfo(pos4[0], pos4[1], pos4[2], pos4[3])
        # remember the counts the fixer returns
        cnt = {}
        class Fx:
            def correct_read_info(self, ex, pi):
                cnt["v"] = fixer.correct_read_info(ex, pi); return cnt["v"]
        try:
            ai.add_polya_info(FakeFinder(info), Fx())
        except IndexError:
            return None
        assert len(ai.read_blocks) == len(ai.read_exons) == len(ai.cigar_blocks)
        # read_blocks / cigar_blocks must be trimmed in step with the exons
        if ai.read_exons:
            k = exons.index(ai.read_exons[0]) if ai.read_exons[0] in exons else -1
            if [b[0] for b in ai.read_blocks] != list(range(k, k + len(ai.read_exons))):
                ctx.violation(None, "read_blocks not trimmed in step with read_exons", {"exons": exons, "positions": pos4})
        p = ai.polya_info
        return ai.read_exons, (p.external_polya_pos, p.external_polyt_pos, p.internal_polya_pos, p.internal_polyt_pos), cnt["v"]
    cases = []; exon_sets = []
    coords = list(range(1, 41, 3))
    for n in (1, 2, 3, 4):
        for _ in range(12 if quick else 60):
            c = sorted(rnd.sample(range(1, 60), 2 * n)); exon_sets.append([(c[2 * i], c[2 * i + 1]) for i in range(n)])
    exon_sets += [[(10, 12), (20, 21), (30, 45)], [(10, 30), (40, 41), (50, 52)], [(5, 6), (9, 10)], [(100, 120), (200, 230), (300, 330)]]
    for ex in exon_sets:
        pts = sorted(set([-1] + [x + d for e in ex for x in e for d in (-2, 0, 1, 3)] + [ex[0][0] - 5, ex[-1][1] + 5]))
        pts = [p for p in pts if p == -1 or p > 0]
        pairs = [(a, t) for a in pts for t in pts]
        if quick and len(pairs) > 150: pairs = rnd.sample(pairs, 150)
        for (ia, it) in pairs:
            ea = ia if ia == -1 or rnd.random() < .5 else ia + rnd.randint(0, 3)
            et = it if it == -1 or rnd.random() < .5 else max(1, it - rnd.randint(0, 3))
            r = run_add(ex, (ea, et, ia, it))
            inp = "(%s, %s, (mkp %s %s %s %s))" % (cz(8), civs(ex), cz(ea), cz(et), cz(ia), cz(it))
            out = "(Raises 1)" if r is None else "(Ok (%s, (mkp %s %s %s %s), (%s, %s)))" % (civs(r[0]), cz(r[1][0]), cz(r[1][1]), cz(r[1][2]), cz(r[1][3]), cz(r[2][0]), cz(r[2][1]))
            cases.append(("(%s, %s)" % (inp, out), {"exons": ex, "positions(ext_a,ext_t,int_a,int_t)": (ea, et, ia, it), "impl": r}))
    ctx.rule("add_polya_info: exon lists of 1-4 exons x internal polyA/polyT positions at every exon boundary +-{2,0,1,3} and outside the read (max_fake_terminal_exon_len=8); non-trivial = at least one exon trimmed")
    mism, viol = ctx.corr("add_polya_info", PRE_PA, cases, nontrivial=lambda o: o["impl"] is None or len(o["impl"][0]) < len(o["exons"]))
    ctx.corr_report("add_polya_info", mism, viol)

    # ---- 4. PolyAFinder: sliding window, reference projection, tail/head detection on real pysam segments
    PRE_F = """From IQ Require Import Cigar Cigar2.
Open Scope Z_scope.
Definition zres_eqb := outcome_eqb Z.eqb.
(* case: ((w, need), seq, ops, ref_start, (from, to, entire), which) -> impl *)
Definition model (c:(Z*Z) * list Z * list cop * Z * (Z*Z*bool) * bool) : outcome Z :=
  let '(wn, seq, ops, rs, (fr, to, en), tail) := c in
  if tail then find_polya_tail (fst wn) (snd wn) 3 4 seq ops rs fr to en else find_polyt_head (fst wn) (snd wn) 3 4 seq ops rs fr to en.
Definition check (c:((Z*Z) * list Z * list cop * Z * (Z*Z*bool) * bool) * outcome Z) := zres_eqb (model (fst c)) (snd c).
Definition prop (c:((Z*Z) * list Z * list cop * Z * (Z*Z*bool) * bool) * outcome Z) :=
  match snd c with Ok v => (v =? -1) || (0 <? v) | Raises _ => true end.
"""
    BASE = {"A": 0, "C": 1, "G": 2, "T": 3, "N": 4}
    cases = []
    def mkseg(ops, rs, seq):
        a = pysam.AlignedSegment(); a.query_name = "r"; a.flag = 0; a.reference_id = 0; a.reference_start = rs; a.cigartuples = ops; a.query_sequence = seq
        return a
    n_f = 1200 if quick else 8000
    for i in range(n_f):
        w = rnd.choice([4, 8, 16, 16])
        finder = pf.PolyAFinder(window_size=w, min_polya_fraction=0.75)
        ops = random_valid_cigar(rnd, maxops=6, maxlen=30)
        ops = [o for o in ops if o[0] != 6]
        qlen = sum(l for o, l in ops if o in (0, 1, 4, 7, 8))
        kind = rnd.random()
        seq = [rnd.choice("ACGT") for _ in range(qlen)]
        # plant A-rich tail / T-rich head around the clip boundaries
        tl = rnd.randint(0, min(qlen, 50))
        for j in range(qlen - tl, qlen):
            if rnd.random() < .9: seq[j] = "A"
        hl = rnd.randint(0, min(qlen, 50))
        for j in range(0, hl):
            if rnd.random() < .9: seq[j] = "T"
        if rnd.random() < .1: seq = [c.lower() if rnd.random() < .3 else c for c in seq]
        seq = "".join(seq)
        rs = rnd.randint(40, 5000)
        a = mkseg(ops, rs, seq)
        for tail in (True, False):
            for (fr, to, en) in ((2, 2 * w, False), (4 * w, 2, True)):
                f = finder.find_polya_tail if tail else finder.find_polyt_head
                try:
                    v = f(a, fr, to, en) if tail else f(a, fr, to, en)
                    out = "(Ok %s)" % cz(v)
                except AssertionError:
                    v = "AssertionError"; out = "(Raises 2)"
                term = "((((((%s,%s), %s), %s), %s), (%s,%s,%s)), %s)" % (cz(w), cz(int(w * 0.75)), clist([BASE.get(ch.upper(), 4) for ch in seq], str), cops(ops), cz(rs), cz(fr), cz(to), cbool(en), cbool(tail))
                cases.append(("(%s, %s)" % (term, out), {"window": w, "seq": seq, "cigar": ops, "ref_start": rs, "from,to,entire": (fr, to, en), "tail": tail, "impl": v}))
    ctx.rule("PolyAFinder.find_polya_tail/find_polyt_head (incl. find_polya, move_ref_coord_alogn_alignment) on real pysam segments: random CIGARs with planted A tails / T heads, windows {4,8,16}; non-trivial = a tail was found")
    mism, viol = ctx.corr("polya_finder", PRE_F, cases, shard=300, nontrivial=lambda o: o["impl"] not in (-1, "AssertionError"))
    ctx.corr_report("polya_finder", mism, viol)

    # real finder + real fixer + real AlignmentInfo on multi-exon reads with T heads and A tails: trimming never fails
    finder = pf.PolyAFinder(); fixer40 = pv.PolyAFixer(types.SimpleNamespace(max_fake_terminal_exon_len=40))
    n_e2e = 30000 if quick else 300000; both = inv = trimmed = 0
    for i in range(n_e2e):
        nex = rnd.randint(2, 4); exl = [rnd.randint(3, 40) for _ in range(nex)]
        clipa = rnd.randint(0, 30); clipt = rnd.randint(0, 30); ops = []
        if clipt: ops.append((4, clipt))
        for k, l in enumerate(exl):
            if k: ops.append((3, rnd.randint(20, 200)))
            ops.append((0, l))
        if clipa: ops.append((4, clipa))
        ln = sum(l for o, l in ops if o in (0, 4)); seq = [rnd.choice("ACGT") for _ in range(ln)]
        tl = rnd.randint(0, ln); hl = rnd.randint(0, ln)
        for j in range(max(0, ln - tl), ln):
            if rnd.random() < .92: seq[j] = "A"
        for j in range(0, min(hl, ln)):
            if rnd.random() < .92: seq[j] = "T"
        a = mkseg(ops, 1000, "".join(seq)); ai = AlignmentInfo(a); before = list(ai.read_exons)
        try:
            ai.add_polya_info(finder, fixer40)
            okr = len(ai.read_exons) > 0 and ai.read_exons == sorted(ai.read_exons)
        except IndexError:
            okr = False
        p = ai.polya_info
        if p is not None and p.internal_polya_pos != -1 and p.internal_polyt_pos != -1: both += 1
        if okr and len(ai.read_exons) < len(before): trimmed += 1
        if not okr:
            ctx.violation(None, "add_polya_info with the real PolyAFinder leaves no exon (IndexError / empty list)", {"cigar": ops, "seq": "".join(seq), "ref_start": 1000, "exons_before": before})
    ctx.count(evaluations=n_e2e, nontrivial=trimmed)
    ctx.rule("end-to-end trimming: random 2-4 exon reads with planted T heads / A tails through the real PolyAFinder, PolyAFixer and AlignmentInfo.add_polya_info; non-trivial = exons were trimmed")
    ctx.notes.append("end-to-end trimming: %d reads, %d with both internal tails, %d trimmed" % (n_e2e, both, trimmed))
    ctx.assume.append("pysam/htslib: cigartuples, get_blocks, reference_end")
