"""C15 — saved read assignments round-trip losslessly and can be reused.

Correspondences are byte-exact in both directions against the real code: real objects are serialized by the real
writers, Coq checks (a) model enc = real bytes, (b) model dec (real bytes) = what the real reader returned, and the
specification (real reader output = original record; the two real readers of a stream agree and stop at the same
offset).  Python additionally compares the real round trip field by field."""
import io, os, gc, ast, sys, enum, glob, types, shutil, logging, tempfile, inspect, textwrap, traceback
from fractions import Fraction
from lib import *

MULT = 1 << 20
KEYWORDS = ("all", "none", "at", "in", "if", "then", "else", "fun", "match", "end", "with", "Type", "Set", "Prop", "return")   # tools/translate_tables.py coq_ident
EXC = {"OverflowError": 1, "AssertionError": 2, "ValueError": 3, "UnicodeDecodeError": 4, "UnicodeEncodeError": 4, "IndexError": 5, "EOFError": 7}


# ------------------------------------------------------------------ Coq printers
def nlist(vals):
    """list N literal; long lists are split into chunks joined by ++ (a literal of tens of thousands of elements overflows coqc's stack),
       long runs of one value become (nrep n v)"""
    vals = list(vals)
    if not vals: return "[]"
    if len(vals) <= 1000: return "[" + ";".join(map(str, vals)) + "]%N"
    segs = []; i = 0; lit = []
    def flush():
        while lit:
            segs.append("[" + ";".join(map(str, lit[:1000])) + "]%N"); del lit[:1000]
    while i < len(vals):
        j = i
        while j < len(vals) and vals[j] == vals[i]: j += 1
        if j - i >= 200: flush(); segs.append("(nrep %d %d)" % (j - i, vals[i]))
        else: lit.extend(vals[i:j])
        i = j
    flush()
    return "(" + " ++ ".join(segs) + ")"
def cs(s): return nlist(ord(c) for c in s)
def cbs(b): return nlist(b)
def cos(s): return "None" if s is None else "(Some %s)" % cs(s)
def cq(x):
    f = Fraction(x); return "(Qmake %s %d%%positive)" % (cz(f.numerator), f.denominator)
def cpen(x): return "(enc_penalty %s)" % cq(x)
def cen(prefix, m): return "%s_%s" % (prefix, m.name + "_" if m.name in KEYWORDS else m.name)
def cbools(l): return clist(l, cbool)
def czz(p): return "(%s,%s)" % (cz(p[0]), cz(p[1]))
def cdval(v):
    if isinstance(v, str): return "DStr %s" % cs(v)
    if isinstance(v, tuple): return "DPair %s %s" % (cz(v[0]), cz(v[1]))
    return "DInt %s" % cz(v)
def cdict(d): return clist(list(d.items()), lambda kv: "(%s, %s)" % (cs(kv[0]), cdval(kv[1])))
def cev(e): return "(MkEvent %s %s %s %s)" % (cen("MES", e["t"]), czz(e["iso"]), czz(e["read"]), cz(e["info"]))
def cmatch(m): return "(MkMatch %s %s %s %s %s %s)" % (cos(m["gene"]), cos(m["tr"]), cs(m["strand"]), cen("MC", m["cls"]), cpen(m["pen"]), clist(m["events"], cev))
def cra(a):
    return "(MkRA %s %s %s %s %s %s (%s,%s,%s,%s) %s %s %s %s %s %s %s %s %s %s %s %s %s)" % (
        cz(a["id"]), cs(a["read_id"]), czz(a["region"]), clist(a["exons"], czz), clist(a["corrected"], czz), cbools(a["flags"]),
        cz(a["polya"][0]), cz(a["polya"][1]), cz(a["polya"][2]), cz(a["polya"][3]), cs(a["group"]), cs(a["mapped_strand"]), cs(a["strand"]), cs(a["chr"]),
        cz(a["mapq"]), cen("RAT", a["type"]), cen("RAT", a["gene_type"]), clist(a["matches"], cmatch), cdict(a["info"]), cdict(a["attrs"]),
        cbool(a["introns_match"]), czs(a["exon_profile"]), czs(a["intron_profile"]))
def cbasic(b):
    return "(MkBasic %s %s %s %s %s %s %s %s %s %s %s %s)" % (cz(b["id"]), cs(b["read_id"]), cs(b["chr"]), cz(b["start"]), cz(b["end"]), czz(b["region"]),
        cbools(b["flags"]), cen("RAT", b["type"]), cen("RAT", b["gene_type"]), cpen(b["pen"]), clist(b["genes"], cs), clist(b["isoforms"], cs))
def cgene(g): return "(MkGene %s %s %s %s %s %s %s)" % (cz(g["delta"]), clist(g["genes"], cs), cs(g["chr"]), cz(g["start"]), cz(g["end"]), cz(g["rstart"]), cz(g["rend"]))
def cout(o, f):
    """('ok', value) | ('raises', class name)"""
    return "(Ok %s)" % f(o[1]) if o[0] == "ok" else "(Raises %d)" % EXC.get(o[1], 6)


class Strict(io.BytesIO):
    """the harness stream: a read past the end raises instead of returning fewer bytes (real files: int.from_bytes(b'') = 0 silently)"""
    def read(self, n=-1):
        b = super().read(n)
        if n is not None and n >= 0 and len(b) < n: raise EOFError("short read")
        return b

class Recording(io.BytesIO):
    """remembers (offset, length) of every write call: the boundaries of the primitive fields"""
    def __init__(self): super().__init__(); self.chunks = []
    def write(self, b):
        self.chunks.append((self.tell(), len(b))); return super().write(b)

def attempt(f):
    try: return ("ok", f())
    except Exception as e: return ("raises", type(e).__name__)


PRE = """From IQ Require Import Codec0 SaveFormat SaveFormat2. From IQ.gen Require Import Tables. From Coq Require Import QArith.
Open Scope Z_scope.
Definition SB := @SB@.   (* string writers of the code under test: true = the prefix is the number of UTF-8 bytes (fixes/C15_string_length_in_bytes.diff), false = the number of characters *)
Definition RR := @RR@.   (* gene header layout of the code under test: true = with the reference window of the reads (fixes/C18_serialize_read_region.diff), false = without *)
Definition SG := @SG@.   (* how read_dict of the code under test reads integer values: true = read_int_neg (fixes/C15_read_dict_sign.diff), false = read_int *)
Definition lenb {A} (l:list A) : Z := Z.of_N (fold_left (fun n _ => N.succ n) l 0%N).
Definition nrep (n v:N) : list N := N.iter n (cons v) [].
(* model decoder result vs. outcome of the real reader (value, unread bytes); None <-> any exception *)
Definition rd_eqb {A} (e:A -> A -> bool) (m:option (A * list N)) (r:outcome (A * Z)) : bool :=
  match m, r with Some (v, rest), Ok (v', n) => e v v' && (lenb rest =? n) | None, Raises _ => true | _, _ => false end.
Definition rd_is {A} (e:A -> A -> bool) (r:outcome (A * Z)) (v:A) (n:Z) : bool := match r with Ok (v', n') => e v v' && (n =? n') | _ => false end.
Definition is_ok {A} (o:outcome A) : bool := match o with Ok _ => true | _ => false end.
Definition wr_eqb := outcome_eqb bytes_eqb.
Definition u_ok (w:nat) (v:Z) := (0 <=? v) && (v <? Z.of_N (256 ^ N.of_nat w)).
Definition s31_ok (v:Z) := (-2147483648 <? v) && (v <? 2147483648).
(* the documented domain of strings: any text (Unicode scalar values) whose UTF-8 encoding is short enough - for BOTH variants of the code under test
   (the writer that counts characters violates it on every non-ASCII string: known finding C15:string-length-in-characters) *)
Definition text_ok (s:str) := forallb scalar s.
Definition str_ok (s:str) := text_ok s && (blen s <? 65536)%N.
Definition ostr_ok (o:option str) := match o with None => true | Some s => text_ok s && (blen s <? 65535)%N end.
Definition c_strx : codec str := if SB then c_str else c_str_unrepaired.
Definition dval_ok (v:dval) := match v with DInt x => s31_ok x | DStr s => str_ok s | DPair a b => s31_ok a && s31_ok b end.
Fixpoint nodupb (l:list str) : bool := match l with [] => true | x :: t => negb (existsb (str_eqb x) t) && nodupb t end.
Definition dict_ok (d:dict) := forallb (fun e => str_ok (fst e) && dval_ok (snd e)) d && nodupb (map fst d).
Definition write_list_chk {A} (c:codec A) (l:list A) : outcome (list N) := Ok (enc (c_listg c) l).
"""

PRE_PRIM = PRE + """
Inductive pcase :=
| PInt (w:nat) (v:Z) (wr:outcome (list N)) (rd:outcome (Z * Z))
| PNeg (v:Z) (wr:outcome (list N)) (rd:outcome (Z * Z))
| PStr (s:str) (trail:list N) (wr:outcome (list N)) (rd:outcome (str * Z))
| PStrOpt (o:option str) (trail:list N) (wr:outcome (list N)) (rd:outcome (option str * Z))
| PBools (l:list bool) (wr:outcome (list N)) (rd:outcome (list bool * Z))
| PListInt (l:list Z) (wr:outcome (list N)) (rd:outcome (list Z * Z))
| PListNeg (l:list Z) (wr:outcome (list N)) (rd:outcome (list Z * Z))
| PListStr (l:list str) (wr:outcome (list N)) (rd:outcome (list str * Z))
| PPairs (l:list (Z*Z)) (wr:outcome (list N)) (rd:outcome (list (Z*Z) * Z))
| PDict (d:dict) (trail:list N) (wr:outcome (list N)) (rd:outcome (dict * Z))
(* readers on bytes that no writer produced *)
| RNeg (b:list N) (rd:outcome (Z * Z))
| RStr (b:list N) (rd:outcome (str * Z))
| RStrOpt (b:list N) (rd:outcome (option str * Z))
| RBools (n:nat) (b:list N) (rd:outcome (list bool * Z))
| RDict (b:list N) (rd:outcome (dict * Z))
| RConst (name:N) (model impl:Z).
Definition u_dec (w:nat) (l:list N) : option (Z * list N) := match dec_be w l with Some (n, r) => Some (Z.of_N n, r) | None => None end.
Definition after {A} (wr:outcome (list N)) (trail:list N) (f:list N -> option (A * list N)) (e:A -> A -> bool) (rd:outcome (A * Z)) : bool :=
  match wr with Ok b => rd_eqb e (f (b ++ trail)) rd | Raises _ => true end.
Definition check (c:pcase) : bool :=
  match c with
  | PInt w v wr rd => wr_eqb (write_int_chk w v) wr && after wr [] (u_dec w) Z.eqb rd
  | PNeg v wr rd => wr_eqb (write_int_neg_chk v) wr && after wr [] (dec c_neg) Z.eqb rd
  | PStr s t wr rd => wr_eqb (write_string_chk SB s) wr && after wr t (dec c_str) str_eqb rd
  | PStrOpt o t wr rd => wr_eqb (write_string_or_none_chk SB o) wr && after wr t (dec c_str_opt) ostr_eqb rd
  | PBools l wr rd => wr_eqb (write_bool_array_chk l) wr && after wr [] (dec (c_bools (length l))) bools_eqb rd
  | PListInt l wr rd => wr_eqb (write_list_chk c_u32 l) wr && after wr [] (dec (c_listg c_u32)) zs_eqb rd
  | PListNeg l wr rd => wr_eqb (write_list_chk c_neg l) wr && after wr [] (dec c_negs) zs_eqb rd
  | PListStr l wr rd => wr_eqb (write_list_chk c_strx l) wr && after wr [] (dec c_strs) strs_eqb rd
  | PPairs l wr rd => wr_eqb (write_list_chk c_zpair l) wr && after wr [] (dec c_pairs) (list_eqb zz_eqb) rd
  | PDict d t wr rd => wr_eqb (Ok (enc (c_dict SG) d)) wr && after wr t (dec (c_dict SG)) dict_eqb rd
  | RNeg b rd => rd_eqb Z.eqb (dec c_neg b) rd
  | RStr b rd => rd_eqb str_eqb (dec c_str b) rd
  | RStrOpt b rd => rd_eqb ostr_eqb (dec c_str_opt b) rd
  | RBools n b rd => rd_eqb bools_eqb (dec (c_bools n) b) rd
  | RDict b rd => rd_eqb dict_eqb (dec (c_dict SG) b) rd
  | RConst _ m i => m =? i
  end.
(* inside the documented domain the real writer succeeds and the real reader returns the value and consumes exactly its bytes *)
Definition prop (c:pcase) : bool :=
  match c with
  | PInt w v wr rd => negb (u_ok w v) || (is_ok wr && rd_is Z.eqb rd v 0)
  | PNeg v wr rd => negb (s31_ok v) || (is_ok wr && rd_is Z.eqb rd v 0)
  | PStr s t wr rd => negb (str_ok s) || (is_ok wr && rd_is str_eqb rd s (lenb t))
  | PStrOpt o t wr rd => negb (ostr_ok o) || (is_ok wr && rd_is ostr_eqb rd o (lenb t))
  | PBools l wr rd => negb (length l <=? 8)%nat || (is_ok wr && rd_is bools_eqb rd l 0)
  | PListInt l wr rd => negb (forallb (u_ok 4) l) || (is_ok wr && rd_is zs_eqb rd l 0)
  | PListNeg l wr rd => negb (forallb s31_ok l) || (is_ok wr && rd_is zs_eqb rd l 0)
  | PListStr l wr rd => negb (forallb str_ok l) || (is_ok wr && rd_is strs_eqb rd l 0)
  | PPairs l wr rd => negb (forallb (fun p => u_ok 4 (fst p) && u_ok 4 (snd p)) l) || (is_ok wr && rd_is (list_eqb zz_eqb) rd l 0)
  | PDict d t wr rd => negb (dict_ok d) || (is_ok wr && rd_is dict_eqb rd d (lenb t))
  | _ => true
  end.
"""

PRE_OBJ = PRE + """
Inductive case :=
| CEvent (e:event) (b:list N) (e':event)
| CMatch (m:imatch) (b:list N) (m':imatch)
| CRA (a:rassign) (b trail:list N) (a':rassign) (frest:Z) (q:bassign) (qrest:Z) (p:bassign)
| CBasic (x:bassign) (b:list N) (x':bassign)
| CGene (g:ghead) (b:list N) (g':ghead)
| CStream (gs:list group) (b:list N) (full:list group) (quick:list (list bassign)) (fend qend:Z)
| CMM (chr:str) (ls:list (list bassign)) (b:list N) (loaded:list (str * list bassign))
| CInfo (i:Z * (Z * list str)) (b:list N) (i':Z * (Z * list str))
(* pickle.loads (pickle.dumps x)) of a condensed record: the codec of __getstate__ / __setstate__ (pickle itself is not modelled) *)
| CPickle (x x':bassign)
(* corrupted / out-of-domain records: outcomes of the real readers on a strict stream *)
| XEvent (b:list N) (rd:outcome (event * Z))
| XMatch (b:list N) (rd:outcome (imatch * Z))
| XRA (b:list N) (rd:outcome (rassign * Z)) (rq:outcome (bassign * Z))
| XBasic (b:list N) (rd:outcome (bassign * Z)).
Definition groups_eqb : list group -> list group -> bool := list_eqb (pair_eqb ghead_eqb (list_eqb ra_eqb)).
Definition mm_sel (chr rid:str) (ls:list (list bassign)) := filter (fun a => str_eqb (b_chr a) chr && str_eqb (b_read_id a) rid) (concat ls).
Definition info_eqb := pair_eqb Z.eqb (pair_eqb Z.eqb set_eqb).
Definition check (c:case) : bool :=
  match c with
  | CEvent e b e' => bytes_eqb (enc c_event e) b && dec_eqb event_eqb (dec c_event b) (Some (e', []))
  | CMatch m b m' => bytes_eqb (enc c_match m) b && dec_eqb match_eqb (dec c_match b) (Some (m', []))
  | CRA a b t a' frest q qrest p =>
      bytes_eqb (enc (c_ra SG) a) b && dec_eqb ra_eqb (dec (c_ra SG) (b ++ t)) (Some (a', t)) && (frest =? lenb t) &&
      match dec_quick SG (b ++ t) with Some (q', rest) => basic_seteqb q' q && (lenb rest =? qrest) | None => false end &&
      basic_seteqb (basic_of a) p
  | CBasic x b x' => bytes_eqb (enc c_basic x) b && dec_eqb basic_eqb (dec c_basic b) (Some (x', []))
  | CGene g b g' => bytes_eqb (enc (c_ghead RR) g) b && dec_eqb ghead_eqb (dec (c_ghead RR) b) (Some (g', []))
  | CStream gs b full quick fend qend =>
      bytes_eqb (enc_save SG RR gs) b && dec_eqb groups_eqb (dec_save_full SG RR b) (Some (full, [])) &&
      match dec_save_quick SG RR b with Some (qs, []) => list_eqb (list_eqb basic_seteqb) (map snd qs) quick | _ => false end &&
      (fend =? lenb b) && (qend =? lenb b)
  | CMM chr ls b loaded =>
      bytes_eqb (enc_mm ls) b &&
      match dec_mm_file b with
      | Some (ls', []) => forallb (fun p => list_eqb basic_eqb (mm_sel chr (fst p) ls') (snd p)) loaded &&
                          (lenb (filter (fun a => str_eqb (b_chr a) chr) (concat ls')) =? lenb (concat (map snd loaded)))
      | _ => false end
  | CInfo i b i' => bytes_eqb (enc c_info i) b && dec_eqb info_eqb (dec c_info b) (Some (i', []))
  | CPickle x x' => true
  | XEvent b rd => rd_eqb event_eqb (dec c_event b) rd
  | XMatch b rd => rd_eqb match_eqb (dec c_match b) rd
  | XRA b rd rq => rd_eqb ra_eqb (dec (c_ra SG) b) rd && rd_eqb basic_seteqb (dec_quick SG b) rq
  | XBasic b rd => rd_eqb basic_eqb (dec c_basic b) rd
  end.
(* the specification on the implementation's outputs: what the real reader returned is the original; the real bytes decode
   (by the verified decoder) to the original; the abridged and the full reader stop at the same offset and the abridged result
   is the projection *)
Definition prop (c:case) : bool :=
  match c with
  | CEvent e b e' => event_eqb e e' && dec_eqb event_eqb (dec c_event b) (Some (e, []))
  | CMatch m b m' => match_eqb m m' && dec_eqb match_eqb (dec c_match b) (Some (m, []))
  | CRA a b t a' frest q qrest p =>
      ra_eqb a a' && dec_eqb ra_eqb (dec (c_ra SG) (b ++ t)) (Some (a, t)) && (frest =? qrest) && (frest =? lenb t) &&
      basic_seteqb q (basic_of a) && basic_seteqb p (basic_of a)
  | CBasic x b x' => basic_eqb x x' && dec_eqb basic_eqb (dec c_basic b) (Some (x, []))
  | CGene g b g' => ghead_eqb g g' && dec_eqb ghead_eqb (dec (c_ghead RR) b) (Some (g, []))
  | CStream gs b full quick fend qend =>
      groups_eqb gs full && dec_eqb groups_eqb (dec_save_full SG RR b) (Some (gs, [])) &&
      list_eqb (list_eqb basic_seteqb) (map (fun g => map basic_of (snd g)) gs) quick && (fend =? qend)
  | CMM chr ls b loaded =>
      dec_eqb (list_eqb (list_eqb basic_eqb)) (dec_mm_file b) (Some (ls, [])) &&
      forallb (fun p => list_eqb basic_eqb (mm_sel chr (fst p) ls) (snd p)) loaded &&
      (lenb (filter (fun a => str_eqb (b_chr a) chr) (concat ls)) =? lenb (concat (map snd loaded)))
  | CInfo i b i' => info_eqb i i' && dec_eqb info_eqb (dec c_info b) (Some (i, []))
  | CPickle x x' => basic_eqb x x'
  | XRA b rd rq => match rd, rq with Ok (_, n1), Ok (_, n2) => n1 =? n2 | _, _ => true end
  | _ => true
  end.
"""


def run(ctx):
    logging.disable(logging.CRITICAL)
    import src.serialization as S
    import src.isoform_assignment as IA
    from src.isoform_assignment import (MatchEvent, IsoformMatch, ReadAssignment, BasicReadAssignment, ReadAssignmentType as RAT,
                                        MatchClassification as MC, MatchEventSubtype as MES, SupplementaryMatchConstants as SMC)
    from src.polya_finder import PolyAInfo
    from src.gene_info import GeneInfo
    from src.common import junctions_from_blocks
    import src.assignment_io as AIO
    import src.dataset_processor as DP
    quick = ctx.tier == "quick"
    rnd = ctx.rnd
    ctx.prepare("C15.v")
    ctx.exhaustive = False
    # which of the two modelled read_dict variants is the code under test?  (the specification below is the same for both:
    # a negative dictionary value must come back unchanged)
    probe = io.BytesIO(); S.write_dict({"k": -1}, probe); probe.seek(0)
    signed = attempt(lambda: S.read_dict(probe)) == ("ok", {"k": -1})
    # which gene-header layout does the code under test write / read?  a header whose reference window differs from the gene region
    def probe_window():
        g = GeneInfo.__new__(GeneInfo); g.delta = 0; g.gene_db_list = []; g.chr_id = "c"; g.start = 100; g.end = 200; g.all_read_region_start = 50; g.all_read_region_end = 300
        b = io.BytesIO(); g.serialize(b); b.seek(0); g2 = GeneInfo.deserialize(b, None)
        return (g2.all_read_region_start, g2.all_read_region_end) == (50, 300) and b.tell() == len(b.getvalue())
    window = attempt(probe_window) == ("ok", True)
    def probe_bytes():
        b = io.BytesIO(); S.write_string("\u00e9a", b); S.write_string_or_none("\u4e2d", b); b.seek(0)
        return (S.read_string(b), S.read_string_or_none(b)) == ("\u00e9a", "\u4e2d") and b.tell() == len(b.getvalue())
    bytelen = attempt(probe_bytes) == ("ok", True)
    sub = lambda t: t.replace("@SG@", "true" if signed else "false").replace("@RR@", "true" if window else "false").replace("@SB@", "true" if bytelen else "false")
    KEY_STR = "C15:string-length-in-characters"
    ctx.notes.append("string writers of the code under test: %s" % ("length prefix in UTF-8 bytes (fixes/C15_string_length_in_bytes.diff): records are generated with non-ASCII strings" if bytelen else
                                                                    "length prefix in characters (before fixes/C15_string_length_in_bytes.diff): records are generated with ASCII strings, non-ASCII ones only at the primitives - known finding"))
    pre_prim = sub(PRE_PRIM); pre_obj = sub(PRE_OBJ)
    ctx.notes.append("gene header layout of the code under test: %s" % ("with the reference window of the reads (all_read_region_start / _end; fixes/C18_serialize_read_region.diff)" if window else
                                                                         "without the reference window (before fixes/C18_serialize_read_region.diff): the reader takes the gene region for it, generated headers have window = gene region"))
    ctx.notes.append("read_dict variant of the code under test: %s" % ("read_int_neg (repaired)" if signed else "read_int (before fixes/C15_read_dict_sign.diff): negative dictionary values violate the round trip"))

    # ============================================================ generators
    U32_EDGE = [0, 1, 2, 127, 128, 255, 256, 65535, 65536, (1 << 24) - 1, 1 << 24, (1 << 31) - 1, 1 << 31, (1 << 32) - 1,
                SMC.extra_left_mod_position, SMC.extra_right_mod_position, SMC.undefined_position, SMC.absent_position]
    NEG_EDGE = [0, -1, 1, -2, 255, -255, 256, -256, 65535, -65536, (1 << 31) - 1, -((1 << 31) - 1), 1 << 30, -(1 << 30)]
    def g_u32(): return rnd.choice(U32_EDGE) if rnd.random() < .3 else rnd.randrange(0, 1 << rnd.choice([4, 8, 16, 24, 32]))
    def g_neg(): return rnd.choice(NEG_EDGE) if rnd.random() < .3 else rnd.choice([-1, 1]) * rnd.randrange(0, 1 << rnd.choice([2, 8, 16, 31]))
    def g_pos(): return -1 if rnd.random() < .4 else rnd.randrange(1, 1 << 28)
    PRINTABLE = [chr(c) for c in range(32, 127)]
    def g_str(maxlen=24):
        r = rnd.random()
        if r < .1: return ""
        if r < .15: return "".join(chr(rnd.randrange(0, 128)) for _ in range(rnd.randint(1, 8)))       # control characters are ASCII too
        if r < .4 and bytelen:       # 1-, 2-, 3- and 4-byte code points mixed (no surrogates: a Python str with one cannot be encoded)
            return "".join(chr(rnd.choice([rnd.randrange(32, 127), rnd.randrange(128, 0x800), rnd.randrange(0x800, 0xd800), rnd.randrange(0xe000, 0x10000), rnd.randrange(0x10000, 0x110000)]))
                           for _ in range(rnd.randint(1, min(maxlen, 12))))
        if r < .18: return "".join(rnd.choice(PRINTABLE) for _ in range(rnd.choice([255, 256, 257, 300, 1000])))
        return "".join(rnd.choice(PRINTABLE) for _ in range(rnd.randint(1, maxlen)))
    def g_ostr(): return None if rnd.random() < .25 else g_str()
    PEN = [0, 0.0, 0.1, 0.2, 0.1 + 0.2, 0.7, 0.1 * 3, 1.0, 1.5, 0.6 + 0.7 + 0.1, 2 ** -20, 2 ** -21, 1 - 2 ** -21, 4095.999999, 1e-9, 3.0000000000000004, 1 / 3]
    def g_pen(): return rnd.choice(PEN) if rnd.random() < .5 else rnd.random() * rnd.choice([1, 10, 1000])
    mes_cycle = list(MES); mc_cycle = list(MC); rat_cycle = list(RAT); cyc = {"mes": 0, "mc": 0, "rat": 0}
    def nxt(name, lst):
        cyc[name] += 1; return lst[cyc[name] % len(lst)]
    def g_region():
        return rnd.choice([SMC.undefined_region, SMC.extra_left_region, SMC.extra_right_region, (0, 0)]) if rnd.random() < .3 else (g_u32(), g_u32())
    def g_event(): return dict(t=nxt("mes", mes_cycle), iso=g_region(), read=g_region(), info=g_neg())
    def g_match(nev=None):
        return dict(gene=g_ostr(), tr=g_ostr(), strand=rnd.choice(["+", "-", ".", "", g_str(3)]), cls=nxt("mc", mc_cycle), pen=g_pen(),
                    events=[g_event() for _ in range(rnd.choice([0, 0, 1, 1, 2, 3, 6]) if nev is None else nev)])
    def g_exons(allow_empty=False):
        n = rnd.choice([0, 1, 1, 2, 3, 8] if allow_empty else [1, 1, 2, 3, 8])
        if rnd.random() < .2: return [(g_u32(), g_u32()) for _ in range(n)]
        c = sorted(rnd.sample(range(1, 1 << 27), 2 * n)); return [(c[2 * i], c[2 * i + 1]) for i in range(n)]
    def g_dict(negative=True):
        d = {}
        for _ in range(rnd.choice([0, 0, 1, 2, 4])):
            k = g_str(10); r = rnd.random()
            if r < .5: d[k] = g_str()
            elif r < .8: d[k] = g_neg() if negative else abs(g_neg())
            else: d[k] = (g_neg(), g_neg()) if negative else (abs(g_neg()), abs(g_neg()))
        return d
    idc = [0]
    def g_ra(allow_empty=False, negative=True):
        idc[0] += 1
        ms = [g_match() for _ in range(rnd.choice([0, 1, 1, 1, 2, 3]))]
        if ms and rnd.random() < .3: ms.append(dict(ms[0], events=list(ms[0]["events"])))          # repeated gene / isoform: the projection is a set
        return dict(id=g_u32() if rnd.random() < .3 else idc[0], read_id=g_str(60), region=(g_u32(), g_u32()), exons=g_exons(allow_empty), corrected=g_exons(True),
                    flags=[rnd.random() < .5 for _ in range(3)], polya=(g_pos(), g_pos(), g_pos(), g_pos()) if rnd.random() < .9 else (g_neg(), g_neg(), g_neg(), g_neg()),
                    group=rnd.choice(["NA", g_str()]), mapped_strand=rnd.choice("+-."), strand=rnd.choice("+-."), chr=rnd.choice(["chr1", "chr9", "X", g_str()]),
                    mapq=rnd.choice([0, 1, 60, 255, 65535, rnd.randrange(0, 256)]), type=nxt("rat", rat_cycle), gene_type=rnd.choice(rat_cycle), matches=ms,
                    info=g_dict(negative), attrs=g_dict(negative), introns_match=rnd.random() < .5,
                    exon_profile=[rnd.choice([-2, -1, 0, 1]) if rnd.random() < .9 else g_neg() for _ in range(rnd.choice([0, 1, 3, 10, 40]))],
                    intron_profile=[rnd.choice([-2, -1, 0, 1]) for _ in range(rnd.choice([0, 0, 2, 9]))])
    def g_gene():
        d = dict(delta=rnd.choice([0, 6, g_u32()]), genes=[g_str() for _ in range(rnd.choice([0, 1, 1, 2, 5]))], chr=rnd.choice(["chr1", g_str()]), start=g_u32(), end=g_u32())
        # reference window of the reads: any window with the layout that stores it; the gene region itself with the layout that does not (its reader takes the gene region)
        d["rstart"], d["rend"] = (g_u32(), g_u32()) if (window and rnd.random() < .8) else (d["start"], d["end"])
        return d

    # ============================================================ real objects <-> plain fields
    def mk_event(d): return MatchEvent(d["t"], d["iso"], d["read"], d["info"])
    def mk_match(d):
        m = IsoformMatch(d["cls"], d["gene"], d["tr"], None, d["strand"], d["pen"]); m.match_subclassifications = [mk_event(e) for e in d["events"]]; return m
    def mk_ra(d):
        a = ReadAssignment(d["read_id"], d["type"], [mk_match(m) for m in d["matches"]])
        a.assignment_id = d["id"]; a.genomic_region = d["region"]; a.exons = list(d["exons"]); a.corrected_exons = list(d["corrected"])
        a.multimapper, a.polyA_found, a.cage_found = d["flags"]; a.polya_info = PolyAInfo(*d["polya"]); a.read_group = d["group"]
        a.mapped_strand = d["mapped_strand"]; a.strand = d["strand"]; a.chr_id = d["chr"]; a.mapping_quality = d["mapq"]; a.gene_assignment_type = d["gene_type"]
        a.additional_info = dict(d["info"]); a.additional_attributes = dict(d["attrs"]); a.introns_match = d["introns_match"]
        a.exon_gene_profile = list(d["exon_profile"]); a.intron_gene_profile = list(d["intron_profile"]); return a
    def mk_gene(d):
        g = GeneInfo.__new__(GeneInfo); g.delta = d["delta"]; g.gene_db_list = [types.SimpleNamespace(id=x) for x in d["genes"]]; g.chr_id = d["chr"]; g.start = d["start"]; g.end = d["end"]
        g.all_read_region_start = d["rstart"]; g.all_read_region_end = d["rend"]; return g
    def f_event(e): return dict(t=e.event_type, iso=tuple(e.isoform_region), read=tuple(e.read_region), info=e.event_info)
    def f_match(m): return dict(gene=m.assigned_gene, tr=m.assigned_transcript, strand=m.transcript_strand, cls=m.match_classification, pen=m.penalty_score,
                                events=[f_event(e) for e in m.match_subclassifications])
    def f_ra(a):
        p = a.polya_info
        return dict(id=a.assignment_id, read_id=a.read_id, region=tuple(a.genomic_region), exons=[tuple(e) for e in a.exons], corrected=[tuple(e) for e in a.corrected_exons],
                    flags=[a.multimapper, a.polyA_found, a.cage_found], polya=(p.external_polya_pos, p.external_polyt_pos, p.internal_polya_pos, p.internal_polyt_pos),
                    group=a.read_group, mapped_strand=a.mapped_strand, strand=a.strand, chr=a.chr_id, mapq=a.mapping_quality, type=a.assignment_type, gene_type=a.gene_assignment_type,
                    matches=[f_match(m) for m in a.isoform_matches], info=dict(a.additional_info), attrs=dict(a.additional_attributes), introns_match=a.introns_match,
                    exon_profile=list(a.exon_gene_profile), intron_profile=list(a.intron_gene_profile))
    def f_basic(b): return dict(id=b.assignment_id, read_id=b.read_id, chr=b.chr_id, start=b.start, end=b.end, region=tuple(b.genomic_region), flags=[b.multimapper, b.polyA_found],
                                type=b.assignment_type, gene_type=b.gene_assignment_type, pen=b.penalty_score, genes=list(b.genes), isoforms=list(b.isoforms))
    def f_gene(g): return dict(delta=g.delta, genes=[x.id for x in g.gene_db_list], chr=g.chr_id, start=g.start, end=g.end, rstart=g.all_read_region_start, rend=g.all_read_region_end)
    def quant(x): return Fraction(int(Fraction(x) * MULT), MULT)
    def q_match(m): return dict(m, pen=quant(m["pen"]))
    def q_ra(a): return dict(a, matches=[q_match(m) for m in a["matches"]])
    def q_basic(b): return dict(b, pen=quant(b["pen"]), genes=sorted(b["genes"]), isoforms=sorted(b["isoforms"]))
    def exact(x): return Fraction(x)
    def e_match(m): return dict(m, pen=exact(m["pen"]))
    def e_ra(a): return dict(a, matches=[e_match(m) for m in a["matches"]])
    def diff(a, b, path=""):
        """paths at which two plain-field structures differ"""
        if isinstance(a, dict) and isinstance(b, dict):
            out = [] if list(a.keys()) == list(b.keys()) else [path + ":keys"]
            for k in a:
                if k in b: out += diff(a[k], b[k], path + "/" + str(k))
            return out
        if isinstance(a, (list, tuple)) and isinstance(b, (list, tuple)):
            if len(a) != len(b): return [path + ":len"]
            out = []
            for i, (x, y) in enumerate(zip(a, b)): out += diff(x, y, path + "/%d" % i)
            return out
        return [] if (a == b and type(a) is type(b)) else [path]
    class FakeDB:
        """stands in for the gffutils database so that GeneInfo.deserialize keeps the gene ids it read"""
        def __getitem__(self, k): return types.SimpleNamespace(id=k, start=1, end=2, strand="+", seqid="c", source="s", attributes={})
        def children(self, *a, **k): return []
        def __bool__(self): return True
    def ser(obj, stream=None):
        b = stream or io.BytesIO(); obj.serialize(b); return b.getvalue()
    def jd(x):
        """plain fields -> JSON-able (for replays)"""
        if isinstance(x, dict): return {str(k): jd(v) for k, v in x.items()}
        if isinstance(x, (list, tuple)): return [jd(v) for v in x]
        if hasattr(x, "name") and hasattr(x, "value"): return x.name
        if isinstance(x, Fraction): return str(x)
        if isinstance(x, bytes): return x.hex()
        return x
    def key_of(o):
        d = o.get("diff")
        if d and all("/info/" in p or "/attrs/" in p or p.startswith("/dict/") for p in d) and o.get("dict_sign"): return "C15:dict-negative-int"
        if o.get("non_ascii") and not bytelen: return KEY_STR
        return None
    def dict_sign(orig, got):
        """every differing dictionary value is an int v < 0 read back as 2^31 + |v|"""
        def sgn(a, b): return isinstance(a, int) and isinstance(b, int) and a < 0 and b == (1 << 31) - a
        ok = True; seen = False
        for k in orig:
            a, b = orig[k], got.get(k)
            if a == b: continue
            seen = True
            if isinstance(a, tuple) and isinstance(b, tuple) and len(a) == len(b) == 2: ok = ok and all(x == y or sgn(x, y) for x, y in zip(a, b))
            else: ok = ok and sgn(a, b)
        return ok and seen

    import itertools, pickle
    gi = mk_gene(g_gene())
    def guarded(name, f, *a):
        """one section of the check: an exception of the harness (or of real code called outside an adapter) breaks that section only"""
        try: return f(*a)
        except Exception: ctx.broken("harness:%s" % name, "exception in section %s:\n%s" % (name, traceback.format_exc()[-3000:]))
    # the loop reading the multimappers file and the statements writing save_info, compiled from the source text of the real module
    blocks = {}
    def get_blocks():
        blocks['mm_reader'] = extract_block(DP, "construct_models_in_parallel", "multimapped_reads", ast.While, "dump_filename, chr_id", "multimapped_reads")
        blocks['info_writer'] = extract_block(DP, "collect_reads", "info_dumper", "info_dumper.close", "info_file, total_assignments, polya_assignments, all_read_groups", "None")
    guarded("extract_block", get_blocks)
    mm_reader = blocks.get("mm_reader"); info_writer = blocks.get("info_writer")

    # ============================================================ 1. primitives
    def sec_primitives():
        cases = []
        def add(term, obj): cases.append((term, obj))
        def zpair(o): return "(%s, %s)" % (o[0] if isinstance(o[0], str) else o[0], cz(o[1]))
        def rd_with(f, data, conv):
            s = Strict(data); r = attempt(lambda: f(s))
            return ("ok", (r[1], len(data) - s.tell())) if r[0] == "ok" else r
        # ints
        ivals = sorted(set(U32_EDGE + [-1, -2, -256, 1 << 32, (1 << 32) + 1, 1 << 40, -(1 << 31), 1 << 8, (1 << 16) - 1, 1 << 16] + [rnd.randrange(0, 1 << 32) for _ in range(150)] + list(range(0, 300, 7))))
        for w in (1, 2, 4):
            for v in ivals:
                if w == 2 and rnd.random() < .5: wr = attempt(lambda: (lambda b: (S.write_short_int(v, b), b.getvalue())[1])(io.BytesIO())); reader = lambda s: S.read_short_int(s)
                elif w == 4 and rnd.random() < .5: wr = attempt(lambda: (lambda b: (S.write_int(v, b), b.getvalue())[1])(io.BytesIO())); reader = lambda s: S.read_int(s)
                else: wr = attempt(lambda: (lambda b: (S.write_int(v, b, w), b.getvalue())[1])(io.BytesIO())); reader = lambda s: S.read_int(s, w)
                rd = rd_with(reader, wr[1], None) if wr[0] == "ok" else ("raises", "EOFError")
                add("PInt %s %s %s %s" % (cnat(w), cz(v), cout(wr, cbs), cout(rd, lambda o: "(%s, %s)" % (cz(o[0]), cz(o[1])))), {"prim": "write_int", "bytes_len": w, "value": v, "written": jd(wr), "read": jd(rd)})
        nvals = sorted(set(NEG_EDGE + [1 << 31, -(1 << 31), (1 << 31) + 1, -(1 << 31) - 1, 1 << 32, -(1 << 32), (1 << 32) + 5, -((1 << 32) + 5), (1 << 33) + (1 << 31)] + [g_neg() for _ in range(300)]))
        for v in nvals:
            wr = attempt(lambda: (lambda b: (S.write_int_neg(v, b), b.getvalue())[1])(io.BytesIO()))
            rd = rd_with(S.read_int_neg, wr[1], None) if wr[0] == "ok" else ("raises", "EOFError")
            add("PNeg %s %s %s" % (cz(v), cout(wr, cbs), cout(rd, lambda o: "(%s, %s)" % (cz(o[0]), cz(o[1])))), {"prim": "write_int_neg", "value": v, "written": jd(wr), "read": jd(rd)})
        # strings (documented domain: any text whose UTF-8 encoding is shorter than 2^16 bytes; the length boundaries in characters and in bytes are outside: the model must still agree)
        svals = ["", "a", "+", "NA", "A" * 255, "A" * 256, "x" * 65534, "\x00", "\x7f", "a\x00b", "é", "éa", "aé", "éé", "naïve", "中文", "\U0001F600", "a\U0001F600bc",
                 "߿", "ࠀ", "￿", "\U00010000", "\U0010ffff", "x" * 65535, "x" * 65536, "\u00e9" * 32767, "\u00e9" * 32768, "a" + "\U0001F600" * 16383, "\U0001F600" * 16384] + [g_str(80) for _ in range(120 if quick else 600)]
        svals += ["".join(chr(rnd.choice([rnd.randrange(32, 127), rnd.randrange(128, 0x800), rnd.randrange(0x800, 0xd800), rnd.randrange(0x10000, 0x110000)])) for _ in range(rnd.randint(1, 6))) for _ in range(60)]
        for s in svals:
            trail = bytes(rnd.choice([65, 0x80, 0xa9, 0, 255]) for _ in range(rnd.choice([0, 2, 5])))
            wr = attempt(lambda: (lambda b: (S.write_string(s, b), b.getvalue())[1])(io.BytesIO()))
            rd = rd_with(S.read_string, wr[1] + trail, None) if wr[0] == "ok" else ("raises", "EOFError")
            add("PStr %s %s %s %s" % (cs(s), cbs(trail), cout(wr, cbs), cout(rd, lambda o: "(%s, %s)" % (cs(o[0]), cz(o[1])))), {"prim": "write_string", "value": s if len(s) < 200 else "%r * %d" % (s[-1], len(s)), "trailing": trail.hex(), "read": jd(rd) if len(s) < 200 else rd[0], "non_ascii": not s.isascii()})
        for s in [None, "", "a", "x" * 65534, "x" * 65535, "x" * 65536, "é", "éab", "\u4e2d\u6587", "g\U0001F600", "\u00e9" * 32767, "a" + "\u00e9" * 32767, "\u00e9" * 32768] + [g_ostr() for _ in range(80)]:
            trail = bytes(rnd.choice([65, 0x80, 0]) for _ in range(rnd.choice([0, 3])))
            wr = attempt(lambda: (lambda b: (S.write_string_or_none(s, b), b.getvalue())[1])(io.BytesIO()))
            rd = rd_with(S.read_string_or_none, wr[1] + trail, None) if wr[0] == "ok" else ("raises", "EOFError")
            add("PStrOpt %s %s %s %s" % (cos(s), cbs(trail), cout(wr, cbs), cout(rd, lambda o: "(%s, %s)" % (cos(o[0]), cz(o[1])))), {"prim": "write_string_or_none", "value": s if s is None or len(s) < 200 else "%r * %d" % (s[-1], len(s)), "read": jd(rd) if s is None or len(s) < 200 else rd[0], "non_ascii": s is not None and not s.isascii()})
        # bool arrays: every array of up to 4 flags, random ones of 5..9
        bvals = [list(t) for n in range(0, 5) for t in itertools.product([False, True], repeat=n)] + [[rnd.random() < .5 for _ in range(n)] for n in (5, 6, 7, 8, 8, 8, 9, 9, 12) for _ in range(4)] + [[True] * 8, [True] * 9]
        for l in bvals:
            wr = attempt(lambda: (lambda b: (S.write_bool_array(l, b), b.getvalue())[1])(io.BytesIO()))
            rd = rd_with(lambda s: S.read_bool_array(s, len(l)), wr[1], None) if wr[0] == "ok" else ("raises", "EOFError")
            add("PBools %s %s %s" % (cbools(l), cout(wr, cbs), cout(rd, lambda o: "(%s, %s)" % (cbools(o[0]), cz(o[1])))), {"prim": "write_bool_array", "value": l, "read": jd(rd)})
        # lists
        for _ in range(60 if quick else 300):
            n = rnd.choice([0, 0, 1, 2, 5, 17])
            for kind, gen, wf, rf, pr in (("PListInt", g_u32, S.write_int, S.read_int, czs), ("PListNeg", g_neg, S.write_int_neg, S.read_int_neg, czs), ("PListStr", g_str, S.write_string, S.read_string, lambda l: clist(l, cs))):
                l = [gen() for _ in range(n)]
                wr = attempt(lambda: (lambda b: (S.write_list(l, b, wf), b.getvalue())[1])(io.BytesIO()))
                rd = rd_with(lambda s: S.read_list(s, rf), wr[1], None) if wr[0] == "ok" else ("raises", "EOFError")
                add("%s %s %s %s" % (kind, pr(l), cout(wr, cbs), cout(rd, lambda o: "(%s, %s)" % (pr(o[0]), cz(o[1])))), {"prim": "write_list/" + kind, "value": l, "read": jd(rd), "non_ascii": kind == "PListStr" and any(not x.isascii() for x in l)})
            l = [(g_u32(), g_u32()) for _ in range(n)]
            wr = attempt(lambda: (lambda b: (S.write_list_of_pairs(l, b, S.write_int), b.getvalue())[1])(io.BytesIO()))
            rd = rd_with(lambda s: S.read_list_of_pairs(s, S.read_int), wr[1], None) if wr[0] == "ok" else ("raises", "EOFError")
            add("PPairs %s %s %s" % (clist(l, czz), cout(wr, cbs), cout(rd, lambda o: "(%s, %s)" % (clist(o[0], czz), cz(o[1])))), {"prim": "write_list_of_pairs", "value": l, "read": jd(rd)})
        # dictionaries: strings, ints of both signs, int pairs
        dvals = [{}, {"a": 1}, {"a": -5}, {"k": (-1, 3)}, {"k": (0, 0)}, {"indel_count": "NA", "junctions_with_indels": "NA", "FSM_class": "3"}, {"": ""}, {"a": 0, "b": -((1 << 31) - 1), "c": (1 << 31) - 1}] + [g_dict() for _ in range(150 if quick else 800)]
        for d in dvals:
            trail = bytes(rnd.choice([9, 10, 17, 0]) for _ in range(rnd.choice([0, 2])))
            wr = attempt(lambda: (lambda b: (S.write_dict(d, b), b.getvalue())[1])(io.BytesIO()))
            rd = rd_with(S.read_dict, wr[1] + trail, None) if wr[0] == "ok" else ("raises", "EOFError")
            o = {"prim": "write_dict", "value": jd(d), "read": jd(rd)}
            if rd[0] == "ok" and rd[1][0] != d: o["diff"] = ["/dict/" + k for k in d if rd[1][0].get(k) != d[k]]; o["dict_sign"] = dict_sign(d, rd[1][0])
            add("PDict %s %s %s %s" % (cdict(d), cbs(trail), cout(wr, cbs), cout(rd, lambda o: "(%s, %s)" % (cdict(o[0]), cz(o[1])))), o)
        # readers on arbitrary bytes
        for _ in range(200 if quick else 1500):
            b = bytes(rnd.choice([0, 0x80, 0xff, 0x7f, rnd.randrange(256)]) for _ in range(4)); rd = rd_with(S.read_int_neg, b, None)
            add("RNeg %s %s" % (cbs(b), cout(rd, lambda o: "(%s, %s)" % (cz(o[0]), cz(o[1])))), {"prim": "read_int_neg", "bytes": b.hex(), "read": jd(rd)})
        for _ in range(300 if quick else 3000):
            n = rnd.choice([0, 1, 2, 3, 4, 6]); body = bytes(rnd.choice([rnd.randrange(32, 127), rnd.randrange(0x80, 0xc0), rnd.choice([0xc0, 0xc1, 0xc2, 0xdf, 0xe0, 0xed, 0xef, 0xf0, 0xf4, 0xf5, 0xff]), rnd.randrange(256)]) for _ in range(n + rnd.choice([0, 0, 1, 3])))
            b = bytes([0, n]) + body if rnd.random() < .9 else bytes([rnd.choice([0, 255]), rnd.choice([n, 255])]) + body
            rd = rd_with(S.read_string, b, None)
            add("RStr %s %s" % (cbs(b), cout(rd, lambda o: "(%s, %s)" % (cs(o[0]), cz(o[1])))), {"prim": "read_string", "bytes": b.hex(), "read": jd(rd)})
            rd = rd_with(S.read_string_or_none, b, None)
            add("RStrOpt %s %s" % (cbs(b), cout(rd, lambda o: "(%s, %s)" % (cos(o[0]), cz(o[1])))), {"prim": "read_string_or_none", "bytes": b.hex(), "read": jd(rd)})
        for v in range(256):
            for n in (1, 2, 3, 8):
                rd = rd_with(lambda s: S.read_bool_array(s, n), bytes([v]), None)
                add("RBools %s %s %s" % (cnat(n), cbs([v]), cout(rd, lambda o: "(%s, %s)" % (cbools(o[0]), cz(o[1])))), {"prim": "read_bool_array", "byte": v, "size": n, "read": jd(rd)})
        for d in dvals[:80]:
            rec = Recording(); S.write_dict(d, rec); data = bytearray(rec.getvalue())
            tags = [off for off, ln in rec.chunks if ln == 1]
            if not tags: continue
            off = rnd.choice(tags); data[off] = rnd.choice([0, 8, 9, 10, 11, 16, 17, 18, 255])                # the value tag
            data += bytes(8)
            rd = rd_with(S.read_dict, bytes(data), None)
            add("RDict %s %s" % (cbs(data), cout(rd, lambda o: "(%s, %s)" % (cdict(o[0]), cz(o[1])))), {"prim": "read_dict (tag overwritten)", "bytes": bytes(data).hex(), "read": jd(rd)})
        # duplicate keys in a serialized dictionary: later value, first position
        for _ in range(20):
            k1, k2 = g_str(5), g_str(5); es = [(k1, 1), (k2, "x"), (k1, (2, 3)), (k2, -4 if rnd.random() < .5 else 4), (k1, "z")][:rnd.randint(2, 5)]
            b = io.BytesIO(); S.write_int(len(es), b)
            for k, v in es:
                S.write_string(k, b)
                if isinstance(v, int): b.write(bytes([S.DICT_INT_TYPE])); S.write_int_neg(v, b)
                elif isinstance(v, str): b.write(bytes([S.DICT_STR_TYPE])); S.write_string(v, b)
                else: b.write(bytes([S.DICT_INT_PAIR_TYPE])); S.write_int_neg(v[0], b); S.write_int_neg(v[1], b)
            rd = rd_with(S.read_dict, b.getvalue(), None)
            add("RDict %s %s" % (cbs(b.getvalue()), cout(rd, lambda o: "(%s, %s)" % (cdict(o[0]), cz(o[1])))), {"prim": "read_dict (duplicate keys)", "entries": jd(es), "read": jd(rd)})
        # constants that the translator does not extract: framing markers and the sentinels of MatchEvent regions
        for i, (name, model, impl) in enumerate([("GENE_MARK", "(Z.of_N GENE_MARK)", AIO.TmpFileAssignmentPrinter.GENE_INFO), ("READ_MARK", "(Z.of_N READ_MARK)", AIO.TmpFileAssignmentPrinter.READ_ASSIGNMENT),
                                                 ("TERM16", "(Z.of_N TERM16)", AIO.SHORT_TERMINATION_INT), ("TERM32", "(Z.of_N TERM32)", DP.TERMINATION_INT), ("MULT", "1048576", S.SHORT_FLOAT_MULTIPLIER),
                                                 ("NONE_STR_LEN", "65535", S.NONE_STR_LEN), ("undefined_position < 2^32", "1", int(SMC.undefined_position < (1 << 32)))]):
            add("RConst %d%%N %s %s" % (i, model, cz(impl)), {"constant": name, "impl": impl})
        ctx.rule("primitives: every write_*/read_* of serialization.py on boundary values (0, 2^8, 2^16, 2^31, 2^32 -+ 1, negative, |v| >= 2^31 for the sign-bit ints; strings of length 0, 255, 256, 65534, 65535, 65536, "
                 "control characters, non-ASCII of every UTF-8 length, encodings of 65534 / 65535 / 65536 bytes; every bool array of <= 4 flags and every byte value on reading; dictionaries with str / negative int / int-pair values) + random values; "
                 "exceptions are compared as exception classes; readers also on bytes no writer produced (invalid UTF-8, unknown dictionary tags, duplicate keys, sign bit with zero magnitude); non-trivial = all")
        mism, viol = ctx.corr("primitives", pre_prim, cases, shard=250)
        ctx.corr_report("primitives", mism, viol, keyfn=key_of)

    # ============================================================ 2. records
    def sec_records():
        cases = []
        n_ev, n_m, n_ra = (300, 300, 500) if quick else (3000, 3000, 6000)
        pyviol = []
        def pycheck(kind, orig, got, extra=None):
            d = diff(orig, got)
            if d:
                o = {"record": kind, "diff": d, "original": jd(orig), "read_back": jd(got)}
                if extra: o.update(extra)
                pyviol.append(o)
            return d
        class Fail(Exception): pass
        # classes of isoform_assignment.py with their own pickling codec: each must be covered below
        custom = sorted(n for n, c in vars(IA).items() if inspect.isclass(c) and c.__module__ == IA.__name__ and not issubclass(c, enum.Enum) and any(k in vars(c) for k in ("__getstate__", "__setstate__", "__reduce__", "__reduce_ex__", "__getnewargs__")))
        if custom != ["BasicReadAssignment"]:
            ctx.broken("harness:pickle-codecs", "classes of src/isoform_assignment.py defining their own pickling codec: %s; only BasicReadAssignment (custom) and ReadAssignment / IsoformMatch / MatchEvent (default) are round-tripped" % custom)
        n_pickle = [0]
        def pickled(what, fields, obj, extract):
            """pickle.loads(pickle.dumps(obj)) with the protocols multiprocessing may use, compared field by field with the object itself"""
            before = extract(obj); last = None
            for proto in (pickle.DEFAULT_PROTOCOL, pickle.HIGHEST_PROTOCOL, 2):
                got = real("%s: pickle round trip (protocol %d)" % (what, proto), fields, lambda: extract(pickle.loads(pickle.dumps(obj, protocol=proto))))
                pycheck("%s through pickle (__getstate__ / __setstate__)" % what, before, got, {"protocol": proto}); n_pickle[0] += 1; last = got
            return before, last
        def real(what, fields, f):
            """a real writer/reader raising on a record of the documented domain is a violation with that record as replay"""
            try: return with_timeout(f, seconds=10.0)      # a misaligned reader may take a garbage count for a list length and loop (almost) forever
            except ImplTimeout:
                pyviol.append({"record": what, "diff": ["does not terminate within 10 s (reader out of step with the writer?)"], "original": jd(fields)}); raise Fail()
            except Exception as e:
                pyviol.append({"record": what, "diff": ["raises %s" % type(e).__name__], "error": str(e)[:300], "original": jd(fields)}); raise Fail()
        events = [g_event() for _ in range(n_ev)]
        events += [dict(t=t, iso=SMC.undefined_region, read=SMC.undefined_region, info=0) for t in MES]                                  # every member, default arguments
        events += [dict(t=MES.fsm, iso=(v, v), read=(w, w), info=x) for v, w, x in zip(U32_EDGE, reversed(U32_EDGE), NEG_EDGE + NEG_EDGE)]
        for e in events:
            try:
                o = mk_event(e); b = real("MatchEvent.serialize", e, lambda: ser(o)); e2 = real("MatchEvent.deserialize", e, lambda: f_event(MatchEvent.deserialize(io.BytesIO(b))))
            except Fail: continue
            pycheck("MatchEvent", e, e2)
            cases.append(("CEvent %s %s %s" % (cev(e), cbs(b), cev(e2)), {"record": "MatchEvent", "fields": jd(e), "bytes": b.hex()}))
        matches = [g_match() for _ in range(n_m)] + [dict(g_match(0), cls=c) for c in MC] + [dict(g_match(1), pen=p) for p in PEN] + \
                  [dict(g_match(0), gene=g, tr=t) for g in (None, "", "G") for t in (None, "", "T")] + [dict(g_match(1), gene="g" * 65534, tr="t" * 300)]
        for m in matches:
            try:
                o = mk_match(m); b = real("IsoformMatch.serialize", m, lambda: ser(o)); m2 = real("IsoformMatch.deserialize", m, lambda: f_match(IsoformMatch.deserialize(io.BytesIO(b))))
            except Fail: continue
            d = pycheck("IsoformMatch", q_match(m), e_match(m2))
            if not isinstance(m2["pen"], float): pyviol.append({"record": "IsoformMatch", "diff": ["/pen:type"], "original": jd(m)})
            cases.append(("CMatch %s %s %s" % (cmatch(m), cbs(b), cmatch(m2)), {"record": "IsoformMatch", "fields": jd(m), "bytes": b.hex() if len(b) < 2000 else len(b), "diff": d}))
        ras = [g_ra() for _ in range(n_ra)]
        if not bytelen:
            # corpus for the writer that stores the number of characters: one record with a non-ASCII read id / group name / gene id through the real round trip
            a = dict(g_ra(), read_id="read_\u00e9_1", group="gruppe_\u00e4", matches=[dict(g_match(0), gene="g\u00e8ne", tr="T1")])
            try:
                b_ = ser(mk_ra(a)); got = attempt(lambda: e_ra(f_ra(ReadAssignment.deserialize(Strict(b_), gi))))
                if got[0] != "ok" or diff(q_ra(a), got[1]):
                    ctx.violation(KEY_STR, "ReadAssignment with non-ASCII strings: the real deserialize does not return what was serialized (write_string stores the number of characters, read_string takes that many bytes)",
                                  {"record": jd(a), "read_back": jd(got[1]) if got[0] == "ok" else got[1]})
            except Exception as e:
                ctx.violation(KEY_STR, "ReadAssignment with non-ASCII strings: serialize raises %s" % type(e).__name__, {"record": jd(a)})
        ras += [dict(g_ra(), type=t, gene_type=t2) for t in RAT for t2 in (RAT.unique, t)]
        ras += [dict(g_ra(), flags=list(f)) for f in itertools.product([False, True], repeat=3)]
        ras += [dict(g_ra(), matches=[], info={}, attrs={}, corrected=[], exon_profile=[], intron_profile=[], read_id="", group="", chr="")]
        ras += [dict(g_ra(), read_id="r" * 65535), dict(g_ra(), matches=[dict(g_match(2), gene=None, tr=None), dict(g_match(0), gene="", tr="")])]
        for a in ras:
            trail = bytes(rnd.choice([0, 255, 0xff, 65]) for _ in range(rnd.choice([0, 2, 7])))
            try:
                o = mk_ra(a); b = real("ReadAssignment.serialize", a, lambda: ser(o))
                s = io.BytesIO(b + trail); o2 = real("ReadAssignment.deserialize", a, lambda: ReadAssignment.deserialize(s, gi)); a2 = f_ra(o2); frest = len(b + trail) - s.tell()
                s = io.BytesIO(b + trail); qb = real("BasicReadAssignment.deserialize_from_read_assignment (abridged reader)", a, lambda: f_basic(BasicReadAssignment.deserialize_from_read_assignment(s))); qrest = len(b + trail) - s.tell()
                pb = real("BasicReadAssignment(read_assignment)", a, lambda: f_basic(BasicReadAssignment(o)))
                bb = real("BasicReadAssignment.serialize", a, lambda: ser(BasicReadAssignment(o))); pb2 = real("BasicReadAssignment.deserialize", a, lambda: f_basic(BasicReadAssignment.deserialize(io.BytesIO(bb))))
            except Fail: continue
            d = pycheck("ReadAssignment", q_ra(a), e_ra(a2), {"dict_sign": dict_sign(a["info"], a2["info"]) or dict_sign(a["attrs"], a2["attrs"])})
            # what the format does not store is re-derived
            if o2.gene_info is not gi or o2.corrected_introns != junctions_from_blocks(o2.corrected_exons) or type(o2.introns_match) is not bool or not isinstance(o2.polya_info, PolyAInfo):
                pyviol.append({"record": "ReadAssignment", "diff": ["/derived fields (gene_info, corrected_introns, types)"], "original": jd(a)})
            d2 = diff(q_basic(qb), q_basic(pb))
            if d2 or frest != qrest:
                pyviol.append({"record": "ReadAssignment: abridged reader vs BasicReadAssignment(read_assignment)", "diff": d2, "unread_full": frest, "unread_abridged": qrest, "original": jd(a)})
            cases.append(("CRA %s %s %s %s %s %s %s %s" % (cra(a), cbs(b), cbs(trail), cra(a2), cz(frest), cbasic(qb), cz(qrest), cbasic(pb)),
                          {"record": "ReadAssignment", "fields": jd(a), "bytes": b.hex() if len(b) < 3000 else len(b), "trailing": trail.hex(), "unread_full": frest, "unread_abridged": qrest, "diff": d,
                           "dict_sign": dict_sign(a["info"], a2["info"]) or dict_sign(a["attrs"], a2["attrs"])}))
            # the projection written by BasicReadAssignment.serialize (multimappers file records)
            pycheck("BasicReadAssignment", q_basic(pb), q_basic(pb2))
            # ... and the codec that moves condensed records between processes (--high_memory with several threads); the full record has none of its own
            try:
                xb, xb2 = pickled("BasicReadAssignment", a, BasicReadAssignment(o), f_basic)
                cases.append(("CPickle %s %s" % (cbasic(xb), cbasic(xb2)), {"record": "BasicReadAssignment through pickle", "fields": jd(xb), "read_back": jd(xb2)}))
                pickled("ReadAssignment", a, o, lambda z: e_ra(f_ra(z)))
            except Fail: pass
            if rnd.random() < .5: cases.append(("CBasic %s %s %s" % (cbasic(pb), cbs(bb), cbasic(pb2)), {"record": "BasicReadAssignment", "fields": jd(pb), "bytes": bb.hex() if len(bb) < 3000 else len(bb)}))
        # BasicReadAssignment with free fields (penalties, gene lists in any order)
        for _ in range(200 if quick else 2000):
            x = dict(id=g_u32(), read_id=g_str(40), chr=g_str(), start=g_u32(), end=g_u32(), region=(g_u32(), g_u32()), flags=[rnd.random() < .5, rnd.random() < .5], type=nxt("rat", rat_cycle),
                     gene_type=rnd.choice(rat_cycle), pen=g_pen(), genes=[g_str() for _ in range(rnd.choice([0, 1, 3]))], isoforms=[g_str() for _ in range(rnd.choice([0, 1, 4]))])
            o = BasicReadAssignment.__new__(BasicReadAssignment)
            o.assignment_id, o.read_id, o.chr_id, o.start, o.end, o.genomic_region = x["id"], x["read_id"], x["chr"], x["start"], x["end"], x["region"]
            o.multimapper, o.polyA_found = x["flags"]; o.assignment_type, o.gene_assignment_type, o.penalty_score, o.genes, o.isoforms = x["type"], x["gene_type"], x["pen"], x["genes"], x["isoforms"]
            try:
                bb = real("BasicReadAssignment.serialize", x, lambda: ser(o)); x2 = real("BasicReadAssignment.deserialize", x, lambda: f_basic(BasicReadAssignment.deserialize(io.BytesIO(bb))))
            except Fail: continue
            pycheck("BasicReadAssignment", dict(x, pen=quant(x["pen"])), dict(x2, pen=exact(x2["pen"])))
            cases.append(("CBasic %s %s %s" % (cbasic(x), cbs(bb), cbasic(x2)), {"record": "BasicReadAssignment", "fields": jd(x), "bytes": bb.hex()}))
            try:
                xb, xb2 = pickled("BasicReadAssignment", x, o, f_basic)
                cases.append(("CPickle %s %s" % (cbasic(xb), cbasic(xb2)), {"record": "BasicReadAssignment through pickle", "fields": jd(xb), "read_back": jd(xb2)}))
            except Fail: pass
        for _ in range(100 if quick else 1000):
            g = g_gene()
            try:
                b = real("GeneInfo.serialize", g, lambda: ser(mk_gene(g))); g2 = real("GeneInfo.deserialize", g, lambda: f_gene(GeneInfo.deserialize(io.BytesIO(b), FakeDB())))
            except Fail: continue
            pycheck("GeneInfo header", g, g2)
            cases.append(("CGene %s %s %s" % (cgene(g), cbs(b), cgene(g2)), {"record": "GeneInfo header", "fields": jd(g), "bytes": b.hex()}))
        ctx.rule("records: real MatchEvent / IsoformMatch / ReadAssignment / BasicReadAssignment / GeneInfo objects with random and edge-value fields (every enum member, None and empty ids, "
                 "undefined/extra region sentinels, negative event offsets, -1 polyA sentinels, empty lists, 65 535-character read id, float penalties that are not multiples of 2^-20; where the code under test stores string lengths in bytes: "
                 "read ids, group names, chromosome names, gene / isoform ids, dictionary keys and values with 2-, 3- and 4-byte code points) "
                 "serialized by the real code; each ReadAssignment is read by ReadAssignment.deserialize AND BasicReadAssignment.deserialize_from_read_assignment with trailing bytes behind it; "
                 "pickle.loads(pickle.dumps(x)) of every BasicReadAssignment (its __getstate__ / __setstate__ codec, used between processes with --high_memory) and of every ReadAssignment (default pickling), protocols default / highest / 2, "
                 "field by field, types included; non-trivial = all")
        mism, viol = ctx.corr("records", pre_obj, cases, shard=120, nontrivial=None)
        ctx.corr_report("records", mism, viol, keyfn=key_of)
        seen = set()
        for o in pyviol:
            k = (o["record"], tuple(o["diff"][:3]))
            if k in seen: continue
            seen.add(k)
            ctx.violation(key_of(o), "%s: the real deserialize does not return what was serialized (%s)" % (o["record"], ", ".join(o["diff"][:4])), o)
        ctx.count(evaluations=len(events) + len(matches) + 2 * len(ras) + n_pickle[0], traces=0)
        ctx.notes.append("pickle round trips: %d (BasicReadAssignment and ReadAssignment objects x 3 protocols)" % n_pickle[0])

    # ============================================================ 3. corrupted and out-of-domain records: the readers' error handling
    def sec_corrupted():
        cases = []
        def rdo(f, data, fields):
            s = Strict(data); r = attempt(lambda: f(s))
            return ("ok", (fields(r[1]), len(data) - s.tell())) if r[0] == "ok" else r
        def pr_rd(rd, pr): return cout(rd, lambda o: "(%s, %s)" % (pr(o[0]), cz(o[1])))
        def mutate(data, chunks):
            """overwrite one primitive field (boundaries recorded from the real writer) with another value of the same width"""
            data = bytearray(data); off, ln = rnd.choice(chunks)
            if ln == 1: data[off] = rnd.choice([0, 1, 7, 8, 9, 10, 11, 17, 128, 255])
            elif ln == 2: data[off:off + 2] = rnd.choice([0, 1, 2, 3, 7, 33, 255, 256, 65280, 65535, rnd.randrange(65536)]).to_bytes(2, "big")
            elif ln == 4: data[off:off + 4] = rnd.choice([0, 1, 2, 3, 1 << 31, (1 << 31) + 1, (1 << 32) - 1, rnd.randrange(1 << 32)]).to_bytes(4, "big")
            else:
                k = off + rnd.randrange(ln); data[k] = rnd.choice([0, 0x80, 0xc3, 0xff, 65, rnd.randrange(256)])
            return bytes(data)
        n_x = 400 if quick else 4000
        for i in range(n_x):
            a = g_ra(allow_empty=True); o = mk_ra(a); rec = Recording()
            try: b = ser(o, rec)
            except Exception: continue
            data = b if (i % 5 == 0 and not a["exons"]) else mutate(b, rec.chunks)
            data += bytes(rnd.choice([0, 0, 255]) for _ in range(rnd.choice([0, 4, 16])))
            rd = rdo(lambda s: ReadAssignment.deserialize(s, gi), data, f_ra); rq = rdo(BasicReadAssignment.deserialize_from_read_assignment, data, f_basic)
            cases.append(("XRA %s %s %s" % (cbs(data), pr_rd(rd, cra), pr_rd(rq, cbasic)), {"record": "ReadAssignment (one field overwritten)", "bytes": data.hex(), "full": rd[0] if rd[0] == "ok" else rd, "abridged": rq[0] if rq[0] == "ok" else rq}))
        for a in [dict(g_ra(), exons=[]) for _ in range(10)]:                                           # empty exon list: the abridged reader raises IndexError
            try: data = ser(mk_ra(a))
            except Exception: continue
            rd = rdo(lambda s: ReadAssignment.deserialize(s, gi), data, f_ra); rq = rdo(BasicReadAssignment.deserialize_from_read_assignment, data, f_basic)
            cases.append(("XRA %s %s %s" % (cbs(data), pr_rd(rd, cra), pr_rd(rq, cbasic)), {"record": "ReadAssignment with an empty exon list", "bytes": data.hex(), "full": rd[0], "abridged": rq}))
        for i in range(n_x // 2):
            m = g_match(); rec = Recording(); e = g_event(); rec2 = Recording()
            try: b = ser(mk_match(m), rec); b2 = ser(mk_event(e), rec2)
            except Exception: continue
            data = mutate(b, rec.chunks) + bytes(8)
            rd = rdo(IsoformMatch.deserialize, data, f_match)
            cases.append(("XMatch %s %s" % (cbs(data), pr_rd(rd, cmatch)), {"record": "IsoformMatch (one field overwritten)", "bytes": data.hex(), "read": rd[0] if rd[0] == "ok" else rd}))
            data = mutate(b2, rec2.chunks) + bytes(4)
            rd = rdo(MatchEvent.deserialize, data, f_event)
            cases.append(("XEvent %s %s" % (cbs(data), pr_rd(rd, cev)), {"record": "MatchEvent (one field overwritten)", "bytes": data.hex(), "read": rd[0] if rd[0] == "ok" else rd}))
        for v in list(range(0, 400)) + [1003, 1005, 1011, 1012, 1013, 1014, 1015, 65535]:               # every 2-byte value near the enum ranges as event type
            data = v.to_bytes(2, "big") + bytes(20); rd = rdo(MatchEvent.deserialize, data, f_event)
            cases.append(("XEvent %s %s" % (cbs(data), pr_rd(rd, cev)), {"record": "MatchEvent with event type value %d" % v, "read": rd[0] if rd[0] == "ok" else rd}))
        ctx.rule("corrupted records: one primitive field of a real serialization (field boundaries recorded from the real writer) overwritten with boundary values (non-member enum values, unknown dictionary tags, "
                 "invalid UTF-8, other list lengths); the real full and abridged readers run on a stream that raises on short reads; model None <-> exception; non-trivial = the real reader raised")
        mism, viol = ctx.corr("corrupted_records", pre_obj, cases, shard=120, nontrivial=lambda o: "raises" in str(o.get("full", "")) + str(o.get("abridged", "")) + str(o.get("read", "")))
        ctx.corr_report("corrupted_records", mism, viol)

    # ============================================================ 4. streams: the real printer and the two real loaders
    def sec_streams():
        cases = []
        tmpd = tempfile.mkdtemp(prefix="c15_streams_")
        try:
            n_s = 40 if quick else 300
            for i in range(n_s):
                gs = [(g_gene(), [g_ra() for _ in range(rnd.choice([0, 0, 1, 2, 5]))]) for _ in range(rnd.choice([0, 1, 1, 2, 4]))]
                path = os.path.join(tmpd, "s%d.save_chr" % i)
                try:
                    stage = "TmpFileAssignmentPrinter"
                    pr = AIO.TmpFileAssignmentPrinter(path, None)
                    for g, rs in gs:
                        pr.add_gene_info(mk_gene(g))
                        for a in rs: pr.add_read_info(mk_ra(a))
                    del pr; gc.collect()
                    data = open(path, "rb").read()
                    stage = "ReadAssignmentLoader / NormalTmpFileAssignmentLoader"
                    full = []; ld = DP.ReadAssignmentLoader(path, FakeDB(), None, None); guard = 0
                    while ld.has_next():
                        g, st = ld.get_next(); full.append((f_gene(g), [f_ra(a) for a in st])); guard += 1
                        if guard > len(data): raise RuntimeError("loader does not advance")
                    fend = ld.unpickler.loader.tell()
                    stage = "BasicReadAssignmentLoader / QuickTmpFileAssignmentLoader"
                    qk = []; lq = DP.BasicReadAssignmentLoader(path); guard = 0
                    while lq.has_next():
                        qk.append([f_basic(a) for a in lq.get_next() if a is not None]); guard += 1
                        if guard > len(data): raise RuntimeError("loader does not advance")
                    qend = lq.unpickler.loader.tell()
                except Exception as e:
                    ctx.violation(None, "save stream: %s raises %s on a stream of records of the documented domain" % (stage, type(e).__name__), {"groups": jd(gs), "error": str(e)[:300]}); continue
                d = diff([(g, [q_ra(a) for a in rs]) for g, rs in gs], [(g, [e_ra(a) for a in rs]) for g, rs in full])
                if d: ctx.violation(key_of({"diff": d, "dict_sign": any(dict_sign(a["info"], a2["info"]) or dict_sign(a["attrs"], a2["attrs"]) for (g, rs), (g2, rs2) in zip(gs, full) for a, a2 in zip(rs, rs2))}),
                                     "save stream: NormalTmpFileAssignmentLoader does not return what TmpFileAssignmentPrinter wrote", {"groups": jd(gs), "diff": d[:10]})
                cgs = lambda x: clist(x, lambda g: "(%s, %s)" % (cgene(g[0]), clist(g[1], cra)))
                cases.append(("CStream %s %s %s %s %s %s" % (cgs(gs), cbs(data), cgs(full), clist(qk, lambda l: clist(l, cbasic)), cz(fend), cz(qend)),
                              {"stream": jd(gs), "size": len(data), "full_loader_end": fend, "abridged_loader_end": qend}))
                del ld, lq; gc.collect()
            # multimappers files: real resolve_multimappers (resolver stubbed to the identity) writes, the real loop of construct_models_in_parallel reads
            class IdResolver:
                def __init__(self, strategy): pass
                def resolve(self, l): return l
            real_resolver = DP.MultimapResolver; DP.MultimapResolver = IdResolver
            try:
                for i in range((25 if quick else 200) if mm_reader is not None else 0):
                    chrs = ["chr1", "chr2", "c3"][:rnd.randint(1, 3)]
                    reads = {}
                    for r in range(rnd.choice([0, 1, 3, 6])):
                        rid = "read%d" % r; lst = []
                        for _ in range(rnd.choice([1, 2, 2, 3, 5])):
                            a = dict(g_ra(), read_id=rid, chr=rnd.choice(chrs)); lst.append(BasicReadAssignment(mk_ra(a)))
                        reads[rid] = lst
                    sample = types.SimpleNamespace(out_raw_file=os.path.join(tmpd, "m%d.save" % i))
                    fake_self = types.SimpleNamespace(args=types.SimpleNamespace(multimap_strategy=None))
                    rp = {"chromosomes": chrs, "reads": {rid: [jd(f_basic(x)) for x in lst] for rid, lst in reads.items()}}
                    try: with_timeout(DP.DatasetProcessor.resolve_multimappers, fake_self, chrs, sample, reads, seconds=20.0)
                    except (Exception, ImplTimeout) as e:
                        ctx.violation(None, "multimappers files: resolve_multimappers raises %s on records of the documented domain" % type(e).__name__, dict(rp, error=str(e)[:300])); continue
                    for c in chrs:
                        exp = []
                        for rid, lst in reads.items():
                            if len(lst) > 1 and any(x.chr_id == c for x in lst): exp.append([f_basic(x) for x in lst if x.chr_id == c])
                        try:
                            data = open(sample.out_raw_file + "_multimappers_" + c, "rb").read()
                            loaded = with_timeout(mm_reader, sample.out_raw_file, c, seconds=20.0)
                        except (Exception, ImplTimeout) as e:
                            ctx.violation(None, "multimappers files: the reading loop of construct_models_in_parallel raises %s on a file written by resolve_multimappers" % type(e).__name__, dict(rp, chromosome=c, error=str(e)[:300])); continue
                        cases.append(("CMM %s %s %s %s" % (cs(c), clist(exp, lambda l: clist(l, cbasic)), cbs(data), clist(list(loaded.items()), lambda kv: "(%s, %s)" % (cs(kv[0]), clist([f_basic(x) for x in kv[1]], cbasic)))),
                                      {"multimappers_file": c, "lists": jd(exp), "size": len(data)}))
            finally:
                DP.MultimapResolver = real_resolver
            for i in range((20 if quick else 200) if info_writer is not None else 0):
                tot = g_u32(); pa = g_u32(); groups = set(g_str() for _ in range(rnd.choice([0, 1, 3, 10])))
                p = os.path.join(tmpd, "i%d.save" % i)
                try:
                    with_timeout(info_writer, p + "_info", tot, pa, groups)
                    data = open(p + "_info", "rb").read()
                    t2, p2, g2 = with_timeout(DP.DatasetProcessor.load_read_info, None, p)
                    order = S.read_list(io.BytesIO(data[8:]), S.read_string)
                except (Exception, ImplTimeout) as e:
                    ctx.violation(None, "save_info file: writing / load_read_info raises %s" % type(e).__name__, {"written": [tot, pa, sorted(groups)], "error": str(e)[:300]}); continue
                cases.append(("CInfo (%s, (%s, %s)) %s (%s, (%s, %s))" % (cz(tot), cz(pa), clist(order, cs), cbs(data), cz(t2), cz(p2), clist(sorted(g2), cs)), {"info_file": [tot, pa, sorted(groups)], "bytes": data.hex()}))
                if (t2, p2, g2) != (tot, pa, groups): ctx.violation(None, "save_info file: load_read_info does not return what was written", {"written": [tot, pa, sorted(groups)], "read": [t2, p2, sorted(g2)]})
        finally:
            shutil.rmtree(tmpd, ignore_errors=True)
        ctx.rule("streams: random sequences of (gene header, read assignments) written by the real TmpFileAssignmentPrinter and read by the real ReadAssignmentLoader/NormalTmpFileAssignmentLoader and "
                 "BasicReadAssignmentLoader/QuickTmpFileAssignmentLoader (end offsets compared); multimappers files written by the real resolve_multimappers and read by the loop of construct_models_in_parallel "
                 "(executed from its source text); save_info files; non-trivial = all")
        mism, viol = ctx.corr("streams", pre_obj, cases, shard=8)
        ctx.corr_report("streams", mism, viol, keyfn=key_of)

    guarded("primitives", sec_primitives)
    guarded("records", sec_records)
    guarded("corrupted_records", sec_corrupted)
    guarded("streams", sec_streams)
    # ============================================================ 5. pipeline: files of a real run, reuse with --read_assignments
    guarded("pipeline", pipeline_part, ctx, pre_obj, DP, AIO, S, f_gene, f_ra, f_basic, cgene, cra, cbasic, FakeDB, mm_reader, quick)
    ctx.assume.append("short reads: the harness stream raises on a read past the end of the data, the model decoders return None there; the real readers on real files return 0 / shorter strings silently (truncated files are outside the property)")
    ctx.assume.append("Python floats: penalty_score * 2^20 and k / 2^20 are exact in binary floating point (k < 2^32), so the fixed-point model over Q applies; values are passed to Coq as exact fractions")
    ctx.assume.append("GeneInfo: only the serialized header (with the reference window of the reads where the code under test stores it) is modelled; the re-derivation from the annotation database is covered by the pipeline comparison only")
    ctx.assume.append("the loop reading the multimappers file and the statements writing save_info are executed from the source text of construct_models_in_parallel / collect_reads (they cannot be called separately)")


def extract_block(module, func_name, first_target, last, params, result):
    """compile consecutive statements of a function of the real module into a callable (fail-closed on an unexpected shape):
       from the first assignment to `first_target` up to the first statement of type `last` (an ast class) or the call `last` (dotted name)."""
    tree = ast.parse(inspect.getsource(module))
    fn = None
    for n in ast.walk(tree):
        if isinstance(n, ast.FunctionDef) and n.name == func_name: fn = n; break
    if fn is None: raise RuntimeError("function %s not found in %s" % (func_name, module.__name__))
    def walk_bodies(body):
        yield body
        for s in body:
            for attr in ("body", "orelse"):
                sub = getattr(s, attr, None)
                if isinstance(sub, list) and sub and isinstance(sub[0], ast.stmt): yield from walk_bodies(sub)
    for body in walk_bodies(fn.body):
        start = None
        for i, s in enumerate(body):
            if start is None and isinstance(s, ast.Assign) and any(isinstance(t, ast.Name) and t.id == first_target for t in s.targets): start = i
            if start is not None:
                hit = isinstance(s, last) if isinstance(last, type) else (isinstance(s, ast.Expr) and isinstance(s.value, ast.Call) and ast.unparse(s.value.func) == last)
                if hit:
                    src = "def _blk(%s):\n%s\n    return %s\n" % (params, textwrap.indent("\n".join(ast.unparse(x) for x in body[start:i + 1]), "    "), result)
                    ns = {}; exec(compile(src, "<%s.%s>" % (module.__name__, func_name), "exec"), module.__dict__, ns); return ns["_blk"]
    raise RuntimeError("block %s..%s not found in %s.%s" % (first_target, last, module.__name__, func_name))


def pipeline_part(ctx, pre_obj, DP, AIO, S, f_gene, f_ra, f_basic, cgene, cra, cbasic, FakeDB, mm_reader, quick):
    import pipeline as P
    d = P.scratch("c15_pipe_")
    try:
        inp = P.bundled(os.path.join(d, "in"))
        base = ["--reference", inp["fasta"], "--genedb", inp["gtf"], "--complete_genedb", "--data_type", "nanopore", "--threads", "2"]
        def body(path):
            return [l for l in P.opn(path).read().splitlines() if not l.startswith("# ")]          # '# <prefix> IsoQuant generated GTF', '# Command line: ...', '# IsoQuant version: ...'
        def compare(tag, out1, pre1, out2, pre2, args):
            f1 = {f[len(pre1) + 1:]: os.path.join(out1, pre1, f) for f in P.output_files(out1, pre1)}
            f2 = {f[len(pre2) + 1:]: os.path.join(out2, pre2, f) for f in P.output_files(out2, pre2)}
            bad = []
            for k in sorted(set(f1) | set(f2)):
                if k not in f1 or k not in f2: bad.append((k, "present in one run only")); continue
                a, b = body(f1[k]), body(f2[k])
                if a != b:
                    j = next((i for i, (x, y) in enumerate(zip(a, b)) if x != y), min(len(a), len(b)))
                    bad.append((k, "line %d: %r vs %r" % (j + 1, a[j][:200] if j < len(a) else None, b[j][:200] if j < len(b) else None)))
            ctx.count(evaluations=len(f1), nontrivial=len(f1))
            if bad: ctx.violation(None, "a run restarted from saved assignments does not reproduce the outputs of the run that saved them (%s)" % tag, {"arguments": args, "differences": bad[:10]})
            return len(f1)
        # a read group table that matches the read names of the BAM file (the bundled table matches none): three groups, some reads without a group
        import pysam
        table = os.path.join(d, "in", "groups_by_table.tsv"); names = []
        with pysam.AlignmentFile(inp["bam"]) as bam_:
            for a_ in bam_:
                if a_.query_name not in names: names.append(a_.query_name)
        with open(table, "w") as f_:
            for k_, n_ in enumerate(names):
                if k_ % 7 != 6: f_.write("%s\t%s\n" % (n_, ("alpha", "beta", "gamma")[k_ % 3]))
        TABLE = "grouping by a table (--read_group file:<table>)"
        runs = [("no grouping", []), ("grouping by read id", ["--read_group", "read_id:_"]), (TABLE, ["--read_group", "file:%s" % table])] + \
               ([] if quick else [("count_exons + sqanti", ["--count_exons", "--sqanti_output"])])
        first_save = None; first_saved_files = None
        for tag, extra in runs:
            o1 = os.path.join(d, "run1_" + str(len(tag))); o2 = os.path.join(d, "run2_" + str(len(tag)))
            rc1, log1 = P.run_isoquant(o1, base + ["--bam", inp["bam"], "-p", "S", "--keep_tmp"] + extra); ctx.cov["pipeline_runs"] += 1
            if rc1 != 0: ctx.broken("pipeline", "the saving run failed (%s): %s" % (tag, log1[-800:])); continue
            save = os.path.join(o1, "S", "aux", "S.save"); first_save = first_save or save
            saved_files = sorted(os.path.basename(x) for x in glob.glob(save + "_*"))
            if first_saved_files is None: first_saved_files = saved_files
            a2 = base + ["--read_assignments", save] + extra
            rc2, log2 = P.run_isoquant(o2, a2); ctx.cov["pipeline_runs"] += 1
            if rc2 != 0:
                # known finding C15:reuse-with-group-file, matched by its structure only (code before fixes/C15_reuse_skips_group_table_split.diff): the restart with a
                # group TABLE aborts in process_sample -> prepare_read_groups -> split_read_group_table opening the save prefix as a BAM file, the saved files all
                # still being there; every other failure of a restart is a new violation
                saved_now = sorted(os.path.basename(x) for x in glob.glob(save + "_*"))
                structural = tag == TABLE and "prepare_read_groups" in log2 and "split_read_group_table" in log2 and "pysam.AlignmentFile" in log2 and save in log2.split("split_read_group_table")[-1] \
                             and len(saved_now) > 0 and saved_now == saved_files
                if structural:
                    ctx.violation("C15:reuse-with-group-file", "--read_assignments together with --read_group file:<table> aborts: prepare_read_groups opens the save prefix as a BAM file",
                                  {"history": ["run with --keep_tmp --read_group file:<table>", "restart with --read_assignments and the same --read_group"], "arguments": a2, "exit": rc2, "log_tail": log2[-1200:]})
                else:
                    ctx.violation(None, "a run restarted with --read_assignments fails (%s)" % tag, {"arguments": a2, "exit": rc2, "saved_files_after_the_saving_run": saved_files, "saved_files_now": saved_now, "log_tail": log2[-1500:]})
                continue
            def prefix_of(o): return [x for x in os.listdir(o) if os.path.isdir(os.path.join(o, x)) and os.path.isdir(os.path.join(o, x, "aux"))][0]
            n = compare(tag, o1, "S", o2, prefix_of(o2), a2)
            ctx.notes.append("reuse (%s): %d output files identical up to '# ' header lines" % (tag, n))
            # three-step history: the saved assignments serve a SECOND restart as well (a restart must leave what it was given in place)
            saved_before = sorted(os.path.basename(x) for x in glob.glob(save + "_*"))
            o2b = o2 + "_again"
            rc2b, log2b = P.run_isoquant(o2b, a2); ctx.cov["pipeline_runs"] += 1
            saved_after = sorted(os.path.basename(x) for x in glob.glob(save + "_*"))
            history = ["run with --keep_tmp", "restart with --read_assignments (reproduced the outputs)", "second restart with the same arguments"]
            if rc2b != 0:
                ctx.violation(None, "the saved assignments cannot be reused a second time: the second run restarted with --read_assignments from the same saved files fails (%s)" % tag,
                              {"history": history, "arguments": a2, "exit": rc2b, "saved_files_after_the_saving_run": saved_files, "saved_files_after_the_first_restart": saved_before, "log_tail": log2b[-1500:]}); continue
            n = compare(tag + ", second restart", o1, "S", o2b, prefix_of(o2b), a2)
            if saved_after != saved_files:
                ctx.violation(None, "a run restarted with --read_assignments removes or adds files of the saved assignments it was given (%s)" % tag,
                              {"history": history, "arguments": a2, "saved_files_after_the_saving_run": saved_files, "saved_files_after_the_restarts": saved_after})
            ctx.notes.append("second reuse (%s): %d output files identical; %d saved files untouched" % (tag, n, len(saved_after)))
        # the files of the real run against the model
        if first_save:
            cases = []
            for path in sorted(glob.glob(first_save + "_chr*")):
                suffix = path[len(first_save) + 1:]
                if "_" in suffix and not suffix.startswith("multimappers_"): continue
                data = open(path, "rb").read()
                if suffix.startswith("multimappers_"):
                    c = suffix[len("multimappers_"):]; loaded = mm_reader(first_save, c)
                    lists = []; s = io.BytesIO(data); n = S.read_int(s)
                    from src.isoform_assignment import BasicReadAssignment
                    while n != S.TERMINATION_INT:
                        lists.append([f_basic(BasicReadAssignment.deserialize(s)) for _ in range(n)]); n = S.read_int(s)
                    cases.append(("CMM %s %s %s %s" % (cs(c), clist(lists, lambda l: clist(l, cbasic)), cbs(data), clist(list(loaded.items()), lambda kv: "(%s, %s)" % (cs(kv[0]), clist([f_basic(x) for x in kv[1]], cbasic)))),
                                  {"file": os.path.basename(path), "size": len(data)}))
                    continue
                full = []; ld = DP.ReadAssignmentLoader(path, FakeDB(), None, None)
                while ld.has_next():
                    g, st = ld.get_next(); full.append((f_gene(g), [f_ra(a) for a in st]))
                fend = ld.unpickler.loader.tell()
                qk = []; lq = DP.BasicReadAssignmentLoader(path)
                while lq.has_next(): qk.append([f_basic(a) for a in lq.get_next() if a is not None])
                qend = lq.unpickler.loader.tell()
                cgs = lambda x: clist(x, lambda g: "(%s, %s)" % (cgene(g[0]), clist(g[1], cra)))
                cases.append(("(let f := %s in CStream f %s f %s %s %s)" % (cgs(full), cbs(data), clist(qk, lambda l: clist(l, cbasic)), cz(fend), cz(qend)),
                              {"file": os.path.basename(path), "size": len(data), "groups": len(full), "assignments": sum(len(x[1]) for x in full)}))
                del ld, lq; gc.collect()
            ctx.rule("pipeline: three-step histories on the bundled data - IsoQuant with --keep_tmp, then with --read_assignments <aux>/S.save, then once more with --read_assignments on the same saved files "
                     "(without grouping, with --read_group read_id:_ and with --read_group file:<table> for a table that matches the read names of the BAM file, three groups): every output file, the grouped count tables included, of both restarts compared byte for byte with the saving run except '# ' header lines, the set of saved files must be unchanged; the <save>_chr* and <save>_multimappers_* files of the real run are decoded by the model, re-encoded to the same bytes and compared with what both real loaders return")
            mism, viol = ctx.corr("pipeline_save_files", pre_obj, cases, shard=1, timeout=900)
            ctx.corr_report("pipeline_save_files", mism, viol)
    finally:
        shutil.rmtree(d, ignore_errors=True)
