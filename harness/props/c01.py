"""C01 — reads that follow an annotated isoform are assigned to compatible isoforms only."""
import os, sys, json, types, itertools, collections, shutil, time, re
from fractions import Fraction
from functools import partial
from concurrent.futures import ThreadPoolExecutor
from lib import *

COQ_KEYWORDS = ("all", "none", "at", "in", "if", "then", "else", "fun", "match", "end", "with", "Type", "Set", "Prop", "return")   # tools/translate_tables.py coq_ident
def mes(name): return "MES_" + (name + "_" if name in COQ_KEYWORDS else name)
def cq(x):
    f = Fraction(repr(x)) if isinstance(x, float) else Fraction(x)
    return "(%d # %d)%%Q" % (f.numerator, f.denominator)
def cev(e): return "(mkev %s %s %s)" % (mes(e[0]), civ(e[1]), civ(e[2]))
def cout(r, f): return "(Ok %s)" % f(r[1]) if r[0] == "ok" else "(Raises %d%%N)" % r[1]
EXC = {"IndexError": 1, "AssertionError": 3, "ZeroDivisionError": 4, "KeyError": 5, "TypeError": 6, "ValueError": 7}
MATCHING = ["exact", "precise", "default", "loose"]
PFIELDS = ["delta", "max_intron_shift", "max_missed_exon_len", "max_fake_terminal_exon_len", "max_suspicious_intron_abs_len", "max_suspicious_intron_rel_len",
           "minor_exon_extension", "major_exon_extension", "min_abs_exon_overlap", "min_rel_exon_overlap", "micro_intron_length", "max_intron_abs_diff",
           "max_intron_rel_diff", "apa_delta", "minimal_exon_overlap"]
def cparams(P): return "(mkP %s)" % " ".join(cq(getattr(P, f)) if isinstance(getattr(P, f), float) else cz(getattr(P, f)) for f in PFIELDS)

def mk_params(matching, delta=None):
    """the options object exactly as isoquant.py builds it for --matching_strategy <matching> [--delta d]"""
    import isoquant
    a = types.SimpleNamespace(matching_strategy=matching, delta=delta, resolve_ambiguous='default', splice_correction_strategy="default_ont", count_exons=False, cage=None)
    isoquant.set_matching_options(a); isoquant.set_splice_correction_options(a)
    return a

def small_params(delta):
    """scaled-down tolerances so that every branch of the typing is reachable on a domain of a dozen positions"""
    return types.SimpleNamespace(delta=delta, max_intron_shift=2, max_missed_exon_len=4, max_fake_terminal_exon_len=1, max_suspicious_intron_abs_len=2,
                                 max_suspicious_intron_rel_len=1.0, minor_exon_extension=3, major_exon_extension=6, min_abs_exon_overlap=2, min_rel_exon_overlap=0.5,
                                 micro_intron_length=2, max_intron_abs_diff=1, max_intron_rel_diff=0.5, apa_delta=3, minimal_exon_overlap=1)

def introns_of(exons): return [(a[1] + 1, b[0] - 1) for a, b in zip(exons, exons[1:])]

def call(f, *a):
    try:
        return ("ok", with_timeout(f, *a, seconds=5.0))
    except (IndexError, AssertionError, ZeroDivisionError, KeyError, TypeError, ValueError) as e:
        return ("exc", EXC[type(e).__name__])
    except ImplTimeout:
        return ("exc", 99)

# ------------------------------------------------------------------ compare_junctions
PRE_CJ = r"""From Coq Require Import QArith.
From IQ Require Import Intervals Junctions.
From IQ.gen Require Import Tables Prims.
Open Scope Z_scope.
(* (params, gene introns, gene region, read region, read junctions, isoform region, isoform junctions, implementation output) *)
Definition T := (params * list iv * iv * iv * list iv * iv * list iv * outcome (list event))%type.
Definition model (c:T) := let '(P, K, g, rr, R, ir, II, _) := c in compare_junctions_gene P K g rr R ir II.
Definition check (c:T) : bool := let '(_, _, _, _, _, _, _, out) := c in outcome_eqb events_eqb (Ok (model c)) out.
(* what the comparator owes its callers, evaluated on the implementation's output:
   - never empty; regions as C14's corrector needs them (regions_ordered) and inside the junction lists;
   - a read whose junctions are a contiguous delta-sub-chain of the isoform's, with both ends inside the flanking exons, gets exactly [none];
   - a read junction inside the isoform span without delta-equal partner is covered by an event (flagged_ok) *)
Definition prop (c:T) : bool :=
  let '(P, K, g, rr, R, ir, II, out) := c in
  match out with
  | Raises _ => false
  | Ok evs => negb (length evs =? 0)%nat && cj_spec P rr R ir II evs
  end.
"""

def real_compare(P, K, greg, rreg, R, ireg, I):
    from src.junction_comparator import JunctionComparator
    from src.long_read_profiles import OverlappingFeaturesProfileConstructor
    from src.common import equal_ranges
    jc = JunctionComparator(P, OverlappingFeaturesProfileConstructor(K, greg, comparator=partial(equal_ranges, delta=P.delta)))
    r = call(jc.compare_junctions, list(R), rreg, list(I), ireg)
    if r[0] != "ok": return ("exc", r[1])
    evs = []
    for e in r[1]:
        assert e.event_info == 0
        evs.append((e.event_type.name, tuple(e.isoform_region), tuple(e.read_region)))
    return ("ok", evs)

def cj_case(P, K, greg, rreg, R, ireg, I, src):
    r = real_compare(P, K, greg, rreg, R, ireg, I)
    term = "(%s, %s, %s, %s, %s, %s, %s, %s)" % (cparams(P), civs(K), civ(greg), civ(rreg), civs(R), civ(ireg), civs(I), cout(r, lambda l: clist(l, cev)))
    return term, dict(params={f: getattr(P, f) for f in PFIELDS}, gene_introns=K, gene_region=greg, read_region=rreg, read_junctions=R, isoform_region=ireg,
                      isoform_junctions=I, impl=r, source=src)

def junction_lists(lo, hi, maxn):
    """all junction lists over positions lo..hi with at least one exonic base between consecutive junctions"""
    out = [[]]
    def rec(start, cur):
        if len(cur) == maxn: return
        for a in range(start, hi + 1):
            for b in range(a, hi + 1):
                nxt = cur + [(a, b)]; out.append(nxt); rec(b + 2, nxt)
    rec(lo, []); return out

def gene_with_isoforms(rnd, micro=True):
    """exon pool with some micro introns / micro exons; 1-4 isoforms (exon lists)"""
    k = rnd.randint(2, 9); p = rnd.randint(500, 5000); pool = []
    for i in range(k):
        ln = rnd.choice([rnd.randint(4, 30), rnd.randint(30, 100), rnd.randint(100, 500)]) if 0 < i < k - 1 else rnd.randint(45, 500)
        pool.append((p, p + ln - 1)); p += ln + rnd.choice([rnd.randint(5, 50) if micro else rnd.randint(60, 90), rnd.randint(51, 300), rnd.randint(300, 3000)])
    isoforms = [list(pool)]
    for _ in range(rnd.randint(0, 3)):
        keep = [pool[0]] + [e for e in pool[1:-1] if rnd.random() < .7] + [pool[-1]]
        if rnd.random() < .3:                       # alternative splice site
            j = rnd.randrange(len(keep)); a, b = keep[j]; sh = rnd.choice([-9, -5, -3, 3, 5, 9, 14])
            if j > 0 and a + sh > keep[j - 1][1] + 2 and a + sh < b: keep[j] = (a + sh, b)
        if rnd.random() < .3 and len(keep) > 2:    # alternative first / last exon
            if rnd.random() < .5: keep = keep[1:]
            else: keep = keep[:-1]
        if keep not in isoforms: isoforms.append(keep)
    if rnd.random() < .3:                           # the same intron chain with an alternative end (alternative polyA / TSS site)
        base = list(rnd.choice(isoforms)); amt = rnd.randint(60, 400)
        if len(base) > 1:
            if rnd.random() < .5: base[-1] = (base[-1][0], base[-1][1] + amt)
            elif base[0][0] - amt > 10: base[0] = (base[0][0] - amt, base[0][1])
            if base not in isoforms: isoforms.append(base)
    if rnd.random() < .15: isoforms.append([(pool[0][0] + 3, pool[0][1] + rnd.randint(0, 40))])      # mono-exonic isoform
    return isoforms

def jitter(rnd, exons, amp):
    out = []
    for i, (a, b) in enumerate(exons):
        a2 = a + (rnd.randint(-amp, amp) if i > 0 and rnd.random() < .6 else 0); b2 = b + (rnd.randint(-amp, amp) if i < len(exons) - 1 and rnd.random() < .6 else 0)
        out.append((a2, max(a2, b2)))
    ok = all(x[1] + 1 < y[0] for x, y in zip(out, out[1:]))
    return out if ok else list(exons)

def derive_read(rnd, iso, P):
    """a read from an isoform exon chain by one or two recipes (alignment artefacts and real structural changes)"""
    ex = list(iso); d = P.delta
    for _ in range(rnd.choice([1, 1, 2])):
        r = rnd.choice(["exact", "jit", "jit", "jit_big", "skip", "shift", "fake_l", "fake_r", "tmis_l", "tmis_r", "retain", "trunc", "trunc", "extra", "merge_far", "ext_l", "ext_r", "mono", "altsite"])
        n = len(ex)
        if r == "jit": ex = jitter(rnd, ex, max(1, d))
        elif r == "jit_big": ex = jitter(rnd, ex, 2 * d + 3)
        elif r == "skip" and n > 2:
            j = rnd.randint(1, n - 2); ex = ex[:j] + ex[j + 1:]
        elif r == "shift" and n > 1:
            j = rnd.randint(0, n - 2); sh = rnd.choice([-1, 1]) * rnd.randint(1, P.max_intron_shift + 5)
            a, b = ex[j], ex[j + 1]
            if a[0] < a[1] + sh and b[0] + sh < b[1]: ex[j] = (a[0], a[1] + sh); ex[j + 1] = (b[0] + sh, b[1])
        elif r == "fake_l":
            s_ = ex[0][0] - rnd.randint(50, 3000); ln = rnd.randint(2, P.max_fake_terminal_exon_len + 10)
            if s_ > 10 and s_ + ln + 1 < ex[0][0]: ex = [(s_, s_ + ln)] + ex
        elif r == "fake_r":
            s_ = ex[-1][1] + rnd.randint(50, 3000); ln = rnd.randint(2, P.max_fake_terminal_exon_len + 10); ex = ex + [(s_, s_ + ln)]
        elif r == "tmis_l" and n > 1:
            ln = ex[0][1] - ex[0][0] + rnd.randint(-d, d); e_ = ex[1][0] - rnd.randint(2, 400) - 1
            if ln > 0 and e_ - ln > 10: ex = [(e_ - ln, e_)] + ex[1:]
        elif r == "tmis_r" and n > 1:
            ln = ex[-1][1] - ex[-1][0] + rnd.randint(-d, d); s_ = ex[-2][1] + rnd.randint(2, 400) + 1
            if ln > 0: ex = ex[:-1] + [(s_, s_ + ln)]
        elif r == "retain" and n > 1:
            js = [j for j in range(n - 1) if ex[j + 1][0] - ex[j][1] - 1 <= P.micro_intron_length] or list(range(n - 1))
            j = rnd.choice(js); ex = ex[:j] + [(ex[j][0], ex[j + 1][1])] + ex[j + 2:]
        elif r == "trunc" and n > 2:
            if rnd.random() < .5: ex = [(ex[1][0] + rnd.randint(0, max(0, (ex[1][1] - ex[1][0]) // 2)), ex[1][1])] + ex[2:]
            else: ex = ex[:-2] + [(ex[-2][0], ex[-2][1] - rnd.randint(0, max(0, (ex[-2][1] - ex[-2][0]) // 2)))]
        elif r == "extra":
            j = rnd.randrange(n); a, b = ex[j]
            if b - a > 30:
                c1 = rnd.randint(a + 5, b - 20); c2 = min(b - 5, c1 + rnd.randint(3, 80))
                if c1 + 1 < c2: ex = ex[:j] + [(a, c1), (c2, b)] + ex[j + 1:]
        elif r == "merge_far" and n > 3:
            j = rnd.randint(1, n - 3); ex = ex[:j] + ex[j + 2:]
        elif r == "ext_l":
            ex = [(max(1, ex[0][0] - rnd.choice([3, 20, 49, 50, 51, 80, 400])), ex[0][1])] + ex[1:]
        elif r == "ext_r":
            ex = ex[:-1] + [(ex[-1][0], ex[-1][1] + rnd.choice([3, 20, 49, 50, 51, 80, 400]))]
        elif r == "mono":
            j = rnd.randrange(n); a, b = ex[j]; ex = [(a + rnd.randint(-60, 10), b + rnd.randint(-10, 60))]
            if ex[0][0] > ex[0][1] or ex[0][0] < 1: ex = [(a, b)]
        elif r == "altsite" and n > 1:
            j = rnd.randint(0, n - 2); sh = rnd.choice([-1, 1]) * rnd.randint(d + 1, 60); a = ex[j]
            if a[0] < a[1] + sh < ex[j + 1][0] - 2: ex[j] = (a[0], a[1] + sh)
    ok = all(a <= b for a, b in ex) and all(x[1] + 1 < y[0] for x, y in zip(ex, ex[1:])) and ex[0][0] > 0
    return ex if ok else None

def cj_cases(ctx, quick):
    rnd = ctx.rnd; cases = []
    # (i) exhaustive small domain, scaled tolerances
    JL = [l for l in junction_lists(3, 9, 2) ]
    Rs = [l for l in JL if l]
    n_small = 0
    combos = [(R, I) for R in Rs for I in JL]
    if quick: combos = rnd.sample(combos, min(len(combos), 2500))
    for R, I in combos:
        for delta in (0, 1):
            P = small_params(delta)
            rreg = (R[0][0] - rnd.choice([1, 2]), R[-1][1] + rnd.choice([1, 2]))
            ireg = (I[0][0] - rnd.choice([1, 2]), I[-1][1] + rnd.choice([1, 2])) if I else (rnd.randint(1, 6), rnd.randint(6, 11))
            others = [x for x in set(R + I)]
            K = sorted(set(I + [x for x in others if rnd.random() < .5]))
            greg = (min([ireg[0]] + [k[0] for k in K]) - 1, max([ireg[1]] + [k[1] for k in K]) + 1)
            cases.append(cj_case(P, K, greg, rreg, R, ireg, I, "small-exhaustive")); n_small += 1
    # (ii) three-junction lists, sampled
    JL3 = junction_lists(3, 12, 3)
    for _ in range(1500 if quick else 20000):
        R = rnd.choice(JL3); I = rnd.choice(JL3)
        if not R: continue
        P = small_params(rnd.choice([0, 1, 2]))
        rreg = (R[0][0] - rnd.choice([1, 2, 3]), R[-1][1] + rnd.choice([1, 2, 3]))
        ireg = (I[0][0] - rnd.choice([1, 2, 3]), I[-1][1] + rnd.choice([1, 2, 3])) if I else (rnd.randint(1, 6), rnd.randint(6, 13))
        K = sorted(set(I + [x for x in set(R) if rnd.random() < .5]))
        greg = (min([ireg[0]] + [k[0] for k in K]) - 1, max([ireg[1]] + [k[1] for k in K]) + 1)
        cases.append(cj_case(P, K, greg, rreg, R, ireg, I, "small-sampled"))
    # (iii) gene-like structures, real presets: reads derived from an isoform, compared with every isoform of the gene
    for _ in range(250 if quick else 4000):
        matching = rnd.choice(MATCHING); P = mk_params(matching)
        isoforms = gene_with_isoforms(rnd)
        K = sorted(set(x for iso in isoforms for x in introns_of(iso)))
        greg = (min(i[0][0] for i in isoforms), max(i[-1][1] for i in isoforms))
        for _r in range(4):
            ex = derive_read(rnd, rnd.choice(isoforms), P)
            if ex is None: continue
            for iso in isoforms:
                cases.append(cj_case(P, K, greg, (ex[0][0], ex[-1][1]), introns_of(ex), (iso[0][0], iso[-1][1]), introns_of(iso), "gene-like/" + matching))
    # (iv) corpus: the witnesses stated in props/C01.v, replayed on the real comparator
    Pd = mk_params("default"); I4 = [(101, 299), (501, 799), (901, 1199), (1401, 1599)]
    cases.append(cj_case(Pd, I4, (1, 1700), (480, 1320), [(505, 797), (903, 1196)], (1, 1700), I4, "corpus/chain_example"))
    cases.append(cj_case(mk_params("exact"), [], (1, 1700), (480, 1320), [(505, 797), (903, 1196)], (1, 1700), I4, "corpus/exact_strategy_example"))
    cases.append(cj_case(Pd, [], (1, 1700), (1, 1700), [(101, 299), (501, 1199), (1401, 1599)], (1, 1700), I4, "corpus/skipped_exon_example"))
    cases.append(cj_case(mk_params("default", 3), [], (1, 30), (12, 20), [(13, 14)], (1, 30), [(10, 11), (13, 14)], "corpus/chain_without_first_exon_hypothesis"))
    cases.append(cj_case(Pd, [], (1, 900), (1, 900), [(101, 299), (401, 499)], (350, 800), [], "corpus/unmatched_needs_corner_hypothesis"))
    return cases, n_small


# ------------------------------------------------------------------ tables, presets, classify_assignment, select_best_among_inconsistent
PRE_TAB = r"""From Coq Require Import QArith.
From IQ Require Import Junctions AssignerDefs.
From IQ.gen Require Import Tables.
Open Scope Z_scope.
(* (event type, (value, (consistent, minor, major, intronic), cost)) read from the real enum / predicates / cost dictionary *)
Definition T := (MES * (Z * (bool * bool * bool * bool) * option Q))%type.
Definition check (c:T) : bool :=
  let '(t, (v, (co, mi, ma, intr), q)) := c in
  (Z.of_N (MES_value t) =? v) && Bool.eqb (ev_consistent t) co && Bool.eqb (ev_minor t) mi && Bool.eqb (ev_major t) ma && Bool.eqb (ev_intronic t) intr &&
  match MES_cost t, q with Some a, Some b => Qeq_bool a b | None, None => true | _, _ => false end.
(* a type is in at most one class; only a major type can be intronic; the cost respects the class *)
Definition prop (c:T) : bool :=
  let '(t, (v, (co, mi, ma, intr), q)) := c in
  negb (co && mi) && negb (co && ma) && negb (mi && ma) && implb intr ma &&
  match q with Some x => Qle_bool 0 x && Qle_bool x 1 && implb co (Qeq_bool x 0) && implb ma (Qle_bool (1 # 2) x) | None => negb (co || mi || ma) end.
"""
PRE_PRESET = r"""From Coq Require Import QArith.
From IQ Require Import Junctions AssignerDefs.
From IQ.gen Require Import Tables.
Open Scope Z_scope.
Definition params_eqb (a b:params) : bool :=
  (p_delta a =? p_delta b) && (p_max_intron_shift a =? p_max_intron_shift b) && (p_max_missed_exon_len a =? p_max_missed_exon_len b) &&
  (p_max_fake_terminal_exon_len a =? p_max_fake_terminal_exon_len b) && (p_susp_abs a =? p_susp_abs b) && Qeq_bool (p_susp_rel a) (p_susp_rel b) &&
  (p_minor_ext a =? p_minor_ext b) && (p_major_ext a =? p_major_ext b) && (p_min_abs_exon_overlap a =? p_min_abs_exon_overlap b) &&
  Qeq_bool (p_min_rel_exon_overlap a) (p_min_rel_exon_overlap b) && (p_micro_intron_length a =? p_micro_intron_length b) &&
  (p_max_intron_abs_diff a =? p_max_intron_abs_diff b) && Qeq_bool (p_max_intron_rel_diff a) (p_max_intron_rel_diff b) && (p_apa_delta a =? p_apa_delta b) &&
  (p_minimal_exon_overlap a =? p_minimal_exon_overlap b).
(* (strategy, --delta or None, options object built by the real set_matching_options, (resolve_ambiguous value, correct_minor_errors)) *)
Definition T := (MSN * option Z * params * (Z * bool))%type.
Definition check (c:T) : bool :=
  let '(n, d, p, (ra, cm)) := c in
  params_eqb (match d with Some d => params_of_delta (MS_preset n) d | None => params_of (MS_preset n) end) p &&
  (ARM_value (ms_resolve_ambiguous (MS_preset n)) =? ra) && Bool.eqb (ms_correct_minor_errors (MS_preset n)) cm.
Definition prop (c:T) : bool := let '(n, d, p, _) := c in match d with Some _ => true | None => (p_delta p =? ms_delta (MS_preset n)) && (0 <=? p_delta p) end.
"""
PRE_CLASSIFY = r"""From IQ Require Import Junctions AssignerDefs.
From IQ.gen Require Import Tables.
Open Scope Z_scope.
(* (event types per selected isoform, result of the real classify_assignment) *)
Definition T := (list (list MES) * RAT)%type.
Definition check (c:T) : bool := RAT_eqb (classify (1 <? Z.of_nat (length (fst c))) (concat (fst c))) (snd c).
(* the statements of classify_consistent_iff / major_event_never_consistent on the implementation's answer *)
Definition prop (c:T) : bool :=
  let ev := concat (fst c) in
  Bool.eqb (type_consistent (snd c)) (forallb ev_consistent ev || (negb (existsb ev_major ev) && existsb ev_minor ev)) &&
  implb (existsb ev_major ev) (rmem (snd c) RAT_is_inconsistent).
"""
PRE_SELECT = r"""From Coq Require Import QArith Floats.
From IQ Require Import Junctions AssignerDefs AssignerScore.
From IQ.gen Require Import Tables.
Open Scope Z_scope.
Inductive fres := FSel (ids:list Z) (pen:float) | FRaises (k:Z).
(* (params, events per candidate isoform, result of the real function with the nucleotide tie-break switched off) *)
Definition T := (params * list (Z * list sev) * fres)%type.
Definition check (c:T) : bool :=
  let '(P, ms, out) := c in
  match select_best P ms, out with
  | Some (ids, pen), FSel ids' pen' => list_eqb Z.eqb ids ids' && PrimFloat.eqb pen pen'
  | None, FRaises 5 => true
  | _, _ => false
  end.
Definition prop (c:T) : bool :=
  let '(P, ms, out) := c in
  match out with
  | FSel ids _ => select_spec P ms ids
  | FRaises _ => existsb (fun m => existsb (fun e => match MES_cost (s_type e) with None => true | _ => false end) (snd m)) ms
  end.
"""

def table_cases():
    from src.isoform_assignment import MatchEventSubtype as M, event_subtype_cost
    cases = []
    for t in M:
        q = event_subtype_cost.get(t)
        fl = (M.is_consistent(t), M.is_minor_error(t), M.is_major_inconsistency(t), M.is_intronic_inconsistency(t))
        term = "(%s, (%d, (%s, %s, %s, %s), %s))" % (mes(t.name), t.value, cbool(fl[0]), cbool(fl[1]), cbool(fl[2]), cbool(fl[3]), copt(q, cq))
        cases.append((term, dict(event=t.name, value=t.value, classes=fl, cost=q)))
    return cases

def preset_cases():
    cases = []
    for m in MATCHING:
        for d in (None, 0, 3, 7, 20):
            P = mk_params(m, d)
            term = "(MSN_%s, %s, %s, (%s, %s))" % (m, copt(d, cz), cparams(P), cz(P.resolve_ambiguous.value), cbool(P.correct_minor_errors))
            cases.append((term, dict(matching=m, delta_option=d, params={f: getattr(P, f) for f in PFIELDS}, resolve_ambiguous=P.resolve_ambiguous.name)))
    return cases

def classify_cases(ctx, quick):
    from src.isoform_assignment import MatchEventSubtype as M, MatchEvent
    from src.long_read_assigner import LongReadAssigner
    rnd = ctx.rnd; names = [t for t in M]
    def one(groups):
        rm = {"T%d" % i: [MatchEvent(t) for t in g] for i, g in enumerate(groups)}
        r = LongReadAssigner.classify_assignment(None, sorted(rm), rm)
        term = "(%s, RAT_%s)" % (clist(groups, lambda g: clist(g, lambda t: mes(t.name))), r.name)
        return term, dict(events=[[t.name for t in g] for g in groups], impl=r.name)
    cases = []
    sets_ = [()] + [(a,) for a in names] + list(itertools.combinations(names, 2))
    triples = list(itertools.combinations(names, 3))
    sets_ += rnd.sample(triples, 4000) if quick else triples
    for st in sets_:
        st = list(st)
        cases.append(one([st]))                                        # one selected isoform
        if st:
            k = rnd.randint(0, len(st)); cases.append(one([st[:k], st[k:]]))   # two selected isoforms sharing the events
    return cases

def csev(e): return "(mks %s %s %s %s)" % (mes(e[0]), civ(e[1]), civ(e[2]), cz(e[3]))

def select_cases(ctx, quick):
    from src.isoform_assignment import MatchEventSubtype as M, MatchEvent
    from src.long_read_assigner import LongReadAssigner
    rnd = ctx.rnd; cases = []
    ABS = (1 << 31) - 1; UND = (1 << 31, 1 << 31)
    types = [t for t in M]
    counted = ["exon_skipping_known", "exon_skipping_novel", "exon_gain_novel", "exon_gain_known", "mutually_exclusive_exons_novel", "mutually_exclusive_exons_known",
               "exon_detach_known", "exon_detach_novel", "intron_retention", "unspliced_intron_retention", "fake_micro_intron_retention", "incomplete_intron_retention_left",
               "incomplete_intron_retention_right", "major_exon_elongation_left", "major_exon_elongation_right", "exon_elongation_right", "exon_elongation_left",
               "intron_shift", "exon_misalignment", "extra_intron_novel", "alternative_structure_novel", "none", "fsm", "terminal_site_match_left"]
    def rand_event():
        t = M[rnd.choice(counted)] if rnd.random() < .8 else rnd.choice(types)
        def reg():
            r = rnd.random()
            if r < .25: return UND
            if r < .4: return (ABS, rnd.randint(0, 5))
            a = rnd.randint(0, 5); return (a, a + rnd.choice([0, 0, 1, 2, 3]))
        info = rnd.choice([0, 7, 49, 50, 51, 120, 175, 299, 300, 301, 1000, -5]) if "elongation" in t.name else rnd.choice([0, 0, 1234])
        return (t.name, reg(), reg(), info)
    for _ in range(2500 if quick else 40000):
        P = mk_params(rnd.choice(MATCHING)) if rnd.random() < .7 else small_params(1)
        k = rnd.choice([1, 2, 2, 3, 4]); ms = []
        for i in range(k):
            evs = [rand_event() for _e in range(rnd.choice([0, 1, 1, 2, 3, 5]))]
            if i and rnd.random() < .3: evs = list(ms[0][1])              # exact ties
            if i and rnd.random() < .15: evs = list(reversed(ms[0][1]))    # the same events summed in another order
            ms.append((i + 1, evs))
        asg = LongReadAssigner.__new__(LongReadAssigner); asg.params = P
        asg.resolve_by_nucleotide_score = lambda crp, isoforms, similarity_function=None: list(isoforms)     # the tie-break is not part of this correspondence
        rm = collections.OrderedDict((i, [MatchEvent(M[t], ir, rr, info) for t, ir, rr, info in evs]) for i, evs in ms)
        r = call(asg.select_best_among_inconsistent, None, rm)
        out = "(FSel %s %s%%float)" % (czs(r[1][0]), float(r[1][1]).hex()) if r[0] == "ok" else "(FRaises %d)" % r[1]
        term = "(%s, %s, %s)" % (cparams(P), clist(ms, lambda m: "(%d, %s)" % (m[0], clist(m[1], csev))), out)
        cases.append((term, dict(params={f: getattr(P, f) for f in PFIELDS}, matches=ms, impl=r)))
    return cases

# ------------------------------------------------------------------ generated annotations x reads with ground truth
def c01_world(seed, n_chr=2):
    """gen_data.World with richer genes: exon pools with long and short exons / introns, isoforms by exon choice, alternative splice
       sites at several distances, alternative first / last exons, mono-exonic isoforms; genes on both strands, sometimes overlapping
       (then possibly antisense) - World places them"""
    from gen_data import World
    class W01(World):
        def make_gene(self, gid, chrom, start):
            rnd = self.rnd; L = len(self.chroms[chrom]); strand = rnd.choice("+-")
            n = rnd.choice([1, 2, 3, 4, 5, 6, 8]); pool = []; p = max(1000, start)
            for i in range(n):
                ln = rnd.choice([rnd.randint(60, 300), rnd.randint(25, 60), rnd.randint(300, 900), rnd.randint(220, 400)])
                if i in (0, n - 1): ln = max(ln, 120)
                if p + ln + 2500 > L: return None
                pool.append((p, p + ln - 1)); p += ln + rnd.choice([rnd.randint(80, 400), rnd.randint(400, 3000), rnd.randint(700, 1500), rnd.randint(30, 50)])
            isoforms = {gid + ".T0": list(range(n))}
            def add(ix):
                ex = [pool[i] for i in ix]
                if ix not in isoforms.values() and all(a[1] + 20 < b[0] for a, b in zip(ex, ex[1:])): isoforms["%s.T%d" % (gid, len(isoforms))] = ix
            for k in range(rnd.randint(0, 3)):
                if n < 3: break
                add([0] + [i for i in range(1, n - 1) if rnd.random() < .7] + [n - 1])
            if n >= 2 and rnd.random() < .6:                      # alternative splice site: a copy of an exon with one boundary moved
                base = list(rnd.choice(list(isoforms.values()))); j = rnd.randrange(len(base)); a, b = pool[base[j]]
                sh = rnd.choice([3, 5, 9, 14, 30, 70, 150]) * rnd.choice([-1, 1])
                if j > 0 and (j == len(base) - 1 or rnd.random() < .5): e2 = (a + sh, b)
                elif j < len(base) - 1: e2 = (a, b + sh)
                else: e2 = None
                if e2 and e2[0] + 20 <= e2[1] and (j == 0 or pool[base[j - 1]][1] + 25 < e2[0]) and (j == len(base) - 1 or e2[1] + 25 < pool[base[j + 1]][0]):
                    pool.append(e2); base[j] = len(pool) - 1; add(base)
            if n >= 3 and rnd.random() < .4:                      # alternative first / last exon: drop a terminal exon
                base = list(range(n)); add(base[1:] if rnd.random() < .5 else base[:-1])
            if n >= 2 and rnd.random() < .5:                      # alternative polyA site: the same intron chain, 3' end 60..400 bp away
                base = list(rnd.choice([ix for ix in isoforms.values() if len(ix) >= 2])); j = len(base) - 1 if strand == "+" else 0; a, b = pool[base[j]]
                amt = rnd.randint(60, 400); shorter = (b - a + 1 > amt + 40) and rnd.random() < .5
                if strand == "+": e2 = (a, b - amt) if shorter else (a, b + amt)
                else: e2 = (a + amt, b) if shorter else (a - amt, b)
                if e2[0] > 600 and e2[1] + 2600 < L and e2 not in pool and (strand == "+" or start <= e2[0]):
                    pool.append(e2); base[j] = len(pool) - 1; add(base)
            if n >= 2 and rnd.random() < .3:                      # mono-exonic isoform on one exon
                j = rnd.randrange(n); add([j])
            ends = [pool[i] for ix in isoforms.values() for i in ix]
            gene = dict(id=gid, chr=chrom, strand=strand, pool=pool, isoforms=isoforms, start=min(e[0] for e in ends), end=max(e[1] for e in ends))
            for ix in isoforms.values(): self.plant([pool[i] for i in ix], chrom, strand)
            return gene
    return W01(seed, n_chr=n_chr, chr_len=(60000, 110000), genes_per_chr=(2, 5))

def valid_exons(ex, L):
    return bool(ex) and ex[0][0] > 30 and ex[-1][1] < L - 30 and all(a <= b for a, b in ex) and all(x[1] + 1 < y[0] for x, y in zip(ex, ex[1:]))

def jitter_sites(rnd, ex, amp, lo=0):
    """move every internal boundary by a value drawn from [-amp, amp] with absolute value >= lo"""
    def dv():
        v = rnd.randint(lo, amp) if amp >= lo else 0
        return v * rnd.choice([-1, 1])
    out = []
    for i, (a, b) in enumerate(ex):
        out.append((a + (dv() if i > 0 else 0), b + (dv() if i < len(ex) - 1 else 0)))
    return out

def derive_reads(w, P, rnd, per_isoform):
    """reads per annotated isoform: positives (within the strategy's tolerances), a band of in-between reads, negatives (structural changes)"""
    n = 0; d = P.delta
    tol = max(P.delta, P.max_intron_shift)
    for g in w.genes:
        L = len(w.chroms[g["chr"]]); plus = g["strand"] == "+"
        for tid, ix in g["isoforms"].items():
            full = [g["pool"][i] for i in ix]; k = len(full)
            for rep in range(per_isoform):
                kind = rnd.choice(["fl", "fl", "jit", "jit", "del", "ins", "tr5", "tr3", "trboth", "mono", "jit+tr",                    # positives
                                   "jit2", "ext", "ext",                                                                              # band
                                   "skip", "skip", "extra", "retain", "altsite", "altsite", "farend", "farend", "skip+jit", "retain+tr", "apa", "apa"])  # negatives
                ex = list(full); polya = True; indel = None; src = tid; label = "pos"
                def trunc(ex, side):
                    """cut on the genomic left (side 0) or right (side 1), inside an exon; returns exons, whether the 3' end was kept"""
                    if len(ex) < 2: return ex
                    c = rnd.randint(0, len(ex) - 2) if len(ex) > 2 else rnd.randint(0, 1)
                    if side == 0:
                        e = ex[c]; cut = rnd.randint(e[0], max(e[0], e[1] - rnd.choice([0, 3, 10, 30]))) if c > 0 else e[0] + rnd.randint(0, (e[1] - e[0]) // 2)
                        return [(min(cut, e[1]), e[1])] + ex[c + 1:]
                    e = ex[len(ex) - 1 - c]; cut = rnd.randint(min(e[1], e[0] + rnd.choice([0, 3, 10, 30])), e[1]) if c > 0 else e[1] - rnd.randint(0, (e[1] - e[0]) // 2)
                    return ex[:len(ex) - 1 - c] + [(e[0], max(cut, e[0]))]
                if kind == "fl": pass
                elif kind == "jit": ex = jitter_sites(rnd, ex, d)
                elif kind == "del": indel = "D"
                elif kind == "ins": indel = "I"
                elif kind in ("tr5", "tr3"):
                    left = (kind == "tr5") == plus; ex = trunc(ex, 0 if left else 1); polya = kind == "tr5"
                elif kind == "trboth": ex = trunc(trunc(ex, 0), 1); polya = False
                elif kind == "mono":
                    e = rnd.choice(ex); a = rnd.randint(e[0], max(e[0], e[1] - 60)); ex = [(a, rnd.randint(min(a + 50, e[1]), e[1]))]; polya = False
                elif kind == "jit+tr":
                    ex = jitter_sites(rnd, ex, d); left = rnd.random() < .5; ex2 = trunc(ex, 0 if left else 1); polya = (left == plus) or ex2 == ex; ex = ex2
                elif kind == "jit2": ex = jitter_sites(rnd, ex, 2 * tol + 3, lo=d + 1); label = "band"
                elif kind == "ext":
                    s_ = rnd.choice([0, 1]); amt = rnd.randint(1, 110); label = "band"
                    if s_ == 0: ex = [(ex[0][0] - amt, ex[0][1])] + ex[1:]
                    else: ex = ex[:-1] + [(ex[-1][0], ex[-1][1] + amt)]
                    polya = (s_ == 0) == plus
                else:
                    label = "neg"; src = None
                    if kind.startswith("skip") and k > 2:
                        a = rnd.randint(1, k - 2); b = min(k - 2, a + rnd.choice([0, 0, 1])); ex = ex[:a] + ex[b + 1:]
                        if kind == "skip+jit": ex = jitter_sites(rnd, ex, d)
                    elif kind == "extra" and k > 1:
                        js = [j for j in range(k - 1) if ex[j + 1][0] - ex[j][1] > 700]
                        if js:
                            j = rnd.choice(js); a = ex[j][1] + rnd.randint(200, 300); ex = ex[:j + 1] + [(a, a + rnd.randint(90, 200))] + ex[j + 1:]
                    elif kind.startswith("retain") and k > 1:
                        j = rnd.randint(0, k - 2); ex = ex[:j] + [(ex[j][0], ex[j + 1][1])] + ex[j + 2:]
                        if kind == "retain+tr" and len(ex) > 2: ex = trunc(ex, rnd.choice([0, 1])); polya = False
                    elif kind == "altsite" and k > 1:
                        j = rnd.randint(0, k - 1); a, b = ex[j]; sh = rnd.randint(2 * tol + 8, 2 * tol + 260) * rnd.choice([-1, 1])
                        if j > 0 and (j == k - 1 or rnd.random() < .5): ex[j] = (a + sh, b)
                        else: ex[j] = (a, b + sh)
                    elif kind == "apa":
                        # polyA tail 51..300 bases before the annotated 3' end, inside the last exon (alternative polyA site; apa_delta = 50)
                        e3 = ex[-1] if plus else ex[0]; dist = rnd.randint(P.apa_delta + 1, 6 * P.apa_delta)
                        if e3[1] - e3[0] + 1 > dist + 10:
                            if plus: ex = ex[:-1] + [(e3[0], e3[1] - dist)]
                            else: ex = [(e3[0] + dist, e3[1])] + ex[1:]
                            polya = True; src = tid
                    elif kind == "farend":
                        s_ = rnd.choice([0, 1]); amt = rnd.randint(2 * P.minor_exon_extension + 5, 500)
                        if rnd.random() < .5 and k > 2: ex = trunc(ex, s_); polya = False
                        if s_ == 0: ex = [(ex[0][0] - amt, ex[0][1])] + ex[1:]
                        else: ex = ex[:-1] + [(ex[-1][0], ex[-1][1] + amt)]
                    if ex == full: continue
                if not valid_exons(ex, L): continue
                if indel and not any(b - a + 1 > 50 for a, b in ex[len(ex) // 2:len(ex) // 2 + 1]): indel = None
                name = "%s|%s|%d" % (kind, tid, n); n += 1
                w.add_read(name, g["chr"], ex, g["strand"], polya=polya, indel=indel, truth=dict(kind=kind, label=label, gene=g["id"], isoform=src, derived_from=tid, polya=bool(polya), strand=g["strand"]))
                if label == "pos" and a_rich_end(w.reads[-1]):
                    # the (random) genome is A-rich at the read's 3' end or T-rich at its 5' end: the read carries a polyA-like signal that is not a tail at
                    # T's 3' end, which the property does not cover - generated, not judged
                    w.truth[name][-1].update(label="band", isoform=None, kind=kind + "/a-rich-end")
    return n

def a_rich_end(read, win=16, need=10, span=80):
    """independent and generous: some window of 16 aligned bases within the last 80 has >= 10 A (or within the first 80 >= 10 T)"""
    seq = read["seq"]; cig = read["cigar"]
    if cig and cig[0][0] == 4: seq = seq[cig[0][1]:]
    if cig and cig[-1][0] == 4: seq = seq[:len(seq) - cig[-1][1]]
    tail = seq[-span:].upper(); head = seq[:span].upper()
    return any(tail[i:i + win].count("A") >= need for i in range(max(1, len(tail) - win + 1))) or any(head[i:i + win].count("T") >= need for i in range(max(1, len(head) - win + 1)))

RAT_NAMES = ["unique", "noninformative", "intergenic", "ambiguous", "unique_minor_difference", "inconsistent", "inconsistent_non_intronic", "inconsistent_ambiguous", "suspended"]

PRE_ASSIGN = r"""From Coq Require Import QArith.
From IQ Require Import Intervals Junctions AssignerDefs.
From IQ.gen Require Import Tables Prims.
Open Scope Z_scope.
(* per data set: the strategy's parameters and the annotation per chromosome *)
%s
(* (data set, chromosome, read, polyA/polyT tail the generator attached) *)
Definition T := (Z * Z * rcase * pobs)%%type.
Definition verdict_of (c:T) : verdict := let '(j, ch, r, po) := c in judge_pa (PP j) (ann j ch) (strands j ch) r po.
Definition check (c:T) : bool := true.
Definition prop (c:T) : bool := match verdict_of c with Bad _ => false | _ => true end.
Definition code (v:verdict) : Z := match v with Positive_ok => 0 | Negative_ok => 1 | Not_judged => 2 | Bad k => 10 + k end.
"""

def coq_verdicts(ctx, preamble, terms, tag):
    """Coq's verdict (0 positive ok, 1 negative ok, 2 not judged, 10+k clause k violated) for every case"""
    d = os.path.join(ctx.scratch, "verdict_" + tag); os.makedirs(d, exist_ok=True)
    shards = [terms[i:i + 80] for i in range(0, len(terms), 80)]
    for k, shd in enumerate(shards):
        with open(os.path.join(d, "v_%d.v" % k), "w") as f:
            f.write("From IQ Require Import CorrSupport.\n" + preamble + "Definition cases : list T := [\n" + ";\n".join(shd) + "].\n")
            f.write("Eval vm_compute in (map (fun c => code (verdict_of c)) cases).\n")
    def run(k):
        rc, out = sh(["timeout", "300", "coqc", "-Q", COQ, "IQ", os.path.join(d, "v_%d.v" % k)], timeout=330)
        m = re.search(r"=\s*\[([^\]]*)\]", out, re.S)
        if rc != 0 or not m: return k, None, out[-600:]
        return k, [int(x) for x in re.findall(r"-?\d+", m.group(1))], ""
    res = []
    with ThreadPoolExecutor(NPROC) as ex:
        for k, v, err in ex.map(run, range(len(shards))):
            if v is None or len(v) != len(shards[k]):
                ctx.broken("verdicts:%s" % tag, "coqc failed on the verdict file: %s" % err); res += [None] * len(shards[k])
            else: res += v
    shutil.rmtree(d, ignore_errors=True)
    return res

def pipeline_job(job):
    """generate the data set, run isoquant.py, parse read_assignments.tsv; everything the Coq specification needs is returned"""
    import pipeline as PL, random
    seed, matching, wd = job["seed"], job["matching"], job["dir"]
    rnd = random.Random(seed * 1000003 + MATCHING.index(matching))
    P = mk_params(matching)
    w = c01_world(seed, n_chr=job.get("n_chr", 2))
    n = derive_reads(w, P, rnd, job["per_isoform"])
    paths = w.write(os.path.join(wd, "data"))
    out = os.path.join(wd, "out")
    args = ["--reference", os.path.join(wd, "data", "genome.fa"), "--genedb", os.path.join(wd, "data", "annotation.gtf"), "--complete_genedb", "--bam", paths[0],
            "--data_type", "nanopore", "--matching_strategy", matching, "-p", "S", "--no_model_construction", "-t", "2"]
    rc, log = PL.run_isoquant(out, args)
    job.update(rc=rc, log=log[-1500:], args=[a.replace(wd, "<dir>") for a in args], n_reads=n)
    if rc != 0: return job
    recs = PL.read_assignments(PL.find(out, "S", "read_assignments.tsv"))
    job["records"] = recs
    job["world"] = dict(genes=[dict(id=g["id"], chr=g["chr"], strand=g["strand"], isoforms={t: [g["pool"][i] for i in ix] for t, ix in g["isoforms"].items()}) for g in w.genes],
                        chroms=list(w.chroms))
    job["truth"] = w.truth
    shutil.rmtree(os.path.join(wd, "out"), ignore_errors=True); shutil.rmtree(os.path.join(wd, "data"), ignore_errors=True)
    return job

def clusters_of(genes):
    """genes of one chromosome grouped as the pipeline groups them: connected components of overlapping gene ranges"""
    gs = sorted(genes, key=lambda g: min(e[0] for ex in g["isoforms"].values() for e in ex)); out = []; cur = []; cur_end = -1
    for g in gs:
        a = min(e[0] for ex in g["isoforms"].values() for e in ex); b = max(e[1] for ex in g["isoforms"].values() for e in ex)
        if cur and a <= cur_end: cur.append(g); cur_end = max(cur_end, b)
        else:
            if cur: out.append(cur)
            cur = [g]; cur_end = b
    if cur: out.append(cur)
    return out

def inprocess_job(job):
    """the assigner's core exactly as AlignmentCollector.process_genic drives it (AlignmentInfo from a pysam record, polyA detection and
       trimming, profile construction, assign_to_isoform), on GeneInfo objects built from the generated annotation; no BAM/GTF files"""
    import random, pysam
    from src.gene_info import GeneInfo, TranscriptModel, TranscriptModelType
    from src.long_read_profiles import CombinedProfileConstructor
    from src.long_read_assigner import LongReadAssigner
    from src.alignment_info import AlignmentInfo
    from src.polya_finder import PolyAFinder
    from src.polya_verification import PolyAFixer
    seed, matching = job["seed"], job["matching"]
    rnd = random.Random(seed * 1000003 + MATCHING.index(matching))
    P = mk_params(matching)
    w = c01_world(seed, n_chr=job.get("n_chr", 2)); n = derive_reads(w, P, rnd, job["per_isoform"])
    names = list(w.chroms); hdr = pysam.AlignmentHeader.from_dict({"HD": {"VN": "1.6"}, "SQ": [{"SN": c, "LN": len(w.chroms[c])} for c in names]})
    genes = [dict(id=g["id"], chr=g["chr"], strand=g["strand"], isoforms={t: [g["pool"][i] for i in ix] for t, ix in g["isoforms"].items()}) for g in w.genes]
    finder = PolyAFinder(P.polya_window, P.polya_fraction); fixer = PolyAFixer(P)
    ctxs = []
    for c in names:
        for cl in clusters_of([g for g in genes if g["chr"] == c]):
            models = [TranscriptModel(c, g["strand"], t, g["id"], [tuple(e) for e in ex], TranscriptModelType.known) for g in cl for t, ex in g["isoforms"].items()]
            gi = GeneInfo.from_models(models, P.delta)
            ctxs.append((c, gi.start, gi.end, gi, CombinedProfileConstructor(gi, P), LongReadAssigner(gi, P)))
    recs = []; raised = collections.Counter()
    for r in w.reads:
        a = pysam.AlignedSegment(hdr); a.query_name = r["name"]; a.flag = r["flag"]; a.reference_id = names.index(r["chr"]); a.reference_start = r["start"]
        a.cigartuples = r["cigar"]; a.query_sequence = r["seq"]; a.mapping_quality = r["mapq"]
        end = a.reference_end
        cands = [x for x in ctxs if x[0] == r["chr"] and x[1] <= end and r["start"] + 1 <= x[2]]
        if not cands:
            recs.append(dict(read_id=r["name"], isoform_id=".", assignment_type="intergenic", exons=None, assignment_events=".")); continue
        for (_, _, _, gi, pc, asg) in cands[:1]:            # the generated reads overlap one cluster
            ai = AlignmentInfo(a)
            try:
                ai.add_polya_info(finder, fixer); ai.construct_profiles(pc)
                ra = asg.assign_to_isoform(r["name"], ai.combined_profile)
            except Exception as e:
                raised[type(e).__name__] += 1
                recs.append(dict(read_id=r["name"], isoform_id=".", assignment_type="RAISED:" + type(e).__name__, exons=[tuple(e_) for e_ in ai.read_exons], assignment_events=repr(e))); continue
            ms = [m for m in ra.isoform_matches if m.assigned_transcript is not None]
            for m in (ms or [None]):
                recs.append(dict(read_id=r["name"], isoform_id=m.assigned_transcript if m else ".", assignment_type=ra.assignment_type.name, exons=[tuple(e_) for e_ in ai.read_exons],
                                 assignment_events="+".join(e_.event_type.name for e_ in m.match_subclassifications) if m else "."))
    job.update(rc=0, records=recs, world=dict(genes=genes, chroms=names), truth=w.truth, n_reads=n, via="in-process assigner", raised=dict(raised),
               args=["in-process: c01_world(%d), derive_reads(%s), assign_to_isoform" % (seed, matching)])
    return job

def assignment_cases(jobs):
    """(preamble, [(term, obj)], problems) for a list of finished runs"""
    pp = []; annl = []; strl = []; cases = []; problems = []
    for ji, job in enumerate(jobs):
        world = job["world"]; chroms = world["chroms"]
        ids = {}; iso_by_chr = collections.defaultdict(list); exons_by_id = {}
        for g in world["genes"]:
            for t, ex in g["isoforms"].items():
                ids[t] = len(ids) + 1; iso_by_chr[g["chr"]].append((ids[t], ex)); exons_by_id[t] = ex
        pp.append("  | %d => params_of (MS_preset MSN_%s)" % (ji, job["matching"]))
        for ci, c in enumerate(chroms):
            annl.append("  | %d, %d => %s" % (ji, ci, clist(iso_by_chr[c], lambda i: "(%d, %s)" % (i[0], civs(i[1])))))
            strl.append("  | %d, %d => %s" % (ji, ci, clist([(ids[t], 1 if g["strand"] == "+" else -1) for g in world["genes"] if g["chr"] == c for t in g["isoforms"]], lambda p: "(%d, %s)" % (p[0], cz(p[1])))))
        by_read = collections.OrderedDict()
        for r in job["records"]: by_read.setdefault(r["read_id"], []).append(r)
        for name, tr in job["truth"].items():
            tr = tr[0]; lines = by_read.get(name); tag = "seed%d_%s" % (job["seed"], job["matching"])
            if not lines:
                problems.append(("missing", tag, name)); continue
            if any(l["assignment_type"].startswith("RAISED") for l in lines):
                problems.append(("raised:" + lines[0]["assignment_type"], tag, name)); continue
            types = set(l["assignment_type"] for l in lines); exs = set(tuple(l["exons"]) if l["exons"] is not None else tuple(tuple(e) for e in tr["exons"]) for l in lines)
            if len(types) != 1 or len(exs) != 1:
                problems.append(("several-records", tag, name)); continue
            typ = types.pop(); reported = [l["isoform_id"] for l in lines if l["isoform_id"] not in (".", "*", "")]
            if any(t not in ids for t in reported):
                problems.append(("unknown-isoform", tag, name)); continue
            rex = list(exs.pop())
            if [tuple(e) for e in rex] != [tuple(e) for e in tr["exons"]]:
                problems.append(("exons-differ", tag, name))          # the exons column is the alignment (C16); the TSV's exons are what is judged
            src = ids[tr["isoform"]] if tr.get("isoform") else None
            po = (-1, -1)
            if tr.get("polya"): po = (rex[-1][1], -1) if tr.get("strand") == "+" else (-1, rex[0][0])
            term = "(%d, %d, mkRC %s %s RAT_%s %s, mkPO %s %s)" % (ji, chroms.index(tr["chr"]), civs(rex), copt(src, cz), typ, czs([ids[t] for t in reported]), cz(po[0]), cz(po[1]))
            cases.append((term, dict(read=name, kind=tr["kind"], label=tr["label"], chr=tr["chr"], exons=rex, source=tr.get("isoform"), derived_from=tr.get("derived_from"),
                                     assignment_type=typ, reported=reported, events=[l["assignment_events"] for l in lines], matching=job["matching"], seed=job["seed"],
                                     annotation={t: exons_by_id[t] for g in world["genes"] if g["chr"] == tr["chr"] for t in g["isoforms"]}, tail=po, strand=tr.get("strand"), args=job.get("args"), via=job.get("via", "isoquant.py"),
                                     per_isoform=job["per_isoform"], n_chr=job.get("n_chr", 2))))
    defs = ("Definition PP (j:Z) : params :=\n  match j with\n" + "\n".join(pp) + "\n  | _ => params_of MS_default\n  end.\n" +
            "Definition ann (j c:Z) : list isoform :=\n  match j, c with\n" + "\n".join(annl) + "\n  | _, _ => []\n  end.\n" +
            "Definition strands (j c:Z) : list (Z * Z) :=\n  match j, c with\n" + "\n".join(strl) + "\n  | _, _ => []\n  end.")
    return PRE_ASSIGN % defs, cases, problems

BATCH = 12
CLAUSE = {11: "positive read without a consistent assignment type", 12: "a reported isoform is not compatible with the read",
          13: "full-length read: its source isoform is not among the reported ones", 14: "the source isoform is the only compatible one but the assignment is not unique to it",
          15: "read far from every annotated isoform reported with a consistent type"}

def world_stats(jobs):
    st = collections.Counter()
    for job in jobs:
        gs = job["world"]["genes"]; st["worlds"] += 1; st["genes"] += len(gs); st["isoforms"] += sum(len(g["isoforms"]) for g in gs)
        st["mono-exonic isoforms"] += sum(1 for g in gs for ex in g["isoforms"].values() if len(ex) == 1)
        st["genes on -"] += sum(1 for g in gs if g["strand"] == "-")
        rng = lambda g: (min(e[0] for ex in g["isoforms"].values() for e in ex), max(e[1] for ex in g["isoforms"].values() for e in ex))
        for i, a in enumerate(gs):
            for b in gs[i + 1:]:
                if a["chr"] == b["chr"] and rng(a)[0] <= rng(b)[1] and rng(b)[0] <= rng(a)[1]:
                    st["overlapping gene pairs"] += 1; st["antisense overlapping gene pairs"] += a["strand"] != b["strand"]
    return dict(st)

def judge_runs(ctx, jobs, name, stats):
    """Coq evaluates assignment_ok on every read of the finished runs"""
    pre, cases, problems = assignment_cases(jobs)
    ctx.notes.append("%s annotations: %s" % (name, json.dumps(world_stats(jobs))))
    for kind, tag, rname in problems:
        stats["problem:" + kind] += 1
        if kind != "exons-differ": ctx.notes.append("%s %s: read %s: %s" % (name, tag, rname, kind))
        if kind.startswith("raised"): ctx.violation("assigner-raises:" + kind, "the assigner raises an exception on a generated read", dict(run=tag, read=rname))
    verdicts = coq_verdicts(ctx, pre, [c for c, _ in cases], re.sub(r"\W", "_", name))
    for (c, o), v in zip(cases, verdicts):
        o["verdict"] = v
        stats["%s:%s:%s" % (o["matching"], o["label"], {0: "positive-ok", 1: "negative-ok", 2: "not-judged", None: "?"}.get(v, "BAD-%s" % v))] += 1
        stats["kind:%s:%s" % (o["kind"], {0: "judged", 1: "judged", 2: "not-judged", None: "?"}.get(v, "BAD"))] += 1
    mism, viol = ctx.corr(name, pre, cases, shard=80, ctype="T", nontrivial=lambda o: o.get("verdict") in (0, 1))
    for o in viol:
        v = o.get("verdict")
        ctx.violation("assignment:%s:%s:%s" % (o["matching"], o["kind"], v), "read_assignments.tsv violates assignment_ok: " + CLAUSE.get(v, str(v)), dict(case=o))

def run_pipelines(ctx, quick):
    import pipeline as PL
    seeds = [ctx.seed * 100 + i for i in range(2 if quick else 10)]
    root = PL.scratch("iqc01_"); jobs = []
    for sd in seeds:
        for m in MATCHING:
            jobs.append(dict(seed=sd, matching=m, dir=os.path.join(root, "w%d_%s" % (sd, m)), per_isoform=10 if quick else 24, n_chr=2 if quick else 3))
    for j in jobs: os.makedirs(j["dir"])
    try:
        with ThreadPoolExecutor(8) as ex: jobs = list(ex.map(pipeline_job, jobs))
    finally:
        shutil.rmtree(root, ignore_errors=True)
    stats = collections.Counter(); done = []
    for job in jobs:
        ctx.cov["pipeline_runs"] += 1
        if job["rc"] != 0:
            ctx.violation(None, "isoquant.py exits %d on a generated data set" % job["rc"], dict(seed=job["seed"], matching=job["matching"], args=job["args"], log_tail=job["log"]))
        else: done.append(job)
    for b in range(0, len(done), BATCH):       # one Coq preamble (annotations of the batch) per call: keeps the case files small
        judge_runs(ctx, done[b:b + BATCH], "assignment_ok[pipeline]" if len(done) <= BATCH else "assignment_ok[pipeline %d]" % (b // BATCH), stats)
    return stats

def run_inprocess(ctx, quick):
    from concurrent.futures import ProcessPoolExecutor
    seeds = [ctx.seed * 100 + 50 + i for i in range(3 if quick else 20)]
    jobs = [dict(seed=sd, matching=m, per_isoform=12 if quick else 24, n_chr=2 if quick else 3) for sd in seeds for m in MATCHING]
    with ProcessPoolExecutor(8) as ex: jobs = list(ex.map(inprocess_job, jobs))
    stats = collections.Counter()
    for b in range(0, len(jobs), BATCH):
        judge_runs(ctx, jobs[b:b + BATCH], "assignment_ok[in-process]" if len(jobs) <= BATCH else "assignment_ok[in-process %d]" % (b // BATCH), stats)
    return stats

def rebuild_params(d):
    return types.SimpleNamespace(**d)

def replay(ctx, rep):
    """re-run one recorded failing input"""
    ctx.prepare("C01.v")
    r = rep.get("replay", {}); c = r.get("case", r)
    if r.get("correspondence") == "compare_junctions" or "read_junctions" in c:
        P = rebuild_params(c["params"])
        case = cj_case(P, [tuple(x) for x in c["gene_introns"]], tuple(c["gene_region"]), tuple(c["read_region"]), [tuple(x) for x in c["read_junctions"]],
                       tuple(c["isoform_region"]), [tuple(x) for x in c["isoform_junctions"]], "replay")
        print("implementation output:", case[1]["impl"])
        mism, viol = ctx.corr("compare_junctions", PRE_CJ, [case], ctype="T"); ctx.corr_report("compare_junctions", mism, viol); return
    if "via" in c and "read" in c:
        job = dict(seed=c["seed"], matching=c["matching"], per_isoform=c.get("per_isoform", 10), n_chr=c.get("n_chr", 2))
        if c["via"] == "isoquant.py":
            import pipeline as PL
            root = PL.scratch("iqc01_"); job["dir"] = os.path.join(root, "w"); os.makedirs(job["dir"])
            try: job = pipeline_job(job)
            finally: shutil.rmtree(root, ignore_errors=True)
        else:
            job = inprocess_job(job)
        if job["rc"] != 0:
            ctx.violation(None, "isoquant.py exits %d" % job["rc"], dict(log_tail=job["log"])); return
        job["truth"] = {k: v for k, v in job["truth"].items() if k == c["read"]}
        print("records of the read:", [x for x in job["records"] if x["read_id"] == c["read"]])
        judge_runs(ctx, [job], "assignment_ok[replay]", collections.Counter()); return
    print("nothing to replay for this record; running the whole check"); run(ctx)


def run(ctx):
    quick = ctx.tier == "quick"
    import logging
    logging.getLogger("IsoQuant").setLevel(logging.ERROR)        # classify_assignment warns about every unclassified event type it is shown
    T0 = time.time()
    def lap(what): ctx.notes.append("time %s: %.0f s" % (what, time.time() - T0))
    ctx.prepare("C01.v"); lap("prepare")
    ctx.assume += [
        "LEVEL: proof for the decision layers (classification over the regenerated tables, presets, both phases of compare_junctions, exon-elongation subtype, polyA verification, "
        "the composition for a read that follows an isoform) AND for one slice of the end-to-end statement on the executable model AssignerMatch.assign of LongReadAssigner.assign_to_isoform "
        "(profile construction by the C19 models, match_consistent spliced/unspliced, find_containing/overlapping/matching isoforms, select_similar_isoforms, detect_inconsistensies, "
        "resolve_by_nucleotide_score, match_inconsistent): PROVED (C01_exact_match_reports_T / C01_exact_match_unique) - a read without polyA tail whose intron chain EQUALS T's and whose "
        "ends lie inside T's terminal exons gets a consistent type with T reported, only profile-compatible isoforms reported, and type unique / exactly T when no other isoform is "
        "profile-compatible; hypotheses: distinct isoform ids, exons separated by a base, non-negative coordinates, annotated introns longer than delta, T's internal exons longer than delta, "
        "the read ends well placed in their split-exon blocks (or minimal_exon_overlap <= delta+1), delta <= minor_exon_extension, and (several compatible isoforms only) T surviving "
        "resolve_by_nucleotide_score (score(T)*1.5 >= best; floats abstracted: proved for exact rational scores, the float instance is what the correspondence validates)",
        "STILL JUDGED ON OUTPUTS (C01_statement remains PARTIAL): reads within delta but not equal to T's chain, truncated reads (ISM), indels, polyA tails, mono-exonic reads, the fallback of "
        "match_consistent to match_inconsistent, the negative side (far reads never consistent) beyond the decision-layer theorems, and the pipeline around the assigner (BAM parsing, polyA detection, "
        "gene clustering, multi-mapper resolution, printing): decided read by read by Coq evaluating assignment_ok on read_assignments.tsv of real runs and on the assigner core run in process, "
        "over generated annotations x reads x 4 strategies",
        "models are validated against the real functions by the unit correspondences of this check (compare_junctions incl. detect_contradiction_type, classify_assignment, "
        "select_best_among_inconsistent without its nucleotide tie-break, categorize_exon_elongation_subtype, verify_read_ends, and assign_to_isoform as a whole incl. profile construction with "
        "bit-exact float scores); the profile constructors' set-theoretic meaning is the subject of C19/C13 (their characterisation theorems are used by the proof)",
        "comparator events satisfy the corrector's hypothesis: C01_events_satisfy_corrector_hypothesis (coq/JunctionsCorrector.v) proves C14's events_wf for the event list of the comparator model "
        "under explicit size hypotheses on the read (exons longer than 2*delta, introns longer than delta), for the repaired ExonCorrector",
        "junction lists as IsoQuant builds them: start <= end, sorted, at least one base between consecutive junctions, inside their region, fewer than 2^31 - 1 junctions",
        "float tests of the comparator re-expressed over Q: d <= min(a, r*x) and float(a) <= float(b)*r for r in {0, 0.2, 0.5, 1}, round(0.2*n) half-to-even (exact for the integer ranges "
        "that occur; boundary values are part of the correspondence); select_best_among_inconsistent is modelled bit-exactly with primitive floats (correspondence only)",
        "assignment_ok never demands more than the property: `compatible` allows read ends up to minor_exon_extension beyond the flanking exons; a read is judged as positive only if it "
        "follows its source isoform strictly (every site within delta, ends inside the exons, every exon at least 2*minimal_exon_overlap long - a shorter exon can straddle a split-exon boundary with fewer than minimal_exon_overlap bases on either side and then matches no block) and clauses 3/4 only if no other annotated "
        "intron is strictly closer to one of its junctions; as negative only if, for every isoform of the chromosome, it shares no exon, retains an intron longer than 2*micro_intron_length, "
        "has an end more than 2*minor_exon_extension outside the flanking exon (short introns bridged), or has a long intron that none of the doubled tolerance branches explains, or carries a "
        "polyA/polyT tail inside the last exon of the isoform (of the tail's strand) more than 2*apa_delta before its 3' end; full-length = the read spans all introns of T, and for a mono-exonic T "
        "(where that is vacuous) both ends of the mono-exonic read lie within minor_exon_extension of T's ends; a read with a tail is positive only if the tail is within apa_delta of T's 3' end; "
        "everything else is generated but not judged",
        "the exons column of read_assignments.tsv is taken as the read's alignment (its correctness is C16's subject)"]
    cases, n_small = cj_cases(ctx, quick); lap("compare_junctions cases")
    ctx.rule("compare_junctions (real JunctionComparator with a real OverlappingFeaturesProfileConstructor): (i) all pairs of junction lists with <= 2 junctions over positions 3..9 "
             "(%s) x delta 0,1 with scaled-down tolerances, random regions and known-intron sets; (ii) sampled 3-junction lists over 3..12, delta 0..2; (iii) gene-like exon pools with 1-4 isoforms "
             "(micro introns/exons, alternative sites, mono-exonic isoforms) under the 4 real presets, reads derived by 1-2 of 19 recipes and compared with every isoform; (iv) the witnesses of "
             "props/C01.v; non-trivial = the implementation returns something other than [none]; every exception of the real function is a case (`Raises`)" % ("2500 sampled" if quick else "exhaustive"))
    hist = collections.Counter(e[0] for _, o in cases if o["impl"][0] == "ok" for e in o["impl"][1])
    ctx.notes.append("compare_junctions event histogram: " + ", ".join("%s=%d" % kv for kv in sorted(hist.items(), key=lambda kv: -kv[1])))
    mism, viol = ctx.corr("compare_junctions", PRE_CJ, cases, shard=250, ctype="T", nontrivial=lambda o: o["impl"][0] == "ok" and any(e[0] != "none" for e in o["impl"][1]))
    ctx.corr_report("compare_junctions", mism, viol); lap("compare_junctions corr")

    # ---- tables and presets as the running code sees them (independent check of the translator), classification, scoring
    cases = table_cases()
    ctx.rule("tables: every MatchEventSubtype member: value, the four class predicates and the cost read from the real objects = generated gen/Tables.v")
    mism, viol = ctx.corr("event_tables", PRE_TAB, cases, ctype="T"); ctx.corr_report("event_tables", mism, viol)
    cases = preset_cases()
    ctx.rule("presets: set_matching_options for the 4 strategies x --delta in {unset, 0, 3, 7, 20}: every option the assigner reads = params_of (generated preset)")
    mism, viol = ctx.corr("matching_presets", PRE_PRESET, cases, ctype="T"); ctx.corr_report("matching_presets", mism, viol)
    cases = classify_cases(ctx, quick)
    ctx.rule("classify_assignment: all event-type sets of size <= 2 (exhaustive) and of size 3 (%s), for one selected isoform and split over two; non-trivial = non-empty set" % ("4000 sampled" if quick else "exhaustive"))
    mism, viol = ctx.corr("classify_assignment", PRE_CLASSIFY, cases, shard=1500, ctype="T", nontrivial=lambda o: any(o["events"]))
    ctx.corr_report("classify_assignment", mism, viol); lap("tables, presets, classify")
    cases = select_cases(ctx, quick)
    ctx.rule("select_best_among_inconsistent (tie-break by nucleotide score switched off): 1-4 candidate isoforms with random event lists (regions undefined / absent / ranges, elongation lengths at the interpolation boundaries, exact ties and permuted sums), real presets and scaled parameters; float penalties compared bit-exactly")
    mism, viol = ctx.corr("select_best_among_inconsistent", PRE_SELECT, cases, shard=250, ctype="T", nontrivial=lambda o: len(o["matches"]) > 1)
    ctx.corr_report("select_best_among_inconsistent", mism, viol); lap("select_best")

    # ---- read ends: exon elongation subtype and polyA verification (models and theorems in AssignerEnds.v)
    from props import c01_ends
    ends_stats = c01_ends.run_ends(ctx, quick); lap("read ends")
    if ends_stats: ctx.notes.append("read-end correspondences: %s" % json.dumps(ends_stats, default=str)[:1500])

    ctx.rule("assignment_ok: generated worlds (2 chromosomes quick / 3 thorough, 2-5 genes each on both strands, sometimes overlapping and then possibly antisense, exon pools with 1-8 exons, "
             "isoforms by exon choice, alternative splice sites at distance 3..150, alternative first/last exons, mono-exonic isoforms) x reads per isoform by recipe - positives: fl, jit (every site "
             "moved by up to the strategy's delta), del/ins inside an exon, tr5/tr3/trboth (cut inside an exon, terminal pieces down to 1 base), mono, jit+tr, polyA tail at the 3' end when it is kept; "
             "band (not judged): jitter in (delta, 2*max(delta,max_intron_shift)+3], ends extended by 1..110; negatives: skipped exon(s), extra exon in a long intron, retained intron, splice site "
             "moved by more than 2*max(delta,max_intron_shift)+8, end moved by more than 2*minor_exon_extension, combinations - x 4 strategies (exact, precise, default, loose), through isoquant.py "
             "(read_assignments.tsv) and through the assigner's core in process (AlignmentInfo from a pysam record, polyA detection, profiles, assign_to_isoform); Coq decides positive / negative / "
             "not judged from the geometry alone and evaluates the clauses; non-trivial = judged")
    # ---- the assigner's decision tree: assign_to_isoform = AssignerMatch.assign (float scores), C01's output spec with every isoform as candidate source
    from props import c01_match
    mstats = c01_match.run_match(ctx, quick); lap("assign_to_isoform")
    ctx.notes.append("assign_to_isoform correspondence: %s" % json.dumps(mstats, default=str)[:800])

    stats = run_pipelines(ctx, quick); lap("pipelines")
    ctx.notes.append("pipeline verdicts: " + ", ".join("%s=%d" % kv for kv in sorted(stats.items())))
    stats2 = run_inprocess(ctx, quick); lap("in-process")
    ctx.notes.append("in-process verdicts: " + ", ".join("%s=%d" % kv for kv in sorted(stats2.items())))
    tot = stats + stats2
    judged_pos = sum(v for k, v in tot.items() if k.endswith(":positive-ok")); judged_neg = sum(v for k, v in tot.items() if k.endswith(":negative-ok"))
    ctx.notes.append("assignment_ok: %d reads judged positive, %d judged negative, %d not judged; per strategy positive/negative: %s" % (
        judged_pos, judged_neg, sum(v for k, v in tot.items() if k.endswith(":not-judged") and not k.startswith("kind:")),
        ", ".join("%s %d/%d" % (m, sum(v for k, v in tot.items() if k.startswith(m + ":") and k.endswith("positive-ok")), sum(v for k, v in tot.items() if k.startswith(m + ":") and k.endswith("negative-ok"))) for m in MATCHING)))
    for m in MATCHING:
        if not any(k.startswith(m + ":") and k.endswith("positive-ok") for k in tot) or not any(k.startswith(m + ":") and k.endswith("negative-ok") for k in tot):
            ctx.broken("generator:%s" % m, "no judged positive or no judged negative read under strategy %s: the generator or the specification lost its teeth" % m)
