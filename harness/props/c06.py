"""C06 — outputs do not depend on --threads, PYTHONHASHSEED, --high_memory / --keep_tmp or repetition."""
import os, sys, shutil, tempfile, types, json, gzip, re, itertools, copy, io, traceback
from concurrent.futures import ThreadPoolExecutor
from lib import *
from props.c10 import cs, css, snap, diff_files, write_bam, PRE, index_fasta, plain_fasta, SEED_WRAPPER

HERE = os.path.dirname(os.path.abspath(__file__))
SITES = os.path.join(HERE, "c06_sites.json")


# ====================================================================================================== static scan of order / state sites against the reviewed baseline
def scan_sites(ctx, kinds=("order", "state")):
    """re-scan the checked-out source (tools/scan_state.py) and compare with the reviewed baseline c06_sites.json: a site that is not in the baseline is an unreviewed
       order / state site -> the obligation 'every site is reviewed' no longer checks; returns {"order": [...], "state": [...]} of new sites"""
    tools = os.path.join(VERIF, "tools")
    if tools not in sys.path: sys.path.insert(0, tools)
    import scan_state
    cur = scan_state.scan(REPO); base = json.load(open(SITES)); new = {"order": [], "state": []}
    for kind in kinds:
        bk = {scan_state.site_key(e): e for e in base[kind]}; ck = {scan_state.site_key(e): e for e in cur[kind]}
        for k, e in ck.items():
            if k not in bk: new[kind].append(dict(e, site=k))
            elif e["count"] > bk[k]["count"]: new[kind].append(dict(e, site=k + "  (%d occurrences, %d reviewed)" % (e["count"], bk[k]["count"])))
        gone = [k for k in bk if k not in ck]
        if gone: ctx.notes.append("scan: %d reviewed %s site(s) no longer in the source: %s" % (len(gone), kind, "; ".join(gone)[:600]))
        verdicts = {}
        for k, e in bk.items():
            if k in ck: verdicts[e["verdict"].split(":")[0]] = verdicts.get(e["verdict"].split(":")[0], 0) + 1
        ctx.notes.append("scan: %d %s sites in %d files (%s not imported by isoquant.py, skipped), %d reviewed, %d NEW; reviewed by verdict: %s" %
                         (len(ck), kind, len(cur["files"]), ", ".join(os.path.basename(x) for x in cur["not_imported"]), len(ck) - len(new[kind]), len(new[kind]),
                          ", ".join("%s %d" % kv for kv in sorted(verdicts.items()))))
        ctx.count(evaluations=len(ck), nontrivial=len(ck))
        for e in new[kind]: ctx.notes.append("scan: NEW %s site (not in the reviewed baseline): %s @ lines %s" % (kind, e["site"], e.get("lines", "?")))
        if new[kind]:
            ctx.broken("scan:new-%s-site" % kind, "%d %s site(s) of the source are not in the reviewed baseline harness/props/c06_sites.json (file | function | what | expression @ lines): %s" %
                       (len(new[kind]), kind, " ;; ".join("%s @ %s" % (e["site"], e.get("lines", "")) for e in new[kind])[:2500]), extra={"new_sites": new[kind]})
    ctx.rule("static scan (tools/scan_state.py, Python ast, on the checked-out source): every place where a set / a container with set-derived order is iterated or order-observed "
             "(for, comprehensions, list / tuple / enumerate / iter / zip / map / filter / sum / str, pop, min / max with key, join, unpacking, sorted / sort WITH their key, hash(), "
             "file system enumeration) and every piece of process-wide state (class-level mutable attributes and assignments through the class, mutated module globals, args.<field> "
             "assigned during processing, once-evaluated default arguments) must be in the reviewed baseline c06_sites.json; a new site breaks the obligation and switches the sweep to "
             "the intensified search")
    return new


def scan_section(ctx, quick):
    ctx.new_sites = {"order": [], "state": []}
    ctx.new_sites = scan_sites(ctx)


NAMES = ["1", "2", "10", "01", "X", "x", "a1", "a01", "A1", "b", "1b", "1_2", "", "M"]
LINES = ["#h\n", "x\n", "# c\n", "\n", "y z\n", "#\n"]


# ====================================================================================================== merge_files / natural sort
def real_merge(work, label, suffix, chr_ids, contents, copy_header):
    """create the part files (named by the real merge_file_list) and run the real merge_files; returns (parts as the model sees them, merged lines, raised)"""
    from src.file_utils import merge_files, merge_file_list
    d = tempfile.mkdtemp(dir=work); fname = os.path.join(d, label + suffix)
    names = merge_file_list(fname, label, chr_ids)
    parts = []
    for n, c in zip(names, chr_ids):
        if contents[c] is not None: open(n, "w").write("".join(contents[c]))
        parts.append((n, contents[c]))
    out = io.StringIO(); raised = False
    try: merge_files(fname, label, chr_ids, out, copy_header=copy_header)
    except FileNotFoundError: raised = True
    left = sorted(os.listdir(d)); shutil.rmtree(d, ignore_errors=True)
    return parts, out.getvalue().splitlines(True), raised, left


def cparts(parts): return clist(parts, lambda p: "(%s, %s)" % (cs(p[0]), "None" if p[1] is None else "(Some %s)" % css(p[1])))


def merge_unit(ctx, quick):
    rnd = ctx.rnd; cases = []; work = tempfile.mkdtemp(prefix="iqv_c06m_")
    try:
        combos = list(itertools.permutations(NAMES, 2)) + [t for k, t in enumerate(itertools.permutations(NAMES, 3)) if not quick or k % 4 == ctx.seed % 4]
        combos += [tuple(rnd.sample(NAMES, rnd.randint(4, 7))) for _ in range(60 if quick else 600)]
        for k, ids in enumerate(combos):
            ids = list(ids); copy_header = k % 5 == 0; label = ("OUT", "S", "E1")[k % 3]
            contents = {}
            for c in ids:
                ls = [rnd.choice(LINES) for _ in range(rnd.randint(0, 4))]
                if ls and rnd.random() < .15: ls[-1] = ls[-1].rstrip("\n") or "q"            # last line without terminator
                contents[c] = None if rnd.random() < .04 else ls
            ids2 = list(ids); rnd.shuffle(ids2)
            if ids2 == ids: ids2 = ids[::-1]
            p1, o1, r1, left1 = real_merge(work, label, ".gene_counts.tsv", ids, contents, copy_header)
            p2, o2, r2, left2 = real_merge(work, label, ".gene_counts.tsv", ids2, contents, copy_header)
            if not r1 and left1: ctx.violation(None, "merge_files leaves part files behind", {"chr_ids": ids, "left": left1})
            # the two runs use different scratch directories: the model gets the names with the directory replaced by a fixed one
            def norm(parts): return [("/w/" + os.path.basename(n), c) for n, c in parts]
            cases.append(("(%s, %s, (%s, %s), %s, (%s, %s))" % (cbool(copy_header), cparts(norm(p1)), css(o1), cbool(r1), cparts(norm(p2)), css(o2), cbool(r2)),
                          {"chr_ids": ids, "second order": ids2, "label": label, "copy_header": copy_header, "contents": contents, "merged": o1, "merged (second order)": o2, "raised": [r1, r2]}))
    finally:
        shutil.rmtree(work, ignore_errors=True)
    pre = PRE + "Definition check := check_merge.\nDefinition prop := prop_merge.\n"
    mism, viol = ctx.corr("merge_files", pre, cases, shard=150, nontrivial=lambda o: len([c for c in o["contents"].values() if c]) > 1, ctype="mergecase")
    ctx.corr_report("merge_files", mism, viol, keyfn=lambda o: None, what="merge_files: the merged text depends on the order in which the chromosomes are listed")
    ctx.rule("merge_files (real, on real part files): chromosome names from a pool of %d (digits with and without leading zeros, upper / lower case twins, empty, mixed) - all ordered "
             "pairs, %s ordered triples, random 4-7-tuples; parts of 0-4 lines with leading '#' runs, blank lines, a last line without terminator, 4%% missing parts (FileNotFoundError), "
             "copy_header on / off; each case merged in two listing orders; model = natural-sort + header skipping; specification: the two orders give the same text unless two names share "
             "a sort key; non-trivial = at least two non-empty parts. %d cases" % (len(NAMES), "all" if not quick else "a quarter of the", len(cases)))
    ctx.exhaustive = dict(domain="ordered pairs%s of %d chromosome names" % (" and triples" if not quick else " and a quarter of the ordered triples", len(NAMES)), size=len(cases), complete=not quick)


def part_variant():
    from src.file_utils import merge_file_list
    return merge_file_list("/d/S/S.x.SQ", "S", ["c"])[0] == "/d/S/S_c.x.SQ"


def part_names(ctx, quick):
    """merge_file_list against the names the per-chromosome writers use: SampleData(prefix = label_chr) for the same output directory"""
    from src.file_utils import merge_file_list
    from src.input_data_storage import SampleData
    def paths(label, out_dir):
        s = SampleData([["x.bam"]], label, out_dir, {}, None); res = {}
        for k, v in vars(s).items():
            if not isinstance(v, str) or not k.startswith("out_") or k in ("out_dir", "out_raw_file"): continue
            if v.endswith((".tsv", ".bed")): res[k] = v
            else:
                for suf in ("_counts.tsv", "_counts_linear.tsv", "_counts.tsv.stats"): res[k + suf] = v + suf
        for k, suf in (("gtf", ".transcript_models.gtf"), ("r2t", ".transcript_model_reads.tsv"), ("ext", ".extended_annotation.gtf")): res[k] = os.path.join(out_dir, label + suf)
        return res
    labels = ["OUT", "S", "s", "t", "e", "E1", "EH", "tsv", "model", "reads", "gene", "exon", "counts", "known", "a.b", "sample_1", "Q", "x", "10", "ctrl"]
    cases = []
    for label in labels:
        for out_dir in ("/o/" + label, "/data/run.tsv/" + label)[:2 if label in ("S", "tsv", "OUT", "10") else 1]:
            for chr_id in ("chr1", label):
                final = paths(label, out_dir); written = paths(label + "_" + chr_id, out_dir)
                for k in final:
                    impl = merge_file_list(final[k], label, [chr_id])[0]
                    cases.append(("(%s, %s, %s, %s, %s)" % (cs(final[k]), cs(label), cs(chr_id), cs(impl), cs(written[k])),
                                  {"experiment name": label, "chromosome": chr_id, "final file": final[k], "part looked for by merge_files": impl, "part written": written[k]}))
    vf = part_variant()
    ctx.notes.append("merge_file_list: the checked-out code behaves like the %s model" % ("repaired" if vf else "current (last occurrence of the name is replaced)"))
    pre = PRE + "Definition check := check_part %s.\nDefinition prop := prop_part.\n" % cbool(vf)
    mism, viol = ctx.corr("part_names", pre, cases, shard=400, nontrivial=lambda o: True, ctype="partcase")
    ctx.corr_report("part_names", mism, viol, keyfn=lambda o: "C06:experiment-name-in-file-suffix",
                    what="merge_files looks for a part file other than the one the per-chromosome writer created (the experiment name occurs again in the file suffix)")
    ctx.rule("part names: every final file name of SampleData / GFFPrinter / the counters for %d experiment names (incl. names that occur in a suffix: S, s, t, e, tsv, model, reads, gene, "
             "exon, counts, known) x 1-2 output directories x 2 chromosome names; merge_file_list's answer against the path of SampleData(prefix=name_chr). %d cases" % (len(labels), len(cases)))


# ====================================================================================================== feature ids are only keys
def feature_counter(ctx, quick):
    from src.long_read_counter import ExonCounter, IntronCounter
    from src.gene_info import FeatureInfo
    rnd = ctx.rnd; cases = []; work = tempfile.mkdtemp(prefix="iqv_c06f_")
    def run(events, feats, groups, offset, grouped, cls):
        FeatureInfo.feature_id_counter.value = offset
        infos = [FeatureInfo("chr1", a, b, "+", fl, list(g)) for a, b, fl, g in feats]
        c = cls(os.path.join(work, "c%d" % rnd.randrange(10 ** 9)), ignore_read_groups=not grouped)
        for prof, grp in events:
            ra = types.SimpleNamespace(exon_gene_profile=prof, intron_gene_profile=prof, gene_info=types.SimpleNamespace(exon_property_map=infos, intron_property_map=infos), read_group=grp)
            c.add_read_info(ra)
        c.dump()
        rows = []
        for l in open(c.output_counts_file_name):
            if l.startswith("#"): continue
            v = l.rstrip("\n").split("\t"); rows.append(("\t".join(v[:6]), v[6], int(v[7]), int(v[8])))
        os.remove(c.output_counts_file_name)
        return infos, rows
    try:
        n = 300 if quick else 3000
        for i in range(n):
            nf = rnd.randint(1, 6); feats = []
            for k in range(nf):
                a = 100 * (k + 1) if rnd.random() < .8 else 100                                   # sometimes the same printed text for two features
                feats.append((a, a + 50, rnd.choice(["X", "I", "TU"]), ["g1"] if rnd.random() < .7 else ["g1", "g2"]))
            groups = rnd.sample(["NA", "zeta", "alpha", "10", "9"], rnd.randint(1, 3)); grouped = rnd.random() < .6
            events = [([rnd.choice([1, -1, 0, -2]) for _ in range(nf)], rnd.choice(groups)) for _ in range(rnd.randint(0, 8))]
            cls = rnd.choice([ExonCounter, IntronCounter]); off1 = rnd.choice([0, 0, 7]); off2 = rnd.choice([1000, 123456, 3])
            infos, rows1 = run(events, feats, groups, off1, grouped, cls); _, rows2 = run(events, feats, groups, off2, grouped, cls)
            names = sorted(set(x.to_str() for x in infos) | set(r[0] for r in rows1 + rows2)); ni = {s: k + 1 for k, s in enumerate(names)}
            used = sorted(set(g for _, g in events)) if grouped else ["NA"]; allg = sorted(set(used) | set(r[1] for r in rows1 + rows2)); gi = {g: k + 1 for k, g in enumerate(allg)}
            evs = []
            for prof, grp in events:
                for k, v in enumerate(prof):
                    if v in (1, -1): evs.append("(mkfe %d %d %d %s)" % (infos[k].id, ni[infos[k].to_str()], gi[grp if grouped else "NA"], cbool(v == 1)))
            def crows(rows): return clist(rows, lambda r: "(%d, %d, %d, %d)" % (ni[r[0]], gi[r[1]], r[2], r[3]))
            # the counter registers a group when a read of it arrives (also when its profile is all zero), in the ungrouped case only NA
            sg = [gi[g] for g in used]
            cases.append(("(%s, %s, %s, %s)" % (czs(sg), clist(evs), crows(rows1), crows(rows2)),
                          {"features": feats, "events (profile, group)": events, "counter offsets": [off1, off2], "grouped": grouped, "rows": rows1, "rows (second offset)": rows2}))
    finally:
        FeatureInfo.feature_id_counter.value = 0; shutil.rmtree(work, ignore_errors=True)
    pre = PRE + "Definition check := check_feat.\nDefinition prop := prop_feat.\n"
    mism, viol = ctx.corr("feature_counter_ids", pre, cases, shard=100, nontrivial=lambda o: len(o["rows"]) > 1, ctype="featcase")
    ctx.corr_report("feature_counter_ids", mism, viol, keyfn=lambda o: None, what="exon / intron count rows depend on the value of the class-level FeatureInfo counter")
    ctx.rule("ProfileFeatureCounter (real ExonCounter / IntronCounter, grouped and ungrouped) on generated feature maps (1-6 features, sometimes two with the same printed text) and 0-8 "
             "reads with profiles over {1,-1,0,-2} in 1-3 groups, run twice with FeatureInfo.feature_id_counter started at different values; rows compared with the model fdump and "
             "between the two runs; non-trivial = more than one row. %d cases" % n)


# ====================================================================================================== whole runs: the sweep
def make_world(seed, root):
    """five chromosomes with names that sort differently in lexicographic / natural / length order, read groups, multi-mappers, and three genes sharing every exon of one locus"""
    import gen_data
    w = gen_data.World(seed, n_chr=5, genes_per_chr=(2, 4))
    big = [g for g in w.genes if len(g["pool"]) >= 4]
    for k, g in enumerate(big[:3]):
        for j, gid in enumerate(("zeta_gene_%d" % k, "Alpha.gene-%d" % k)):
            n = len(g["pool"]); keep = [0] + [i for i in range(1, n - 1) if (i + j) % 2 == 0] + [n - 1]
            w.genes.append(dict(id=gid, chr=g["chr"], strand=g["strand"], pool=g["pool"], isoforms={gid + ".T0": keep, gid + ".T1": list(range(n))}, start=g["start"], end=g["end"]))
    # a twin chromosome: a copy of chrA's sequence with ONE annotated gene at exactly the coordinates (and strand) of a multi-exon chrA gene, whose splice-site dinucleotides are
    # replaced by non-canonical ones: the same (intron, strand) is canonical on chrA and not on the twin (a per-process cache keyed without the chromosome answers wrongly)
    src_g = next(g for g in w.genes if g["chr"] == "chrA" and len(g["pool"]) >= 3 and g["id"].startswith("chrA_"))
    seq = list(w.chroms["chrA"])
    for a, b in zip(src_g["pool"][:-1], src_g["pool"][1:]):
        l, r = a[1] + 1, b[0] - 1; seq[l - 1:l + 1] = "AA"; seq[r - 2:r] = "TT"
    w.chroms["chrT"] = "".join(seq)
    w.genes.append(dict(id="twin_G", chr="chrT", strand=src_g["strand"], pool=src_g["pool"], isoforms={"twin_G.T0": list(range(len(src_g["pool"])))}, start=src_g["start"], end=src_g["end"]))
    w.reads_from_annotation(per_isoform=4); w.novel_reads()
    for i, r in enumerate(w.reads): r["tags"].update(CB="cell%d" % (i % 7), UB="umi%d" % i, NM=i % 5, XG="g%d" % (i % 3), XQ=i % 11)      # for --bam_tags
    gs = [g for g in w.genes if len(g["pool"]) > 1]; ga = [g for g in gs if g["chr"] == "chrA"]; gb = [g for g in gs if g["chr"] == "chrB"]
    if ga and gb:
        for i in range(3):
            for g in (ga[0], gb[0]):
                tid = list(g["isoforms"])[0]; w.add_read("mm_%d" % i, g["chr"], [g["pool"][j] for j in g["isoforms"][tid]], g["strand"], flag=256 if g is gb[0] else 0, tags={"RG": "mid"})
    ren = {"chrA": "chr10", "chrB": "chr2", "chrC": "chrX", "chrD": "chr1", "chrE": "chrM_2", "chrT": "chr7"}
    w.chroms = {ren[c]: s for c, s in w.chroms.items()}
    for g in w.genes: g["chr"] = ren[g["chr"]]
    for r in w.reads: r["chr"] = ren[r["chr"]]
    d = os.path.join(root, "w"); reads = w.reads; w.reads = []; w.write(d, n_bams=0); bam = os.path.join(d, "reads.bam"); write_bam(w, reads, bam, unmapped=3)
    index_fasta(os.path.join(d, "genome.fa"))
    with open(os.path.join(d, "groups.tsv"), "w") as f:
        for r in reads:
            if r["tags"].get("RG"): f.write("%s\t%s\n" % (r["name"], r["tags"]["RG"]))
    return d, bam


# options that exercise the code of a file in which the static scan found an unreviewed site (the default sweep already runs with --read_group, --count_exons, --sqanti_output,
# --check_canonical, --counts_format both, --bam_tags); each entry replaces / adds options of the generated-data command line
FILE_OPTIONS = {
    "src/read_groups.py": [["--read_group", "read_id:_"], ["--read_group", "file:<table>:0:1"], ["--read_group", "file_name"]],
    "src/long_read_counter.py": [["--counts_format", "linear", "--transcript_quantification", "all", "--gene_quantification", "all"], ["--normalization_method", "usable_reads", "--read_group", "read_id:_"]],
    "src/assignment_io.py": [["--no_gzip"], ["--read_group", "file:<table>:0:1"]],
    "src/graph_based_model_construction.py": [["--model_construction_strategy", "sensitive_ont", "--report_novel_unspliced", "true"], ["--report_canonical", "all", "--polya_requirement", "never"]],
    "src/intron_graph.py": [["--model_construction_strategy", "sensitive_ont", "--report_novel_unspliced", "true"]],
    "src/long_read_assigner.py": [["--matching_strategy", "precise"], ["--matching_strategy", "loose"]],
    "isoquant.py": [["--polya_requirement", "never", "--matching_strategy", "precise"], ["--model_construction_strategy", "sensitive_ont"]],
}
DEFAULT_EXTRA = [["--model_construction_strategy", "sensitive_ont", "--report_novel_unspliced", "true"], ["--read_group", "read_id:_"]]


def with_options(args, extra):
    """args with the options of `extra` replaced (options that take values are given as option, value, ...)"""
    out = list(args); i = 0
    while i < len(extra):
        opt = extra[i]; vals = []
        i += 1
        while i < len(extra) and not extra[i].startswith("--"): vals.append(extra[i]); i += 1
        if opt in out:
            k = out.index(opt); e = k + 1
            while e < len(out) and not out[e].startswith("--"): e += 1
            out[k:e] = [opt] + vals
        else: out += [opt] + vals
    return out


def gene_list_only(A, B, diffs):
    """True when the two snapshots differ only in the order of the gene list (6th column) of exon / intron count rows"""
    for f, _ in diffs:
        if f not in A or f not in B or not re.search(r"\.(exon|intron)(_grouped)?_counts\.tsv$", f): return False
        la, lb = A[f].splitlines(), B[f].splitlines()
        if len(la) != len(lb): return False
        for x, y in zip(la, lb):
            if x == y: continue
            vx, vy = x.split("\t"), y.split("\t")
            if len(vx) != len(vy) or len(vx) < 6 or vx[:5] != vy[:5] or vx[6:] != vy[6:] or sorted(vx[5].split(",")) != sorted(vy[5].split(",")): return False
    return True


def sweep(ctx, quick):
    import pipeline as P
    root = P.scratch("iqv_c06p_")
    try:
        wd, wbam = make_world(23 if quick else 23 + 100 * ctx.seed, root)
        bd = os.path.join(root, "b"); b = P.bundled(bd); b["fasta"] = plain_fasta(b["fasta"])
        data = {"generated": ["--bam", wbam, "--reference", os.path.join(wd, "genome.fa"), "--genedb", os.path.join(wd, "annotation.gtf"), "--read_group", "tag:RG", "--bam_tags", "RG,CB,UB,NM,XG,XQ"],
                "bundled": ["--bam", b["bam"], "--reference", b["fasta"], "--genedb", b["gtf"], "--read_group", "file:%s:0:1" % b["groups"], "--bam_tags", "NM,AS,tp,ms,nn,s1"]}
        common = ["--complete_genedb", "--data_type", "nanopore", "-p", "OUT", "--count_exons", "--sqanti_output", "--check_canonical", "--counts_format", "both"]
        intense = any(getattr(ctx, "new_sites", {}).get(k) for k in ("order", "state"))
        if intense:
            # an unreviewed order / state site: search harder for a concrete failing configuration (8 hash seeds, thread counts 1, 2, 3, 5, 16)
            configs = [(1, 0, 0, 0), (1, 0, 0, 0)] + [(t, s, (ti + s) % 2, (s // 2 + ti) % 2) for ti, t in enumerate((1, 2, 3, 5, 16)) for s in range(8)]
            ctx.notes.append("sweep intensified because of unreviewed sites: 5 thread counts x 8 hash seeds per data set")
        elif quick:
            configs = [(1, 0, 0, 0), (1, 0, 0, 0)] + [(t, s, (ti + s) % 2, (s // 2 + ti) % 2) for ti, t in enumerate((1, 2, 5, 16)) for s in (0, 1, 2, 3)]
        else:
            configs = [(1, 0, 0, 0)] + [(t, s, hm, kt) for t in (1, 2, 5, 16) for s in (0, 1, 2, 3) for hm in (0, 1) for kt in (0, 1)] + [(3, 7, 0, 0), (16, 8, 1, 1)]
        jobs = []
        if intense:
            # option sets that exercise the files in which the unreviewed sites are (generated data; threads 1 / 3 / 16, three hash seeds, both memory modes)
            flagged = sorted(set(e["file"] for k in ("order", "state") for e in ctx.new_sites.get(k, [])))
            extras = []
            for f in flagged:
                for x in FILE_OPTIONS.get(f, DEFAULT_EXTRA):
                    if x not in extras: extras.append(x)
            for vi, x in enumerate(extras):
                x = [a.replace("<table>", os.path.join(wd, "groups.tsv")) for a in x]
                for k, (t, hs, hm, kt) in enumerate(((1, 0, 0, 0), (1, 1, 1, 0), (3, 0, 0, 0), (16, 2, 1, 0), (2, 3, 0, 1))):
                    jobs.append(dict(data="generated", variant="options %d" % vi, threads=t, hashseed=str(hs), hm=hm, kt=kt, out=os.path.join(root, "variant%d_%d" % (vi, k)),
                                     args=with_options(data["generated"] + common, x) + ["--threads", str(t)] + (["--high_memory"] if hm else []) + (["--keep_tmp"] if kt else [])))
            ctx.notes.append("sweep intensified: %d extra option sets for the files with unreviewed sites (%s)" % (len(extras), ", ".join(flagged)))
        for dn, dargs in data.items():
            for k, (t, hs, hm, kt) in enumerate(configs):
                jobs.append(dict(data=dn, threads=t, hashseed=str(hs), hm=hm, kt=kt, out=os.path.join(root, "%s_%d" % (dn, k)),
                                 args=dargs + common + ["--threads", str(t)] + (["--high_memory"] if hm else []) + (["--keep_tmp"] if kt else [])))
        # corpus: an experiment name that occurs again in a file suffix
        jobs.append(dict(data="bundled", corpus="name-in-suffix", threads=1, hashseed="0", hm=0, kt=0, out=os.path.join(root, "bundled_S"),
                         args=[a if a != "OUT" else "S" for a in data["bundled"] + common] + ["--threads", "1"]))
        # the frame condition on the real code: a process that has "already worked" (foreign isoform ids in the class-level set, counters advanced) writes the same files
        foreign = dict(detected=["ENST_FOREIGN.%d" % i for i in range(50)], assignment_counter=987654, feature_counter=43210, duplicate_counter=9)
        for k, (t, hs) in enumerate(((1, 0), (5, 1))):
            jobs.append(dict(data="generated", threads=t, hashseed=str(hs), hm=0, kt=0, out=os.path.join(root, "generated_seeded%d" % k), wrapper=SEED_WRAPPER, env={"C10_SEED": json.dumps(foreign)},
                             seeded="class-level state pre-seeded through props/c10_seed.py: 50 foreign isoform ids, counters at 987654 / 43210 / 9",
                             args=data["generated"] + common + ["--threads", str(t)]))
        def run(j):
            rc, log = P.run_isoquant(j["out"], j["args"], hashseed=j["hashseed"], wrapper=j.get("wrapper"), env_extra=j.get("env")); j["rc"] = rc; j["log"] = log; return j
        heavy = [j for j in jobs if j["threads"] >= 5]; light = [j for j in jobs if j["threads"] < 5]
        with ThreadPoolExecutor(5) as ex: list(ex.map(run, light))
        with ThreadPoolExecutor(3) as ex: list(ex.map(run, heavy))
        ctx.cov["pipeline_runs"] += len(jobs)
        def rep(j, **kw):
            r = {"data": j["data"], "--threads": j["threads"], "PYTHONHASHSEED": j["hashseed"], "--high_memory": bool(j["hm"]), "--keep_tmp": bool(j["kt"]),
                 "arguments": [a.replace(root, "<scratch>") for a in j["args"]]}
            if j.get("seeded"): r["seeded"] = j["seeded"]
            if intense: r["unreviewed sites found by the static scan"] = [e["site"] for k in ("order", "state") for e in ctx.new_sites.get(k, [])]
            r.update(kw); return r
        n_cmp = 0; n_multi = 0
        for dn, variant in [(dn, None) for dn in data] + [("generated", v) for v in dict.fromkeys(j["variant"] for j in jobs if j.get("variant"))]:
            js = [j for j in jobs if j["data"] == dn and not j.get("corpus") and j.get("variant") == variant]
            for j in js:
                if j["rc"] != 0: ctx.violation(None, "IsoQuant run failed (exit %d)" % j["rc"], rep(j, log=j["log"][-1500:]))
            js = [j for j in js if j["rc"] == 0]
            if not js: continue
            base = js[0]; A = snap(os.path.join(base["out"], "OUT"))
            n_multi += sum(1 for l in A.get("OUT.exon_counts.tsv", "").splitlines() if "," in (l.split("\t") + [""] * 6)[5])
            for j in js[1:]:
                B = snap(os.path.join(j["out"], "OUT")); n_cmp += len(A); diffs = diff_files(A, B)
                if not diffs: continue
                if gene_list_only(A, B, diffs):
                    ctx.violation("C06:gene-list-order", "the gene list of a multi-gene exon / intron row is printed in set enumeration order, which changes with PYTHONHASHSEED",
                                  rep(j, baseline=rep(base), differing_files=diffs[:6]))
                else:
                    ctx.violation(None, "final files differ between two runs on the same input and algorithm options", rep(j, baseline=rep(base), differing_files=diffs[:8]))
        ctx.count(evaluations=n_cmp, nontrivial=n_cmp)
        if n_multi == 0: ctx.broken("generator:multi-gene-rows", "no exon row with several genes in the generated data: the gene-list consumer is not exercised")
        for j in jobs:
            if j.get("corpus") == "name-in-suffix" and j["rc"] != 0:
                if "FileNotFoundError" in j["log"] and "merge_files" in j["log"] and "S_chr9QANTI" in j["log"]:
                    ctx.violation("C06:experiment-name-in-file-suffix", "experiment name S with --sqanti_output: merge_files looks for S.novel_vs_known.S_chr9QANTI-like.tsv, the run exits %d" % j["rc"],
                                  rep(j, log=j["log"][-600:]))
                else:
                    ctx.violation(None, "IsoQuant run with experiment name S failed (exit %d)" % j["rc"], rep(j, log=j["log"][-1500:]))
        ctx.rule("sweep: the bundled chr9 data and a generated data set (6 chromosomes named chr10 / chr2 / chrX / chr1 / chrM_2 / chr7, RG read groups, reads aligned to two chromosomes, 3 unaligned "
                 "records, three loci where three genes share every exon, a twin chromosome chr7 = copy of chr10 with one gene at identical coordinates and strand but non-canonical splice "
                 "sites, six BAM tags per read) with --read_group, --count_exons, --sqanti_output, --check_canonical, --counts_format both, --bam_tags with six tags; configurations "
                 "(threads, PYTHONHASHSEED, --high_memory, --keep_tmp) = %s, the first one twice (repetition); every file of <out>/OUT/ compared byte for byte (after decompression, "
                 "without the '# Command line:' line) with the first run; two more runs of the generated data start with pre-seeded class-level state (props/c10_seed.py: foreign isoform ids in detected_known_isoforms, the assignment / feature id counters advanced) and must give the same files; %d runs, %d file comparisons, %d multi-gene exon rows in the baselines"
                 % ("the baseline twice + all 16 (threads, seed) pairs over {1,2,5,16} x {0,1,2,3} with --high_memory / --keep_tmp alternating" if quick else "the full 4 x 4 x 2 x 2 grid + 2", len(jobs), n_cmp, n_multi))
    finally:
        shutil.rmtree(root, ignore_errors=True)


def run(ctx):
    quick = ctx.tier == "quick"
    ctx.prepare("C06.v")
    for section in (scan_section, merge_unit, part_names, feature_counter, sweep):
        # one failing adapter must not keep the other sections (in particular the sweep) from looking for a concrete failing configuration
        try: section(ctx, quick)
        except Exception: ctx.broken("harness:%s" % section.__name__, "exception in section %s:\n%s" % (section.__name__, traceback.format_exc()[-3000:]))
    ctx.assume.append("PARTIAL: that no set other than the read-group set (C09, repaired) and the gene set of a feature row is enumerated on an output path rests on a scan of every set / dict "
                      "iteration in src/ and on the hash-seed sweep, not on a theorem; likewise that the carried state of a worker process is exactly detected_known_isoforms, the two id "
                      "counters and the duplicate counter (log only) rests on the scan of class attributes / module globals and on the runs with pre-seeded state in C10")
    ctx.assume.append("static scan: the set-likeness inference of tools/scan_state.py is syntactic with simple local / by-name inter-procedural inference (it can miss a set that reaches a "
                      "loop through an untyped parameter or a library call), and the verdict of every site in c06_sites.json is a reviewed judgement made by reading the site, not a theorem; "
                      "what is checked on every run is that no order / state site of the current source is unreviewed")
    ctx.assume.append("the schedule theorem is about the model `run schedule = collect (workers)`: ProcessPoolExecutor.map(chunksize=1) returns results in submission order and a worker runs "
                      "its tasks one after the other (concurrent.futures semantics are trusted); worker processes are forked from the main process")
    ctx.assume.append("aux/ (kept by --keep_tmp; its save files contain the schedule-dependent assignment ids) and isoquant.log are not final files; .gz files are compared after decompression; "
                      "ASCII chromosome names (str.isdigit / int of non-ASCII digits is outside the natural-sort model)")
    ctx.assume.append("isoform ids belong to one chromosome (primary key of the gffutils database)")
