"""Shared by the C02 and C09 checks: fake read assignments for the REAL counter classes of src/long_read_counter.py, running
them per chromosome into temp files, merging with the real merge_counts, TPM conversion, parsing, Coq printers."""
import os, sys, tempfile, shutil, types, itertools, re
from fractions import Fraction
from lib import *

ATYPES = {"unique": "Unique", "unique_minor_difference": "UniqueMinor", "ambiguous": "Ambiguous", "inconsistent": "Inconsistent",
          "inconsistent_non_intronic": "InconsNonIntronic", "inconsistent_ambiguous": "InconsAmbiguous", "noninformative": "Noninformative",
          "intergenic": "Intergenic", "suspended": "Suspended"}
STRATS = {"unique_only": "UniqueOnly", "with_ambiguous": "WithAmbiguous", "unique_splicing_consistent": "UniqueSplicingConsistent",
          "unique_inconsistent": "UniqueInconsistent", "all": "AllReads"}
UNIQUE = ("unique", "unique_minor_difference")
INCONS = ("inconsistent", "inconsistent_non_intronic", "inconsistent_ambiguous")
UNASSIGNED = ("noninformative", "intergenic")
LABEL = "SMP"
import logging
logging.getLogger("IsoQuant").setLevel(logging.CRITICAL)

PRE = """From Coq Require Import QArith.
From IQ Require Import Counting CountingCounter CountingCheck.
Open Scope Z_scope.
"""

def section(ctx, name, f, *a):
    """one section of a check: an exception of the harness itself is recorded (the check then fails as 'no longer checks') and the other sections still run"""
    import traceback
    try:
        return f(*a)
    except Exception:
        ctx.broken("harness:%s" % name, "exception in section %s of the check (the other sections were still run):\n%s" % (name, traceback.format_exc()[-3000:]))

def impl_error(e):
    import traceback
    return "%s: %s | %s" % (type(e).__name__, e, " <- ".join(l.strip().replace("\n", " ") for l in traceback.format_tb(e.__traceback__)[-3:]))[:1500]

# ---------------------------------------------------------------------------------------------- Coq printers
def cq(fr):
    fr = Fraction(fr)
    return "(Qmake %s %d)" % (cz(fr.numerator), fr.denominator)

def exact(v):
    """the rational a float stands for: sums of 1/k (k <= 12) over < 10^4 reads are recovered exactly; anything else is passed on as the float's own value"""
    fr = Fraction(v).limit_denominator(30000)
    return fr if abs(float(fr) - v) < 1e-9 else Fraction(v)

class Interner:
    """order-preserving codes: sorted(names) <-> sorted codes"""
    def __init__(self, names):
        self.names = sorted(set(names)); self.code = {n: i + 1 for i, n in enumerate(self.names)}
    def __call__(self, n): return self.code[n]

def cevent(ev, fi, gi):
    k = ev["k"]
    if k == "none": return "ENone"
    if k == "read":
        ms = clist(ev["matches"], lambda m: "(mkm %s %s)" % (copt(None if m[0] is None else fi(m[0]), cz), copt(None if m[1] is None else fi(m[1]), cz)))
        return "(ERead (mkra %s %s %s %s %s %s))" % (ATYPES[ev["type"]], ATYPES[ev["gtype"]], ms, cz(gi(ev["group"])), cbool(ev["mono"]), cz(ev["nexons"]))
    if k == "raw": return "(ERaw %s %s %s)" % (cbool(ev["has_id"]), czs([fi(f) for f in ev["feats"]]), cz(gi(ev["group"])))
    if k == "unassigned": return "(EUnassigned %s)" % cz(ev["n"])
    if k == "unaligned": return "(EUnaligned %s)" % cz(ev["n"])
    if k == "confirm": return "(EConfirm %s)" % czs([fi(f) for f in ev["feats"]])
    raise ValueError(k)

def crows(rows, fi): return clist(rows, lambda r: "(%s, %s)" % (cz(fi(r[0])), clist(r[1], cq)))
def clinear(rows, fi, gi): return clist(rows, lambda r: "(%s, %s, %s)" % (cz(fi(r[0])), cz(gi(r[1])), cq(r[2])))
def cistate(st, fi):
    fc, allf, conf, stats = st
    return "(%s, %s, %s, %s)" % (clist(fc, lambda p: "(%s, %s)" % (cz(fi(p[0])), clist(p[1], lambda e: "(%s, %s)" % (cz(e[0]), cq(e[1]))))),
                                 czs([fi(f) for f in allf]), czs([fi(f) for f in conf]), czs(stats))

def ccase(case, fi, gi):
    chrs = clist(case["chrs"], lambda c: "(%s, %s, %s)" % (czs([gi(g) for g in c["groups"]]), czs([fi(f) for f in c["complete"]]), clist(c["events"], lambda e: cevent(e, fi, gi))))
    return "(mkcase %s %s %s %s (%s,%s) %s %s %s)" % (STRATS[case["strategy"]], "GeneLevel" if case["level"] == "gene" else "TranscriptLevel", cz(gi("NA")),
                                                      cbool(case["zeroes"]), cbool(case["fmt"] in ("matrix", "both")), cbool(case["fmt"] in ("linear", "both")),
                                                      cbool(case["norm"] == "usable_reads"), cz(case["unaligned"]), chrs)

def interners(case, extra_groups=()):
    feats = set(); groups = {"NA"} | set(extra_groups)
    for c in case["chrs"]:
        feats.update(c["complete"]); groups.update(c["groups"])
        for e in c["events"]:
            if e["k"] == "read":
                for m in e["matches"]: feats.update(x for x in m if x is not None)
                groups.add(e["group"])
            elif e["k"] == "raw": feats.update(e["feats"]); groups.add(e["group"])
            elif e["k"] == "confirm": feats.update(e["feats"])
    return Interner(feats), Interner(groups)

# ---------------------------------------------------------------------------------------------- fake inputs for the real classes
class FakeMatch:
    def __init__(self, tr, gene): self.assigned_transcript = tr; self.assigned_gene = gene

def fake_assignment(ev, n=[0]):
    from src.isoform_assignment import ReadAssignmentType as T
    n[0] += 1
    ra = types.SimpleNamespace()
    ra.read_id = "read%d" % n[0]
    ra.assignment_type = T[ev["type"]]; ra.gene_assignment_type = T[ev["gtype"]]
    ra.isoform_matches = [FakeMatch(t, g) for t, g in ev["matches"]]
    ra.read_group = ev["group"]
    ra.corrected_exons = [(100 * i + 1, 100 * i + 50) for i in range(ev["nexons"])]
    first = ev["matches"][0][0] if ev["matches"] else None
    ra.gene_info = types.SimpleNamespace(all_isoforms_introns={first: [] if ev["mono"] else [(51, 100)]})
    return ra

def apply_event(counter, ev):
    k = ev["k"]
    if k == "none": counter.add_read_info(None)
    elif k == "read": counter.add_read_info(fake_assignment(ev))
    elif k == "raw": counter.add_read_info_raw("r" if ev["has_id"] else "", list(ev["feats"]), ev["group"])
    elif k == "unassigned": counter.add_unassigned(ev["n"])
    elif k == "unaligned": counter.add_unaligned(ev["n"])
    elif k == "confirm": counter.add_confirmed_features(list(ev["feats"]))

def istate(counter):
    fc = [(f, [(gid, exact(v)) for gid, v in counter.feature_counter[f].data.items()]) for f in sorted(counter.feature_counter)]
    return (fc, sorted(counter.all_features), sorted(counter.confirmed_features),
            [counter.ambiguous_reads, counter.not_assigned_reads, counter.not_aligned_reads, counter.reads_for_tpm])

def parse_table(path):
    """(header fields, rows [(feature, [Fraction...])], underscore lines [(name, int)])"""
    hdr = None; rows = []; under = []
    if not os.path.exists(path): return None, rows, under
    for l in open(path):
        v = l.rstrip("\n").split("\t")
        if l.startswith("#"): hdr = v[1:]; continue
        if l.startswith("__"): under.append((v[0], v[1])); continue
        rows.append((v[0], [Fraction(x) for x in v[1:]]))
    return hdr, rows, under

def parse_linear(path):
    out = []
    if not os.path.exists(path): return out
    for l in open(path):
        if l.startswith("#"): continue
        v = l.rstrip("\n").split("\t"); out.append((v[0], v[1], Fraction(v[2])))
    return out

def run_real(case, grouped, workdir):
    """feed the events of every chromosome to real per-chromosome counters (ungrouped, and grouped when asked, behind one CompositeCounter as
       ReadAssignmentAggregator does), dump, merge with the real merge_counts into the main counters, convert to TPM; returns parsed outputs"""
    from src.long_read_counter import create_gene_counter, create_transcript_counter, CompositeCounter, GroupedOutputFormat
    from src.file_utils import merge_counts
    create = create_gene_counter if case["level"] == "gene" else create_transcript_counter
    kind = case["level"]; fmt = GroupedOutputFormat[case["fmt"]]
    pref = lambda label, suffix: os.path.join(workdir, "%s.%s%s" % (label, kind, suffix))
    all_groups = [g for c in case["chrs"] for g in c["groups"]]
    all_groups = list(dict.fromkeys(all_groups))
    main_u = create(pref(LABEL, ""), case["strategy"], output_zeroes=case["zeroes"])
    main_g = create(pref(LABEL, "_grouped"), case["strategy"], read_groups=all_groups, output_zeroes=case["zeroes"], grouped_format=fmt) if grouped else None
    ustates = []; gstates = []; chr_ids = []
    for c in case["chrs"]:
        lab = "%s_%s" % (LABEL, c["chr"]); chr_ids.append(c["chr"])
        cu = create(pref(lab, ""), case["strategy"], complete_feature_list=list(c["complete"]), output_zeroes=case["zeroes"])
        counters = [cu]
        if grouped:
            cg = create(pref(lab, "_grouped"), case["strategy"], complete_feature_list=list(c["complete"]), read_groups=list(c["groups"]),
                        output_zeroes=case["zeroes"], grouped_format=fmt)
            counters.append(cg)
        comp = CompositeCounter([]); comp.add_counters(counters)
        for ev in c["events"]: apply_event(comp, ev)
        ustates.append(istate(cu))
        if grouped: gstates.append(istate(cg))
        comp.dump()
    order = list(chr_ids);
    merge_counts(main_u, LABEL, order, case["unaligned"]); main_u.convert_counts_to_tpm(case["norm"])
    res = dict(ustates=ustates)
    _, res["urows"], under = parse_table(main_u.output_counts_file_name)
    res["ustats"] = under
    _, tpm, tunder = parse_table(main_u.output_tpm_file_name)
    res["utpm"] = tpm; res["uunassigned"] = [Fraction(v) for n, v in tunder if n == "__unassigned"]
    res["leftover"] = sorted(f for f in os.listdir(workdir) if ("%s_" % LABEL) in f and "_grouped" not in f)
    if grouped:
        merge_counts(main_g, LABEL, order, case["unaligned"]); main_g.convert_counts_to_tpm(case["norm"])
        res["gstates"] = gstates
        res["ghdr"], res["grows"], gunder = parse_table(main_g.output_counts_file_name)
        res["gunder"] = gunder
        res["glinear"] = parse_linear(main_g.linear_output_file)
        _, res["gtpm"], _ = parse_table(main_g.output_tpm_file_name)
    return res

# ---------------------------------------------------------------------------------------------- generators
CHR_NAMES = ["chr1", "chr2", "chr10", "chrX", "chrM", "scaffold_7"]

def universe_for(chr_id, rnd):
    """genes with 1-3 transcripts each; names sort in a non-trivial way"""
    genes = {}
    for g in range(rnd.randint(1, 3)):
        gid = "%s.G%d" % (chr_id, g)
        genes[gid] = ["%s.T%d" % (gid, t) for t in range(rnd.randint(1, 3))]
    return genes

def gen_read(rnd, genes, groups, shape=None):
    """a well-formed record: unique types carry one feature at their level, counted inconsistent ones at least one"""
    t = shape["type"] if shape else rnd.choice(list(ATYPES))
    pairs = [(tr, g) for g, trs in genes.items() for tr in trs]
    k = shape["k"] if shape else rnd.choice([0, 1, 1, 2, 2, 3, 4])
    if t in UNIQUE: k = 1
    ms = []
    if k > 0:
        ms = rnd.sample(pairs, min(k, len(pairs)))
        if rnd.random() < .15: ms.append(rnd.choice(ms))                        # a duplicated match
    if ms and rnd.random() < .05 and t not in UNIQUE: ms[0] = (None, ms[0][1])  # first assigned_transcript None: skipped with a warning
    elif len(ms) > 1 and rnd.random() < .08: j = rnd.randrange(1, len(ms)); ms[j] = (None, ms[j][1])
    if len(ms) > 1 and rnd.random() < .08: j = rnd.randrange(1, len(ms)); ms[j] = (ms[j][0], None)
    ngenes = len(set(g for _, g in ms if g is not None))
    if shape and "gtype" in shape: gt = shape["gtype"]
    elif ngenes == 1: gt = rnd.choice(["unique", "unique", "unique_minor_difference", "inconsistent", "inconsistent_non_intronic", "ambiguous", "inconsistent_ambiguous", "noninformative"])
    elif ngenes == 0: gt = rnd.choice(["ambiguous", "noninformative", "intergenic", "inconsistent"])
    else: gt = rnd.choice(["ambiguous", "ambiguous", "inconsistent", "inconsistent_ambiguous", "inconsistent_non_intronic", "suspended"])
    return dict(k="read", type=t, gtype=gt, matches=ms, group=rnd.choice(groups), mono=rnd.random() < .3, nexons=rnd.choice([1, 1, 2, 5]))

def gen_events(rnd, genes, groups, flavour, n):
    trs = [t for ts in genes.values() for t in ts]
    evs = []
    for _ in range(n):
        x = rnd.random()
        if flavour == "assign":
            if x < .06: evs.append(dict(k="none"))
            else: evs.append(gen_read(rnd, genes, groups))
        elif flavour == "model":
            if x < .55:
                k = rnd.choice([1, 1, 1, 2, 2, 3, 4]); evs.append(dict(k="raw", has_id=True, feats=rnd.sample(trs, min(k, len(trs))), group=rnd.choice(groups)))
            elif x < .6: evs.append(dict(k="raw", has_id=True, feats=[], group=rnd.choice(groups)))
            elif x < .65: evs.append(dict(k="raw", has_id=False, feats=rnd.sample(trs, 1), group=rnd.choice(groups)))
            elif x < .8: evs.append(dict(k="unassigned", n=rnd.randint(0, 4)))
            elif x < .85: evs.append(dict(k="unaligned", n=rnd.randint(0, 3)))
            else: evs.append(dict(k="confirm", feats=rnd.sample(trs, rnd.randint(0, len(trs)))))
        else:
            evs += gen_events(rnd, genes, groups, rnd.choice(["assign", "model"]), 1)
    return evs

def gen_case(rnd, strategy, level, grouped, nchr=None, flavour=None, group_pool=None):
    nchr = nchr or rnd.choice([1, 1, 2, 3])
    pool = group_pool or rnd.choice([["NA", "a", "b"], ["G1", "G2"], ["zeta", "alpha", "NA", "mid", "Beta"], ["x"], ["10", "9", "NA", "100"]])
    flavour = flavour or rnd.choice(["assign", "assign", "model", "mixed"])
    chrs = []
    for cid in rnd.sample(CHR_NAMES, nchr):
        genes = universe_for(cid, rnd)
        # a chromosome's group collection: the universe of the whole run (as load_read_info delivers it), in some enumeration order
        perm = list(pool); rnd.shuffle(perm)
        feats_level = list(genes) if level == "gene" else [t for ts in genes.values() for t in ts]
        complete = feats_level if rnd.random() < .6 else rnd.sample(feats_level, rnd.randint(0, len(feats_level)))
        if flavour == "model": complete = []
        evs = gen_events(rnd, genes, pool, flavour, rnd.choice([0, 1, 3, 6, 12, 25]))
        chrs.append(dict(chr=cid, groups=perm if grouped else [], complete=complete, events=evs))
    return dict(strategy=strategy, level=level, zeroes=(flavour != "model") if rnd.random() < .8 else rnd.random() < .5, fmt=rnd.choice(["matrix", "linear", "both", "both"]),
                norm=rnd.choice(["simple", "usable_reads"]), unaligned=rnd.choice([0, 0, 7]), chrs=chrs, flavour=flavour)

def sweep_cases(level):
    """deterministic: every strategy x type x feature count, next to a confirming unique read of the first feature"""
    out = []
    genes = {"c.G%d" % g: ["c.G%d.T0" % g] for g in range(4)}
    pairs = [(trs[0], g) for g, trs in genes.items()]
    for s in STRATS:
        for t in ATYPES:
            for k in (1, 2, 3, 4):
                if t in UNIQUE and k > 1: continue
                ms = pairs[:k]
                conf = dict(k="read", type="unique", gtype="unique", matches=[pairs[0]], group="NA", mono=True, nexons=1)
                if level == "gene": ev = dict(k="read", type="ambiguous" if k > 1 else "unique", gtype=t, matches=ms, group="NA", mono=False, nexons=2)
                else: ev = dict(k="read", type=t, gtype="ambiguous" if k > 1 else "unique", matches=ms, group="NA", mono=False, nexons=2)
                if level == "gene" and t in UNASSIGNED: pass
                confs = [dict(conf, matches=[p]) for p in pairs[:k]]
                out.append(dict(strategy=s, level=level, zeroes=True, fmt="both", norm="simple", unaligned=0, flavour="sweep",
                                chrs=[dict(chr="chr1", groups=[], complete=[], events=confs + [ev, ev])]))
    return out

# ---------------------------------------------------------------------------------------------- pipeline level
def parse_records(outdir, prefix, ref_tr):
    """records of read_assignments.tsv (consecutive lines with the same read id, chromosome and exon string), joined with the block count of the
       k-th row of that read in corrected_reads.bed"""
    import pipeline as P
    tsv = P.find(outdir, prefix, "read_assignments.tsv"); bed = P.find(outdir, prefix, "corrected_reads.bed")
    blocks = {}
    for r in P.read_bed(bed): blocks.setdefault(r["name"], []).append((r["chr"], r["nblocks"]))
    recs = []; last = None
    for l in P.read_assignments(tsv):
        key = (l["read_id"], l["chr"], tuple(l["exons"]))
        if key != last:
            recs.append(dict(read_id=l["read_id"], chr=l["chr"], type=l["assignment_type"], gtype=l["info"].get("gene_assignment", "").rstrip(";") or None, matches=[], lines=0))
            last = key
        r = recs[-1]; r["lines"] += 1
        if l["isoform_id"] != ".": r["matches"].append((l["isoform_id"], l["gene_id"] if l["gene_id"] != "." else None))
        elif "Classification" in l["info"]: r["matches"].append((None, None))
    seen = {}
    for r in recs:
        k = seen.get(r["read_id"], 0); seen[r["read_id"]] = k + 1
        bl = blocks.get(r["read_id"], [])
        r["nexons"] = bl[k][1] if k < len(bl) else 0
        first = r["matches"][0][0] if r["matches"] else None
        r["mono"] = bool(first is not None and first in ref_tr and len(ref_tr[first]["exons"]) == 1)
        if r["gtype"] is None: r["gtype"] = r["type"]           # unmatched lines carry no gene_assignment; such records are not counted anyway
    return recs

def record_event(r, group="NA"):
    return dict(k="read", type=r["type"], gtype=r["gtype"], matches=list(r["matches"]), group=group, mono=r["mono"], nexons=r["nexons"])

def model_events(outdir, prefix, model_tr, chr_of_read, group_of=None):
    """events the transcript-model counter received, recovered from transcript_model_reads.tsv: per read id (and chromosome of the model) the list of models,
       '*' lines as unassigned reads, every reported model confirmed"""
    import pipeline as P
    r2t = P.find(outdir, prefix, "transcript_model_reads.tsv")
    per = {}; star = 0; order = []
    for l in P.opn(r2t):
        if l.startswith("#"): continue
        rid, tid = l.rstrip("\n").split("\t")
        if tid == "*": star += 1; continue
        key = (rid, model_tr[tid]["chr"] if tid in model_tr else None)
        if key not in per: per[key] = []; order.append(key)
        per[key].append(tid)
    evs = [dict(k="raw", has_id=True, feats=per[k], group=(group_of(k[0]) if group_of else "NA")) for k in order]
    evs.append(dict(k="unassigned", n=star)); evs.append(dict(k="confirm", feats=sorted(model_tr)))
    return evs

def file_case(strategy, level, events, complete, zeroes, norm, unaligned, fmt="both", groups=()):
    return dict(strategy=strategy, level=level, zeroes=zeroes, fmt=fmt, norm=norm, unaligned=unaligned, flavour="pipeline",
                chrs=[dict(chr="all", groups=list(groups), complete=list(complete), events=events)])

def obs_u_files(counts_path, tpm_path, fi):
    _, rows, under = parse_table(counts_path); stats = dict(under)
    _, tpm, tunder = parse_table(tpm_path)
    un = [Fraction(v) for n, v in tunder if n == "__unassigned"]
    return ("(mkuobs [] %s %s %s %s)" % (crows(rows, fi), czs([int(stats.get(n, -1)) for n in ("__ambiguous", "__no_feature", "__not_aligned")]), crows(tpm, fi), cq(un[0] if un else Fraction(999))),
            dict(rows=rows, stats=under, tpm=tpm))

def rewrite_bam(src, dsts, fn):
    """copy the alignments of src into the BAM files dsts (sorted, indexed); fn(alignment, index) -> (destination index or None, alignment)"""
    import pysam
    inp = pysam.AlignmentFile(src, "rb")
    tmp = [d + ".unsorted.bam" for d in dsts]
    outs = [pysam.AlignmentFile(t, "wb", header=inp.header) for t in tmp]
    for i, a in enumerate(inp.fetch(until_eof=True)):
        k, a2 = fn(a, i)
        if k is not None: outs[k].write(a2)
    for o in outs: o.close()
    for t, d in zip(tmp, dsts):
        pysam.sort("-o", d, t); pysam.index(d); os.remove(t)

def world_with_multilocus(seed, n_multi=3, unmapped=0):
    """two-chromosome synthetic data set with reads from every isoform, a few reads aligned (secondary flag) to one gene on each chromosome, optional unmapped reads"""
    import gen_data
    w = gen_data.World(seed, n_chr=2); w.reads_from_annotation()
    gs = [g for g in w.genes if len(g["pool"]) > 1]
    ga = [g for g in gs if g["chr"] == "chrA"]; gb = [g for g in gs if g["chr"] == "chrB"]
    if ga and gb:
        for i in range(n_multi):
            for g in (ga[0], gb[0]):
                tid = list(g["isoforms"])[0]; ex = [g["pool"][j] for j in g["isoforms"][tid]]
                w.add_read("mm_%d" % i, g["chr"], ex, g["strand"], flag=256, tags={"RG": "mid"})
    return w

def add_unmapped(path, n, prefix="unmapped"):
    """append n unmapped records (flag 4, no reference sequence) to a coordinate-sorted BAM file and index it again"""
    import pysam
    tmp = path + ".tmp.bam"
    inp = pysam.AlignmentFile(path, "rb")
    with pysam.AlignmentFile(tmp, "wb", header=inp.header) as out:
        for a in inp.fetch(until_eof=True): out.write(a)
        for i in range(n):
            a = pysam.AlignedSegment(inp.header); a.query_name = "%s_%d" % (prefix, i); a.flag = 4; a.reference_id = -1; a.reference_start = -1
            a.query_sequence = "ACGTTGCA" * 10; a.mapping_quality = 0
            out.write(a)
    inp.close(); os.replace(tmp, path); pysam.index(path)

def count_unmapped(paths):
    """the input's own tally: records of the BAM files of one experiment that carry the unmapped flag (every record is read; the index statistics are not used)"""
    import pysam
    n = 0
    for p in paths:
        with pysam.AlignmentFile(p, "rb") as f:
            n += sum(1 for a in f.fetch(until_eof=True) if a.is_unmapped)
    return n

def write_world(w, out_dir, unmapped=0, n_bams=1):
    """unmapped: a number (appended to the first file) or one number per BAM file"""
    paths = w.write(out_dir, n_bams=n_bams)
    per = list(unmapped) if isinstance(unmapped, (list, tuple)) else [unmapped] + [0] * (n_bams - 1)
    for k, (p, n) in enumerate(zip(paths, per)):
        if n: add_unmapped(p, n, "unmapped_f%d" % k)
    return paths

def obs_g_files(d, kind, prefix="S"):
    hdr, rows, under = parse_table(os.path.join(d, "%s.%s_grouped_counts.tsv" % (prefix, kind)))
    lin = parse_linear(os.path.join(d, "%s.%s_grouped_counts_linear.tsv" % (prefix, kind)))
    _, tpm, _ = parse_table(os.path.join(d, "%s.%s_grouped_tpm.tsv" % (prefix, kind)))
    _, urows, _ = parse_table(os.path.join(d, "%s.%s_counts.tsv" % (prefix, kind)))
    return hdr, rows, lin, tpm, urows, under

def grouped_cases(ctx, j, rep, recs, ref_tr, ref_genes, model_tr, prefix="S"):
    """Coq cases (ccase, gobs) for the grouped gene / transcript / transcript-model tables of one finished run.  j: out, fmt (--counts_format), gq / tq
       (the strategy that applies to the gene table / to the transcript and transcript-model tables), group_of (ground truth read id -> group).
       recs None = a run without --genedb (only the transcript-model tables exist).  Returns (cases, snapshot of the parsed tables)."""
    d = os.path.join(j["out"], prefix); snapshot = {}; cases = []
    tables = []
    if recs is not None:
        evs = [record_event(r, j["group_of"](r["read_id"])) for r in recs]
        tables += [("gene", "gene", j["gq"], evs, list(ref_genes), True, j["fmt"]), ("transcript", "transcript", j["tq"], evs, list(ref_tr), True, j["fmt"])]
    if model_tr is not None:
        tables.append(("transcript_model", "transcript", j["tq"], model_events(j["out"], prefix, model_tr, None, j["group_of"]), [], False, "both"))
    for kind, level, strat, events, complete, zeroes, fmt in tables:
        hdr, rows, lin, tpm, urows, under = obs_g_files(d, kind, prefix)
        snapshot[kind] = (hdr, rows, sorted(lin), tpm)
        if hdr is None and not lin:
            ctx.violation(None, "a run with --read_group wrote no grouped %s table" % kind, rep); continue
        universe = set(hdr or []) | set(e["group"] for e in events if "group" in e) | set(g for _, g, _ in lin)
        case = file_case(strat, level, events, complete, zeroes, "simple", 0, fmt=fmt, groups=sorted(universe))
        fi, gi = interners(case, extra_groups=universe)
        try:
            obs = "(mkgobs [] %s %s %s %s %s)" % (czs([gi(g) for g in (hdr or [])]), crows(rows, fi), clinear(lin, fi, gi), crows(tpm, fi), crows(urows, fi))
            term = "(%s, %s)" % (ccase(case, fi, gi), obs)
        except KeyError as e:
            ctx.violation(None, "grouped %s table lists a feature that is neither annotated nor reported" % kind, dict(rep, feature=str(e))); continue
        if under: ctx.violation(None, "grouped table carries statistics lines", rep)
        cases.append((term, dict(rep, table="%s.%s_grouped_counts*.tsv" % (prefix, kind), strategy=strat, header=hdr, matrix=[(f, [str(x) for x in v]) for f, v in rows][:300],
                                 linear=[(f, g, str(v)) for f, g, v in lin][:600])))
    return cases, snapshot
