"""C18 — strand and canonical-site flags are pure functions of the reference sequence."""
import itertools, os, shutil, types, collections, tempfile, io, traceback
from lib import *
from props._idcanon import *
from props import c17 as C17

PRE = "From IQ Require Import Ids IdsSpec Canon CanonSpec.\nOpen Scope Z_scope.\n"
KEY_WINDOW = "C18:intron-outside-window"


def guarded(ctx, name, f, *a):
    """one section of the check: an exception of the harness breaks that section only, the others still run"""
    try:
        return f(*a)
    except Exception:
        ctx.broken("harness:%s" % name, "exception in section %s:\n%s" % (name, traceback.format_exc()[-3000:]))

class ImplRaised(Exception):
    pass

def real(ctx, what, replay, f, *a, **k):
    """call real code; an exception (or non-termination) on an input of the documented domain is reported as a violation with that input"""
    try:
        return with_timeout(lambda: f(*a, **k), seconds=20.0)
    except ImplTimeout:
        ctx.violation(None, "%s does not terminate within 20 s" % what, replay); raise ImplRaised()
    except Exception as e:
        ctx.violation(None, "%s raises %s" % (what, type(e).__name__), dict(replay, error=str(e)[:300], traceback=traceback.format_exc()[-1200:])); raise ImplRaised()


def window_is_saved():
    """does the code under test keep the reference window of the reads in the gene header of the save files (fixes/C18_serialize_read_region.diff)?
       probed on the real code: a GeneInfo whose window differs from its gene region, through serialize / deserialize"""
    from src.gene_info import GeneInfo
    try:
        g = GeneInfo.__new__(GeneInfo); g.delta = 0; g.gene_db_list = []; g.chr_id = "c"; g.start = 100; g.end = 200; g.all_read_region_start = 50; g.all_read_region_end = 300
        b = io.BytesIO(); g.serialize(b); b.seek(0); g2 = GeneInfo.deserialize(b, None)
        return (g2.all_read_region_start, g2.all_read_region_end) == (50, 300) and b.tell() == len(b.getvalue())
    except Exception:
        return False


def cflag(v):
    return {"Unspliced": "(Some Unspliced)", "True": "(Some (Flag true))", "False": "(Some (Flag false))", None: "None"}[v]
def cquery(q): return "(%s, %s)" % (cstrand(q[0]), cintrons(q[1]))


def corr_sites(ctx):
    from src.common import CANONICAL_FWD_SITES as F, CANONICAL_REV_SITES as R
    pre = PRE + "Definition tc (c:list (str * str) * list (str * str)) := c.\nDefinition check := sites_check.\nDefinition prop := sites_prop.\n"
    cp = lambda s: clist(sorted(s), lambda p: "(%s, %s)" % (cs(p[0]), cs(p[1])))
    m, v = ctx.corr("canonical-site-sets", pre, typed([("(%s, %s)" % (cp(F), cp(R)), {"CANONICAL_FWD_SITES": sorted(F), "CANONICAL_REV_SITES": sorted(R)})]))
    ctx.corr_report("canonical-site-sets", m, v)
    ctx.rule("site sets: CANONICAL_FWD_SITES / CANONICAL_REV_SITES of src/common.py against the model's sets; specification: reverse set = mirror image of the forward set = {GT-AG, GC-AG, AT-AC}")


# ------------------------------------------------------------------ reference texts with three introns
def three_intron_text(rnd, kinds, lower):
    introns = [(11, 22), (31, 44), (53, 60)]
    text = C17.plant_text(rnd, 72, list(zip(introns, kinds)), lower)
    return text, introns

def fake_gene_info(text, ws, we):
    region = text[ws - 1:we] if we >= ws else ""
    return types.SimpleNamespace(canonical_sites={}, all_read_region_start=ws, reference_region=region, chr_id="chrA")

def inside(ws, we, i): return ws <= i[0] < i[1] <= we

def corr_histories(ctx, quick):
    from src.assignment_io import IOSupport
    rnd = ctx.rnd; io_ = IOSupport(types.SimpleNamespace())
    pre = PRE + "Definition tc (c:(str * Z * Z * list (strand * list intron)) * list bool) := c.\nDefinition check := history_check.\nDefinition prop := history_prop.\n"
    cases = []
    def one(text, ws, we, qs, tag):
        gi = fake_gene_info(text, ws, we)
        try: ans = [real(ctx, "check_sites_are_canonical", {"reference_text": text, "window(1-based, inclusive)": (ws, we), "queries(strand, introns)": [(x[0], list(x[1])) for x in qs], "failing_query": (q[0], list(q[1]))},
                         io_.check_sites_are_canonical, list(q[1]), gi, q[0]) for q in qs]
        except ImplRaised: return
        term = "((%s, %s, %s, %s), %s)" % (cs(text), cz(ws), cz(we), clist(qs, cquery), clist(ans, cbool))
        cases.append((term, {"reference_text": text, "window(1-based, inclusive)": (ws, we), "queries(strand, introns)": [(q[0], list(q[1])) for q in qs], "impl": ans, "stream": tag,
                             "all_inside": all(inside(ws, we, i) for q in qs for i in q[1]), "all_outside": all(not inside(ws, we, i) for q in qs for i in q[1])}))
    configs = [(("+", "-", "n"), 0), (("+", "-", "n"), 1.0), (("gc", "rat", "half"), 0), (("at", "rgc", "+"), 0.4)]
    maxlen = 4 if quick else 5
    for kinds, lower in configs:
        text, I = three_intron_text(rnd, kinds, lower)
        base = [(s, (i,)) for i in I for s in "+-"]
        alphabet = base + ([("+", (I[0], I[1])), ("-", (I[0], I[1])), (".", (I[0],))] if not quick else [])
        for n in range(1, maxlen + 1):
            for qs in itertools.product(alphabet if n < 5 else base, repeat=n):
                one(text, 1, len(text), list(qs), "exhaustive")
    for _ in range(1500 if quick else 10000):
        kinds = [rnd.choice(["+", "-", "gc", "at", "rgc", "rat", "n", "half"]) for _k in range(3)]
        text, I = three_intron_text(rnd, kinds, rnd.choice([0, 0, 0.3, 1.0]))
        ws = rnd.choice([1, 1, 5, 11]); we = rnd.choice([len(text), len(text), 66, 60])
        qs = [(rnd.choice("++--."), tuple(sorted(rnd.sample(I, rnd.randint(1, 3))))) for _k in range(rnd.randint(1, 12))]
        if all(inside(ws, we, i) for q in qs for i in q[1]): one(text, ws, we, qs, "random")
    n_in = len(cases)
    ctx.rule("check_sites_are_canonical on fake gene_info objects: every history of <= %d queries over 3 introns x {+,-} (quick) plus two-intron and '.'-strand queries (thorough) on 4 reference texts (canonical on +, on -, on neither, GC-AG / AT-AC, lower case), random histories of up to 12 multi-intron queries with windows that contain all introns; non-trivial = an intron is asked on both strands" % maxlen)
    m, v = ctx.corr("check_sites_are_canonical-histories", pre, typed(cases), shard=300,
                    nontrivial=lambda o: len(set((i, s) for s, l in o["queries(strand, introns)"] for i in l)) > len(set(i for s, l in o["queries(strand, introns)"] for i in l)))
    ctx.corr_report("check_sites_are_canonical-histories", m, v, keyfn=lambda o: None)


def corr_reloaded(ctx, quick, saved):
    """the window a GeneInfo holds after the save files: REAL GeneInfo with the window of stage 1 (set_reference_sequence on the read region), written by the
       REAL TmpFileAssignmentPrinter, read back by the REAL NormalTmpFileAssignmentLoader with the chromosome; then queries on the reloaded object"""
    from src.assignment_io import IOSupport, TmpFileAssignmentPrinter, NormalTmpFileAssignmentLoader
    from src.gene_info import GeneInfo, FeatureProfiles
    import gc
    rnd = ctx.rnd; io_ = IOSupport(types.SimpleNamespace())
    pre = PRE.replace("CanonSpec.", "CanonSpec CanonReload.") + "Definition RR := %s.\n" % cbool(saved) + """Definition tc (c:(str * (Z * Z * Z * Z) * list (strand * list intron)) * list bool) := c.
Definition wnd (c:(str * (Z * Z * Z * Z) * list (strand * list intron)) * list bool) : window :=
  let '(text, (gs, ge, rs, re), qs) := fst c in reloaded_window RR text {| sv_gene_start := gs; sv_gene_end := ge; sv_reads_start := rs; sv_reads_end := re |}.
Definition check (c:(str * (Z * Z * Z * Z) * list (strand * list intron)) * list bool) : bool :=
  let '(text, g, qs) := fst c in bools_eqb (snd (run_queries (wnd c) [] qs)) (snd c).
(* every answer is the conjunction of the declarative test on the chromosome itself: no restriction to a window (C18_flag_spec_reloaded) *)
Definition prop (c:(str * (Z * Z * Z * Z) * list (strand * list intron)) * list bool) : bool :=
  let '(text, g, qs) := fst c in bools_eqb (map (fun q => forallb (canonical_ref (ref_of text) (fst q)) (snd q)) qs) (snd c).
"""
    tmp = tempfile.mkdtemp(prefix="iqv_c18_reload_"); cases = []
    try:
        def one(text, gene, reads, qs, k):
            rp = {"reference_text": text, "gene_region": gene, "read_region": reads, "queries(strand, introns)": [(q[0], list(q[1])) for q in qs]}
            try:
                g = GeneInfo.__new__(GeneInfo); g.delta = 0; g.gene_db_list = []; g.chr_id = "chrA"; g.start, g.end = gene
                g.all_read_region_start, g.all_read_region_end = gene; g.reference_region = None; g.canonical_sites = {}
                real(ctx, "GeneInfo.set_reference_sequence", rp, g.set_reference_sequence, reads[0], reads[1], text)       # stage 1
                path = os.path.join(tmp, "g%d.save" % k)
                def write():
                    pr = TmpFileAssignmentPrinter(path, None); pr.add_gene_info(g); del pr; gc.collect()
                real(ctx, "TmpFileAssignmentPrinter.add_gene_info", rp, write)
                def load():
                    ld = NormalTmpFileAssignmentLoader(path, None, text); obj = ld.get_object(); del ld; gc.collect(); return obj
                g2 = real(ctx, "NormalTmpFileAssignmentLoader.get_object", rp, load)                                       # stage 2
                ans = [real(ctx, "check_sites_are_canonical on a reloaded GeneInfo", dict(rp, failing_query=(q[0], list(q[1]))), io_.check_sites_are_canonical, list(q[1]), g2, q[0]) for q in qs]
            except ImplRaised: return
            held = (g2.all_read_region_start, g2.all_read_region_start + len(g2.reference_region or "") - 1)
            term = "((%s, (%s, %s, %s, %s), %s), %s)" % (cs(text), cz(gene[0]), cz(gene[1]), cz(reads[0]), cz(reads[1]), clist(qs, cquery), clist(ans, cbool))
            cases.append((term, dict(rp, impl=ans, window_held_after_reload=held, some_outside_gene_region=any(not inside(gene[0], gene[1], i) for q in qs for i in q[1]))))
        # corpus: the GT..AG intron left of the genes, a CT..AC intron right of them
        text, I = three_intron_text(rnd, ("+", "+", "-"), 0)
        one(text, (25, 50), (3, 70), [("+", (I[0],))], 0)
        one(text, (25, 40), (3, 70), [("-", (I[2],))], 1)
        for k in range(2, 250 if quick else 1500):
            kinds = [rnd.choice(["+", "-", "gc", "at", "rgc", "rat", "n", "half"]) for _k in range(3)]
            text, I = three_intron_text(rnd, kinds, rnd.choice([0, 0, 0.3, 1.0]))
            reads = (rnd.choice([1, 3, 9]), rnd.choice([len(text), 70, 64]))                    # the reads span all three introns
            gene = rnd.choice([(25, 50), (46, 72), (1, 9), (23, 30), (62, 72), (5, 66), reads])  # the genes lie anywhere inside / across
            qs = [(rnd.choice("++--."), tuple(sorted(rnd.sample(I, rnd.randint(1, 3))))) for _k in range(rnd.randint(1, 6))]
            one(text, gene, reads, qs, k)
    finally:
        shutil.rmtree(tmp, ignore_errors=True)
    ctx.rule("reloaded GeneInfo: REAL GeneInfo objects holding the window of the read region (set_reference_sequence), written by the REAL TmpFileAssignmentPrinter and read back by the REAL "
             "NormalTmpFileAssignmentLoader with the chromosome, then histories of check_sites_are_canonical queries for introns inside the read region, the gene region lying anywhere; the specification demands "
             "the chromosome's own answer for every one of them (code under test: %s); non-trivial = a queried intron lies outside the gene region" % ("read region stored in the gene header" if saved else "gene region only in the gene header - known finding"))
    m, v = ctx.corr("reloaded-gene_info-histories", pre, typed(cases), shard=100, nontrivial=lambda o: o["some_outside_gene_region"])
    # the known finding exists only where the header does not carry the read region; with the repaired layout every deviation is new
    ctx.corr_report("reloaded-gene_info-histories", m, v, keyfn=lambda o: KEY_WINDOW if (not saved and o["some_outside_gene_region"]) else None)


def corr_flags(ctx, quick):
    from src.assignment_io import IOSupport, BasicTSVAssignmentPrinter, PrintAllFunctor
    from src.isoform_assignment import ReadAssignmentType, MatchClassification
    from src.gene_info import TranscriptModel, TranscriptModelType
    rnd = ctx.rnd
    pre = PRE + "Definition tc (c:(str * Z * Z * list flag_op) * list (option flag)) := c.\nDefinition check := flags_check.\nDefinition prop := flags_prop.\n"
    params = types.SimpleNamespace(cage=None, check_canonical=True)
    def run_ops(text, ws, we, ops):
        rp = {"reference_text": text, "window": (ws, we), "ops": [list(map(lambda x: list(x) if isinstance(x, tuple) else x, op)) for op in ops]}
        gi = fake_gene_info(text, ws, we); gi.all_isoforms_introns = {"T": []}
        pr = BasicTSVAssignmentPrinter.__new__(BasicTSVAssignmentPrinter)
        pr.assignment_checker = PrintAllFunctor(); pr.params = params; pr.gzipped = False; pr.io_support = IOSupport(params)
        sup = IOSupport(params); out = []
        for op in ops:
            if op[0] == "read":
                _, strand, exons = op[:3]
                tstrand = op[3] if len(op) > 3 else strand          # strand of the matched isoform: antisense / inconsistent reads are reported on another strand than their isoform
                pr.output_file = io.StringIO()
                ra = types.SimpleNamespace(read_id="r", chr_id="chrA", strand=strand, mapped_strand=strand, assignment_type=ReadAssignmentType.inconsistent if tstrand != strand else ReadAssignmentType.unique,
                                           exons=list(exons), corrected_exons=list(exons), gene_info=gi,
                                           isoform_matches=[types.SimpleNamespace(assigned_transcript="T", assigned_gene="G", transcript_strand=tstrand, penalty_score=0.0,
                                                                                  match_classification=MatchClassification.full_splice_match, match_subclassifications=[])],
                                           gene_assignment_type=ReadAssignmentType.unique, polyA_found=False, cage_found=False, multimapper=False, mapping_quality=60, read_group="NA",
                                           genomic_region=(1, len(text)), additional_attributes={}, additional_info={})
                real(ctx, "BasicTSVAssignmentPrinter.add_read_info", dict(rp, failing_op=list(op)), pr.add_read_info, ra)
                line = pr.output_file.getvalue().rstrip("\n").split("\t")
                info = dict(x.strip().split("=", 1) for x in line[8].split(";") if "=" in x)
                out.append(info.get("Canonical"))
            else:
                _, existing, strand, exons = op
                m = TranscriptModel("chrA", strand, "t", "g", list(exons), TranscriptModelType.novel_not_in_catalog)
                if existing is not None: m.add_additional_attribute("Canonical", existing)
                real(ctx, "IOSupport.add_canonical_info", dict(rp, failing_op=list(op)), sup.add_canonical_info, [m], gi)
                out.append(m.additional_info.get("Canonical"))
        pr.output_file = io.StringIO()
        return out
    def cop(op):
        if op[0] == "read": return "(ReadOp %s %s)" % (cstrand(op[1]), cintrons(op[2]))      # the isoform's strand is not an argument of the model: the flag is a function of the reported strand
        return "(ModelOp %s %s %s)" % (cflag(op[1]), cstrand(op[2]), cintrons(op[3]))
    cases = []
    def exon_lists(I, L):
        # complements of subsets of the intron pool, plus a record with two adjacent blocks (no real intron) and a mono-exonic one
        res = []
        for k in (1, 2, 3):
            for sub in itertools.combinations(I, k):
                b = [3] + [x for i in sub for x in (i[0] - 1, i[1] + 1)] + [L - 2]
                res.append(tuple((b[2 * j], b[2 * j + 1]) for j in range(len(b) // 2)))
        res.append(((3, 9),)); res.append(((3, 9), (10, 20)))
        return res
    def exs(op): return op[2] if op[0] == "read" else op[3]
    def one(text, ws, we, ops, tag):
        try: out = run_ops(text, ws, we, ops)
        except ImplRaised: return
        term = "((%s, %s, %s, %s), %s)" % (cs(text), cz(ws), cz(we), clist(ops, cop), clist(out, cflag))
        ins = all(inside(ws, we, (a[1] + 1, b[0] - 1)) for op in ops for a, b in zip(exs(op), exs(op)[1:]) if a[1] + 1 < b[0])
        cases.append((term, {"reference_text": text, "window": (ws, we), "ops": [list(map(lambda x: list(x) if isinstance(x, tuple) else x, op)) for op in ops], "impl": out, "stream": tag, "all_inside": ins}))
    text, I = three_intron_text(rnd, ("+", "-", "n"), 0); EL = exon_lists(I, len(text))
    alphabet = [("read", s, e) for s in "+-" for e in (EL[0], EL[3])] + [("model", None, s, e) for s in "+-" for e in (EL[0], EL[3])] + [("read", "-", EL[0], "+"), ("read", "+", EL[3], "-")]
    for n in (1, 2, 3):
        for ops in itertools.product(alphabet, repeat=n): one(text, 1, len(text), list(ops), "exhaustive")
    for _ in range(900 if quick else 6000):
        kinds = [rnd.choice(["+", "-", "gc", "at", "rgc", "rat", "n", "half"]) for _k in range(3)]
        text, I = three_intron_text(rnd, kinds, rnd.choice([0, 0, 0.3, 1.0])); EL = exon_lists(I, len(text))
        ws, we = rnd.choice([(1, len(text)), (1, len(text)), (5, 68), (1, 0)])          # (1, 0): no reference stored
        ops = []
        for _k in range(rnd.randint(1, 8)):
            if rnd.random() < .5:
                st = rnd.choice("++--."); ops.append(("read", st, rnd.choice(EL)) if rnd.random() < .6 else ("read", st, rnd.choice(EL), rnd.choice("+-.")))
            else: ops.append(("model", rnd.choice([None, None, None, "True", "False", "Unspliced"]), rnd.choice("++--."), rnd.choice(EL)))
        one(text, ws, we, ops, "random")
    ctx.rule("Canonical= of read records (REAL BasicTSVAssignmentPrinter.add_read_info on fake assignments) and Canonical attribute of models (REAL IOSupport.add_canonical_info on TranscriptModel objects) through one shared gene_info: every sequence of <= 3 operations over {read, model} x {+,-} x 2 exon structures + 2 reads reported on the strand opposite to their matched isoform's, random sequences (40% of the reads matched to an isoform of an independently drawn strand) of up to 8 with '.' strands, existing attributes, mono-exonic and gap-free records, lower-case texts, no stored reference; non-trivial = a spliced record")
    m, v = ctx.corr("canonical-flags", pre, typed(cases), shard=300, nontrivial=lambda o: any(x in ("True", "False") for x in o["impl"]))
    ctx.corr_report("canonical-flags", m, v, keyfn=lambda o: None)


def corr_common(ctx, quick):
    from src.common import get_intron_strand, get_strand, count_noncanonincal
    rnd = ctx.rnd
    pre = PRE + "Definition tc (c:(str * Z * list intron * strand) * (list strand * strand * Z)) := c.\nDefinition check := common_check.\nDefinition prop := common_prop.\n"
    cases = []
    for it in range(1500 if quick else 10000):
        kinds = [rnd.choice(["+", "-", "gc", "at", "rgc", "rat", "n", "half"]) for _k in range(3)]
        text, I = three_intron_text(rnd, kinds, rnd.choice([0, 0, 0.3, 1.0]))
        start = rnd.choice([1, 1, 0, 5, 30])
        sh_ = start - 1
        introns = [(i[0] + sh_, i[1] + sh_) for i in rnd.sample(I, rnd.randint(0, 3))]
        if rnd.random() < .25: introns.append((rnd.randint(-5, 90), rnd.randint(-5, 90)))     # anywhere, also outside the string (Python slices clip and wrap)
        st = rnd.choice("+-")
        rp = {"text": text, "ref_region_start": start, "introns": introns, "strand": st}
        try:
            each = [real(ctx, "get_intron_strand", rp, get_intron_strand, i, text, start) for i in introns]
            al = real(ctx, "get_strand", rp, get_strand, introns, text, start); cnt = real(ctx, "count_noncanonincal", rp, count_noncanonincal, introns, text, st, start)
        except ImplRaised: continue
        term = "((%s, %s, %s, %s), (%s, %s, %s))" % (cs(text), cz(start), cintrons(introns), cstrand(st), clist(each, cstrand), cstrand(al), cz(cnt))
        cases.append((term, {"text": text, "ref_region_start": start, "introns": introns, "strand": st, "get_intron_strand": each, "get_strand": al, "count_noncanonincal": cnt}))
    ctx.rule("common.get_intron_strand / get_strand / count_noncanonincal on random strings with planted sites of all six canonical kinds and non-canonical ones, upper / mixed / lower case, region starts {0,1,5,30}, introns also outside the string; non-trivial = an intron with a strand")
    m, v = ctx.corr("common-strand-functions", pre, typed(cases), shard=300, nontrivial=lambda o: any(s in "+-" for s in o["get_intron_strand"]))
    ctx.corr_report("common-strand-functions", m, v)


def corr_detector(ctx, quick):
    from src.alignment_processor import AlignmentCollector
    from src.isoform_assignment import ReadAssignmentType as T
    from src.polya_finder import PolyAInfo
    from src.id_policy import SimpleIDDistributor
    rnd = ctx.rnd
    pre = PRE + "Definition tc (c:(str * list isoform * list det_op) * (list strand * sdict)) := c.\nDefinition check := detector_check.\nDefinition prop := detector_prop.\n"
    GI = {"G1": 1, "G2": 2}
    tmp = tempfile.mkdtemp(prefix="iqv_c18_fa_"); cases = []
    try:
        def one(text, isoforms, ops, use_pyfaidx, k):
            try: one_(text, isoforms, ops, use_pyfaidx, k)
            except ImplRaised: pass
        def one_(text, isoforms, ops, use_pyfaidx, k):
            rp = {"reference_text": text, "pyfaidx_record": use_pyfaidx, "isoforms(tid,strand,gene,introns)": isoforms, "ops": [list(map(str, op)) for op in ops]}
            rec = text
            if use_pyfaidx:
                from pyfaidx import Fasta
                p = os.path.join(tmp, "r%d.fa" % k); open(p, "w").write(">chrA\n" + "\n".join(text[i:i + 30] for i in range(0, len(text), 30)) + "\n")
                rec = Fasta(p)["chrA"]
            c = real(ctx, "GeneInfo / GraphBasedModelConstructor set-up (set_gene_properties, StrandDetector)", rp, make_constructor, "chrA", rec, isoforms, {g: "+" for g in GI}, False, [], types.SimpleNamespace(), SimpleIDDistributor())
            det = c.strand_detector; me = types.SimpleNamespace(strand_detector=det); out = []; cops = []
            for op in ops:
                if op[0] == "get":
                    out.append(real(ctx, "StrandDetector.get_strand", dict(rp, failing_op=list(map(str, op))), det.get_strand, list(op[1]), op[2], op[3])); cops.append("(GetStrand %s %s %s)" % (cintrons(op[1]), cbool(op[2]), cbool(op[3])))
                elif op[0] == "clean":
                    out.append(real(ctx, "StrandDetector.get_clean_strand", dict(rp, failing_op=list(map(str, op))), det.get_clean_strand, list(op[1]))); cops.append("(GetClean %s)" % cintrons(op[1]))
                else:
                    _, tstrand, atype, pos, nex, introns = op
                    ra = types.SimpleNamespace(isoform_matches=[types.SimpleNamespace(transcript_strand=tstrand)] if tstrand else [], assignment_type=atype,
                                               polya_info=PolyAInfo(pos[0], pos[2], pos[1], pos[3]), exons=[(1, 2)] * nex, corrected_introns=list(introns))
                    out.append(real(ctx, "AlignmentCollector.get_assignment_strand", dict(rp, failing_op=list(map(str, op))), AlignmentCollector.get_assignment_strand, me, ra))
                    matched = tstrand if (tstrand and atype in (T.unique, T.unique_minor_difference)) else None
                    cops.append("(ReadStrand %s %s %s %s %s %s %s)" % ("None" if matched is None else "(Some %s)" % cstrand(matched), cz(pos[0]), cz(pos[1]), cz(pos[2]), cz(pos[3]), cz(nex), cintrons(introns)))
            sd = det.strand_dict
            term = "((%s, %s, %s), (%s, %s))" % (cs(text), clist(isoforms, lambda t: "(%s, %s, %s)" % (cstrand(t[1]), cz(GI[t[2]]), cintrons(t[3]))), clist(cops),
                                                clist(out, cstrand), clist(sorted(sd.items()), lambda e: "(%s, %s)" % (civ(e[0]), cstrand(e[1]))))
            cases.append((term, {"reference_text": text, "pyfaidx_record": use_pyfaidx, "isoforms(tid,strand,gene,introns)": isoforms, "ops": [list(map(str, op)) for op in ops], "impl": out, "strand_dict": sorted(sd.items())}))
        def rnd_op(I):
            r = rnd.random(); ints = tuple(sorted(rnd.sample(I, rnd.randint(1, 3))))
            if r < .35: return ("get", ints, rnd.random() < .4, rnd.random() < .4)
            if r < .5: return ("clean", ints)
            pos = [rnd.choice([-1, -1, 57]) for _k in range(4)]          # ext_a, int_a, ext_t, int_t
            nex = rnd.choice([1, 2, len(ints) + 1])
            return ("read", rnd.choice([None, "+", "-", "."]), rnd.choice([T.unique, T.unique_minor_difference, T.ambiguous, T.inconsistent, T.noninformative]), pos, nex, ints if nex > 1 else ())
        # exhaustive short histories on one text with ties: intron 1 '+', intron 2 '-', intron 3 neither; annotation says intron 3 is '-'
        text, I = three_intron_text(rnd, ("+", "-", "n"), 0)
        iso = [("T0", "-", "G1", [I[2]])]
        alphabet = [("get", (I[0],), False, False), ("get", (I[0], I[1]), True, False), ("get", (I[0], I[1]), False, True), ("get", (I[0], I[1]), True, True), ("get", (I[0], I[1], I[2]), False, False),
                    ("clean", (I[0], I[1])), ("clean", (I[0], I[2])), ("read", None, T.ambiguous, [-1, 57, -1, -1], 1, ()), ("read", "-", T.unique, [-1, -1, -1, -1], 3, (I[0], I[1])),
                    ("read", "-", T.ambiguous, [-1, -1, 57, -1], 3, (I[0], I[1]))]
        k = 0
        for n in (1, 2, 3) if not quick else (1, 2):
            for ops in itertools.product(alphabet, repeat=n): one(text, iso, list(ops), False, k); k += 1
        for it in range(1200 if quick else 8000):
            kinds = [rnd.choice(["+", "-", "gc", "at", "rgc", "rat", "n", "half"]) for _k in range(3)]
            text, I = three_intron_text(rnd, kinds, rnd.choice([0, 0, 0.3, 1.0]))
            isoforms = [("T%d" % j, rnd.choice("+-+-."), rnd.choice(["G1", "G2"]), sorted(rnd.sample(I, rnd.randint(1, 3)))) for j in range(rnd.randint(0, 3))]
            one(text, isoforms, [rnd_op(I) for _k in range(rnd.randint(1, 9))], it % 10 == 0, k); k += 1
    finally:
        shutil.rmtree(tmp, ignore_errors=True)
    ctx.rule("StrandDetector (pre-seeded by the REAL set_gene_properties from fake annotations, memo shared along the history) with get_strand / get_clean_strand and AlignmentCollector.get_assignment_strand on fake assignments: every history of <= %d operations over a 10-symbol alphabet with ties, + random histories of up to 9 operations; every 10th random case reads a real pyfaidx record; non-trivial = the memo was consulted for an intron it already held" % (2 if quick else 3))
    m, v = ctx.corr("strand-detector-histories", pre, typed(cases), shard=300, nontrivial=lambda o: len(o["ops"]) > 1)
    ctx.corr_report("strand-detector-histories", m, v)


def corr_constructor(ctx, quick):
    pre = PRE + "Definition tc (c:fl_input * (list fl_out * Z * sdict)) := c.\nDefinition check := fl_check.\nDefinition prop := fl_strand_prop.\n"
    cases = C17.fl_cases(ctx, 900 if quick else 6000)
    ctx.rule("construct_fl_isoforms (REAL method on stubbed path storage / assigner): strand decision, monointronic and reporting filters at all three --report_canonical levels, reference-gene choice; the specification recomputes each reported strand from the evidence of the path's own introns; non-trivial = a novel model was reported")
    m, v = ctx.corr("construct_fl_isoforms-strands", pre, typed(cases), shard=200, nontrivial=lambda o: any(x and x[0] == "novel" for x in o["impl"]))
    ctx.corr_report("construct_fl_isoforms-strands", m, v)


# ------------------------------------------------------------------ pipeline: canon_ok
def canon_records(fasta, rows):
    """rows: (chr, strand, exons, printed flag, must_have, what) -> coq terms"""
    out = []
    for chr_id, strand, exons, fl, must, what in rows:
        seq = fasta[chr_id]; tab = []
        for a, b in zip(exons, exons[1:]):
            l, r = a[1] + 1, b[0] - 1
            if l <= r: tab.append(((l, r), (seq[l - 1:l + 1], seq[r - 2:r])))
        term = "(%s, %s, %s, %s)" % (cstrand(strand), cintrons(exons), cflag(fl), clist(tab, lambda e: "(%s, (%s, %s))" % (civ(e[0]), cs(e[1][0]), cs(e[1][1]))))
        out.append((term, must, what))
    return out

def pipeline(ctx, quick, saved):
    import pipeline as P, gen_data
    from concurrent.futures import ThreadPoolExecutor
    root = P.scratch("iqv_c18_")
    hook = os.path.join(os.path.dirname(os.path.abspath(__file__)), "c18_hook.py")
    try:
        jobs = []
        b = P.bundled(os.path.join(root, "bundled"))
        jobs.append(dict(name="bundled", fasta=b["fasta"], gtf=b["gtf"], bam=b["bam"], extra=["--complete_genedb"]))
        if not quick: jobs.append(dict(name="bundled-all", fasta=b["fasta"], gtf=b["gtf"], bam=b["bam"], extra=["--complete_genedb", "--report_canonical", "all", "--report_novel_unspliced", "true"]))
        for seed, level in ([(21, "only_canonical"), (22, "all")] if quick else [(21, "only_canonical"), (22, "all"), (23, "only_stranded"), (24, "all"), (25, "only_canonical")]):
            w = gen_data.World(ctx.seed * 1000 + seed, n_chr=2, lower_frac=0.35)
            # antisense / inconsistent reads: inside a gene, every intron 30 bp wider on both sides than an annotated one and canonical on the strand
            # OPPOSITE to the gene's (planted before any read copies the reference): such a read is matched to the isoform but reported on the other strand
            anti = []
            for g in w.genes:
                opp = "-" if g["strand"] == "+" else "+"
                for tid, ix in list(g["isoforms"].items())[:1]:
                    ex = [g["pool"][i] for i in ix]
                    # the longest run of consecutive exons that are long enough to lose 12 / 30 bp on their inner sides (more than the matching tolerance)
                    runs = []; cur = []
                    for e in ex:
                        if e[1] - e[0] >= 44: cur.append(e)
                        else: runs.append(cur); cur = []
                    runs.append(cur); ex = max(runs, key=len)
                    if len(ex) < 2: continue
                    mg = lambda e: 30 if e[1] - e[0] >= 90 else 12
                    ax = [(a + (mg((a, b)) if k else 0), b - (mg((a, b)) if k < len(ex) - 1 else 0)) for k, (a, b) in enumerate(ex)]
                    w.chroms[g["chr"]] = list(w.chroms[g["chr"]]); w.plant(ax, g["chr"], opp); w.chroms[g["chr"]] = "".join(w.chroms[g["chr"]])
                    anti.append((g, tid, ax, opp))
            w.reads_from_annotation(per_isoform=3); w.novel_reads(per_gene=5)
            for g, tid, ax, opp in anti:
                for rep_ in range(4): w.add_read("antisplice_%s_%d" % (tid, rep_), g["chr"], ax, opp, polya=rep_ % 2 == 0)
            # opposite-strand reads over the same introns: the same intron is asked on '+' and on '-' within one locus
            for g in w.genes[:3]:
                for tid, ix in list(g["isoforms"].items())[:1]:
                    ex = [g["pool"][i] for i in ix]
                    if len(ex) > 1:
                        for rep in range(3): w.add_read("anti_%s_%d" % (tid, rep), g["chr"], ex, "-" if g["strand"] == "+" else "+", polya=True)
            dd = os.path.join(root, "gen%d" % seed); bam = w.write(dd)[0]
            jobs.append(dict(name="generated-%d-%s" % (seed, level), fasta=os.path.join(dd, "genome.fa"), gtf=os.path.join(dd, "annotation.gtf"), bam=bam, extra=["--complete_genedb", "--report_canonical", level]))
        def run(job):
            out = os.path.join(root, job["name"] + "_out"); os.makedirs(out); log = os.path.join(root, job["name"] + ".sites.log")
            rc, txt = P.run_isoquant(out, ["--bam", job["bam"], "-r", job["fasta"], "-g", job["gtf"], "-d", "nanopore", "-p", "S", "-t", "2", "--check_canonical"] + job["extra"],
                                     wrapper=hook, env_extra={"C18_LOG": log})
            return job, rc, txt, out, log
        pre = PRE + "Definition tc (c:canon_rec) := c.\nDefinition check (c:canon_rec) := true.\n"
        with ThreadPoolExecutor(4) as ex:
            results = list(ex.map(run, jobs))
        n_cross = 0
        def evaluate(job, rc, txt, out, log):
            nonlocal n_cross
            ctx.cov["pipeline_runs"] += 1
            if rc != 0:
                ctx.violation(None, "IsoQuant exits with %d (%s)" % (rc, job["name"]), {"job": job["name"], "arguments": job["extra"], "log_tail": txt[-1500:]}); return
            fasta = P.read_fasta(job["fasta"])
            windows = collections.defaultdict(set)           # (chr, intron) -> windows it was looked up in
            if os.path.exists(log):
                for l in open(log):
                    v = l.rstrip("\n").split("\t")
                    for x in v[1].split(","):
                        a, b_ = x.split("-"); windows[(v[0], (int(a), int(b_)))].add((int(v[3]), int(v[3]) + int(v[4]) - 1))
            rows = []; iso_strand = {}
            ann, _g = P.read_gtf(job["gtf"])
            ra = P.find(out, "S", "read_assignments.tsv")
            if ra is None:
                ctx.violation(None, "no read_assignments.tsv written (%s)" % job["name"], {"job": job["name"], "arguments": job["extra"]}); return
            cross = 0
            for d in P.read_assignments(ra):
                rows.append((d["chr"], d["strand"], d["exons"], d["info"].get("Canonical"), d["isoform_id"] != ".", ("read", d["read_id"], d["isoform_id"])))
                ts = ann[d["isoform_id"]]["strand"] if d["isoform_id"] in ann else None
                iso_strand[len(rows) - 1] = ts
                if ts is not None and ts != d["strand"] and d["info"].get("Canonical") in ("True", "False"): cross += 1
            n_cross += cross
            n_reads = len(rows)
            for suffix in ("transcript_models.gtf", "extended_annotation.gtf"):
                tr, _g = P.read_gtf(os.path.join(out, "S", "S." + suffix))
                for tid, t in tr.items():
                    rows.append((t["chr"], t["strand"], t["exons"], t["attrs"].get("Canonical"), True, (suffix, tid)))
            recs = canon_records(fasta, rows)
            cases = []
            for k_, ((term, must, what), row) in enumerate(zip(recs, rows)):
                cases.append((term, {"job": job["name"], "arguments": job["extra"], "record": what, "chr": row[0], "strand": row[1], "strand_of_the_matched_isoform": iso_strand.get(k_), "exons": row[2], "printed": row[3], "must_have": must,
                                     "intron_dinucleotides": [(fasta[row[0]][a[1]:a[1] + 2], fasta[row[0]][b_[0] - 3:b_[0] - 1]) for a, b_ in zip(row[2], row[2][1:]) if a[1] + 1 <= b_[0] - 1]}))
            # must_have is part of the evaluation: two preambles, two groups
            for must in (True, False):
                grp = [c for c in cases if c[1]["must_have"] == must]
                m_, v_ = ctx.corr("pipeline-canon_ok/%s/%s" % (job["name"], "assigned+models" if must else "unassigned"),
                                  pre + "Definition prop (c:canon_rec) := canon_rec_ok %s c.\n" % cbool(must), typed(grp), shard=1500, sample=1,
                                  nontrivial=lambda o: o["printed"] in ("True", "False"))
                def key(o):
                    ints = [(a[1] + 1, b_[0] - 1) for a, b_ in zip(o["exons"], o["exons"][1:]) if a[1] + 1 <= b_[0] - 1]
                    for i in ints:
                        for (ws, we) in windows.get((o["chr"], i), ()):
                            if not (ws <= i[0] and i[1] <= we):
                                o["window_seen_by_the_check"] = (ws, we); o["intron_outside"] = i
                                return None if saved else KEY_WINDOW      # with the read region stored in the gene header no look-up may leave the window
                    return None
                ctx.corr_report("pipeline-canon_ok/%s" % job["name"], m_, v_, keyfn=key, what="canon_ok: printed Canonical value differs from the recomputation on the FASTA")
            both = sum(1 for k, ws in windows.items() if len(ws) > 0)
            ctx.notes.append("pipeline %s: %d read records (%d spliced ones reported on another strand than their matched isoform's), %d model records, %d distinct introns looked up" % (job["name"], n_reads, cross, len(rows) - n_reads, both))
        for r_ in results: guarded(ctx, "pipeline:" + r_[0]["name"], evaluate, *r_)
        if n_cross == 0: ctx.broken("harness:pipeline-generator", "no spliced read was reported on a strand other than its matched isoform's (antisense reads missing: generator too weak)")
        ctx.rule("pipeline: --check_canonical runs on the bundled data and on generated two-chromosome data (35% lower-case FASTA, reads of both strands over the same introns, reads inside genes spliced at sites canonical on the opposite strand - matched to an isoform but reported on the other strand -, --report_canonical only_canonical / all): every Canonical= of read_assignments.tsv and every Canonical attribute of both GTFs recomputed by Coq canon_ok from the dinucleotides the harness cuts out of the FASTA, on the printed strand; non-trivial = spliced record")
    finally:
        shutil.rmtree(root, ignore_errors=True)


def run(ctx):
    quick = ctx.tier == "quick"
    ctx.prepare("C18.v")
    ctx.rule("regenerated from the source on every run (tools/translate_extra.py -> coq/gen/Extra.v; bridged to the model by C18_site_sets_are_the_sources): CANONICAL_FWD_SITES / CANONICAL_REV_SITES of src/common.py as lists of pairs of byte lists, in the order of the set literals")
    guarded(ctx, "canonical-site-sets", corr_sites, ctx)
    saved = window_is_saved()
    ctx.notes.append("gene header of the code under test: %s" % ("carries the reference window of the reads (fixes/C18_serialize_read_region.diff): C18_flag_spec_reloaded applies, no known finding about the window" if saved else
                                                                  "gene region only (before fixes/C18_serialize_read_region.diff): known finding C18:intron-outside-window"))
    guarded(ctx, "check_sites_are_canonical-histories", corr_histories, ctx, quick)
    guarded(ctx, "reloaded-gene_info-histories", corr_reloaded, ctx, quick, saved)
    guarded(ctx, "canonical-flags", corr_flags, ctx, quick)
    guarded(ctx, "common-strand-functions", corr_common, ctx, quick)
    guarded(ctx, "strand-detector-histories", corr_detector, ctx, quick)
    guarded(ctx, "construct_fl_isoforms-strands", corr_constructor, ctx, quick)
    ctx.exhaustive = False
    guarded(ctx, "pipeline", pipeline, ctx, quick, saved)
    ctx.assume.append("pyfaidx: record[a:b] for 0 <= a < b <= len is the substring (out-of-range slices of real records are not exercised at unit level)")
    ctx.assume.append("the harness' FASTA / TSV / GTF readers and its extraction of the two dinucleotides of every intron; harness/props/c18_hook.py only logs calls")
    ctx.assume.append("the reference is ASCII (str.upper on other alphabets is not modelled)")
