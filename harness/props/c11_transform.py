"""C11 - metamorphic transforms of an IsoQuant input (reference FASTA, annotation GTF, alignments BAM) and the inverse
transforms of its outputs.

  shift by k     k bases are inserted at the start of every chromosome; annotation and alignments move by k
  mirror         every chromosome is reverse-complemented; a 1-based closed interval [s, e] on a chromosome of length L becomes
                 [L+1-e, L+1-s], strands are swapped, an alignment becomes the alignment of the reverse-complemented read
                 (CIGAR reversed, sequence reverse-complemented, qualities reversed, flag 0x10 toggled), the genomic-strand tag XS
                 is flipped (the minimap2 tag `ts` is relative to the read and stays)

The inverse maps on outputs (`back_*`) bring the result of a transformed run into the coordinates of the original run so that the
two can be compared literally.  Everything is deterministic; nothing here depends on the code under test."""
import os, gzip, re, random
import pysam

COMP = str.maketrans("ACGTNacgtnRYKMBVDHrykmbvdh", "TGCANtgcanYRMKVBHDyrmkvbhd")


def revcomp(s):
    return s.translate(COMP)[::-1]


def opn(path, mode="rt"):
    return gzip.open(path, mode) if path.endswith(".gz") else open(path, mode)


def read_fasta(path):
    S = {}; order = []; name = None; buf = []
    for l in opn(path):
        if l.startswith(">"):
            if name is not None: S[name] = "".join(buf)
            name = l[1:].split()[0]; order.append(name); buf = []
        else:
            buf.append(l.strip())
    if name is not None: S[name] = "".join(buf)
    return order, S


def write_fasta(path, order, S):
    with open(path, "w") as f:
        for c in order:
            s = S[c]
            f.write(">%s\n" % c)
            for i in range(0, len(s), 80): f.write(s[i:i + 80] + "\n")


def filler(k, seed=11):
    """k inserted bases: pseudo-random, no homopolymer run longer than 2 (so that the insert itself never looks like a polyA tail)"""
    rnd = random.Random(seed); out = []
    while len(out) < k:
        b = rnd.choice("ACGT")
        if len(out) >= 2 and out[-1] == b and out[-2] == b: continue
        out.append(b)
    return "".join(out)


# ------------------------------------------------------------------------------------------------ coordinate maps
class Shift:
    """x -> x + k (the same k on every chromosome)"""
    kind = "shift"
    def __init__(self, k): self.k = k; self.name = "shift%d" % k
    def pos(self, chrom, x): return x + self.k
    def iv(self, chrom, a): return (a[0] + self.k, a[1] + self.k)
    def ivs(self, chrom, l): return [self.iv(chrom, a) for a in l]
    def strand(self, s): return s
    def inv_pos(self, chrom, x): return x - self.k
    def inv_iv(self, chrom, a): return (a[0] - self.k, a[1] - self.k)
    def inv_ivs(self, chrom, l): return [self.inv_iv(chrom, a) for a in l]
    def inv_strand(self, s): return s
    flips = False


class Mirror:
    """1-based closed coordinates: x -> L+1-x on a chromosome of length L"""
    kind = "mirror"; name = "mirror"
    def __init__(self, lengths): self.L = dict(lengths)
    def pos(self, chrom, x): return self.L[chrom] + 1 - x
    def iv(self, chrom, a): return (self.L[chrom] + 1 - a[1], self.L[chrom] + 1 - a[0])
    def ivs(self, chrom, l): return [self.iv(chrom, a) for a in reversed(l)]
    def strand(self, s): return {"+": "-", "-": "+"}.get(s, s)
    inv_pos = pos; inv_iv = iv; inv_ivs = ivs; inv_strand = strand
    flips = True


# ------------------------------------------------------------------------------------------------ inputs
def transform_fasta(src, dst, tr):
    order, S = read_fasta(src)
    if tr.kind == "shift":
        ins = filler(tr.k)
        S2 = {c: ins + S[c] for c in order}
    else:
        S2 = {c: revcomp(S[c]) for c in order}
    write_fasta(dst, order, S2)
    return {c: len(S2[c]) for c in order}


def transform_gtf(src, dst, tr):
    """feature lines keep their order (the annotation database is built from the set of records)"""
    with opn(src) as f, open(dst, "w") as g:
        for l in f:
            if l.startswith("#") or not l.strip():
                g.write(l); continue
            v = l.rstrip("\n").split("\t")
            a = tr.iv(v[0], (int(v[3]), int(v[4])))
            v[3], v[4] = str(a[0]), str(a[1]); v[6] = tr.strand(v[6])
            g.write("\t".join(v) + "\n")


def transform_record(a, tr, lengths, header):
    """a pysam.AlignedSegment of the original file -> the corresponding record of the transformed file"""
    b = pysam.AlignedSegment(header)
    b.query_name = a.query_name; b.mapping_quality = a.mapping_quality
    tags = a.get_tags(with_value_type=True)
    if a.is_unmapped or a.reference_id < 0 or a.cigartuples is None:
        b.flag = a.flag; b.reference_id = a.reference_id; b.reference_start = a.reference_start
        b.query_sequence = a.query_sequence; b.query_qualities = a.query_qualities
        b.set_tags(tags); return b
    b.reference_id = a.reference_id
    if tr.kind == "shift":
        b.flag = a.flag; b.reference_start = a.reference_start + tr.k; b.cigartuples = a.cigartuples
        b.query_sequence = a.query_sequence; b.query_qualities = a.query_qualities
    else:
        L = lengths[a.reference_name]
        b.flag = a.flag ^ 16
        b.reference_start = L - a.reference_end            # 0-based half-open [rs, re) -> [L-re, L-rs)
        b.cigartuples = list(reversed(a.cigartuples))
        q = a.query_qualities
        b.query_sequence = revcomp(a.query_sequence) if a.query_sequence else a.query_sequence
        if q is not None: b.query_qualities = q[::-1]
        tags = [(t, ({"+": "-", "-": "+"}.get(v, v) if t == "XS" else v), ty) for t, v, ty in tags if t not in ("MD", "cs", "SA")]
    b.next_reference_id = -1; b.next_reference_start = -1; b.template_length = 0
    b.set_tags(tags)
    return b


def transform_bam(src, dst, tr, lengths):
    """lengths: chromosome lengths of the TRANSFORMED reference"""
    with pysam.AlignmentFile(src, "rb") as inp:
        hd = inp.header.to_dict()
        for sq in hd.get("SQ", []):
            if sq["SN"] in lengths: sq["LN"] = lengths[sq["SN"]]
        hd.setdefault("HD", {"VN": "1.6"})["SO"] = "unsorted"
        header = pysam.AlignmentHeader.from_dict(hd)
        u = dst + ".unsorted.bam"
        with pysam.AlignmentFile(u, "wb", header=header) as out:
            for a in inp.fetch(until_eof=True):
                out.write(transform_record(a, tr, lengths, header))
    pysam.sort("-o", dst, u); os.remove(u); pysam.index(dst)
    return dst


def transform_inputs(inp, dest, tr_spec):
    """inp: dict(fasta, gtf, bam); tr_spec: ("shift", k) or ("mirror",).  Returns (paths of the transformed inputs, transform)"""
    os.makedirs(dest, exist_ok=True)
    order, S = read_fasta(inp["fasta"])
    if tr_spec[0] == "shift":
        tr = Shift(tr_spec[1]); lengths = {c: len(S[c]) + tr.k for c in order}
    else:
        lengths = {c: len(S[c]) for c in order}; tr = Mirror(lengths)
    out = dict(fasta=os.path.join(dest, "genome.fa"), gtf=os.path.join(dest, "annotation.gtf"), bam=os.path.join(dest, "reads.bam"))
    transform_fasta(inp["fasta"], out["fasta"], tr)
    if inp.get("gtf"): transform_gtf(inp["gtf"], out["gtf"], tr)
    else: out["gtf"] = None
    transform_bam(inp["bam"], out["bam"], tr, lengths)
    return out, tr


# ------------------------------------------------------------------------------------------------ events
def swap_lr(name):
    """left <-> right in an event / subtype name (alt_left_site_known, ism_right, terminal_site_match_left_precise, ...)"""
    return re.sub(r"left|right", lambda m: "right" if m.group(0) == "left" else "left", name)


def parse_events(s):
    """'ism_left:100-200,fsm:.'-style column of read_assignments.tsv -> list of (name, text after the colon)"""
    out = []
    if s in (".", ""): return out
    for e in s.split(","):
        n, _, r = e.partition(":")
        out.append((n, r))
    return out


def back_event(ev, chrom, tr):
    """an event of the transformed run expressed in the coordinates / orientation of the original run"""
    n, r = ev
    if tr.flips: n = swap_lr(n)
    m = re.fullmatch(r"(-?\d+)-(-?\d+)", r)
    if m:
        a = tr.inv_iv(chrom, (int(m.group(1)), int(m.group(2)))); r = "%d-%d" % a
    elif re.fullmatch(r"-?\d+", r):
        r = str(tr.inv_pos(chrom, int(r)))
    return (n, r)
