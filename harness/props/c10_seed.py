"""Runs the unmodified isoquant.py of $VERIF_REPO after putting the process-wide (class-level) state of the main process into the state
described by $C10_SEED (JSON: detected = isoform ids, assignment_counter, feature_counter, duplicate_counter) - as if other chromosomes /
experiments had been processed by this interpreter before.  Worker processes inherit the state by fork.  Nothing in the repository is touched."""
import os, sys, json, runpy

repo = os.environ.get("VERIF_REPO", "/repo")
if os.environ.get("ABLAB_ISOQUANT_VERIF") != "1":
    sys.stderr.write("c10_seed: ABLAB_ISOQUANT_VERIF=1 is required\n"); sys.exit(2)
sys.path.insert(0, repo)
seed = json.loads(os.environ.get("C10_SEED", "{}"))
from src.graph_based_model_construction import GraphBasedModelConstructor
from src.isoform_assignment import ReadAssignment
from src.gene_info import FeatureInfo
from src.multimap_resolver import MultimapResolver
GraphBasedModelConstructor.detected_known_isoforms.update(seed.get("detected", []))
ReadAssignment.assignment_id_generator.value = int(seed.get("assignment_counter", 0))
FeatureInfo.feature_id_counter.value = int(seed.get("feature_counter", 0))
MultimapResolver.duplicate_counter = int(seed.get("duplicate_counter", 0))
script = os.path.join(repo, "isoquant.py")
sys.argv[0] = script
runpy.run_path(script, run_name="__main__")
