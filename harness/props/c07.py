"""C07 — resuming an interrupted run yields the outputs of an uninterrupted run.

1. theorems (coq/Resume.v, coq/ResumeProgram.v, coq/props/C07.v)
2. trace correspondence: harness/c07_wrapper.py logs every file-system mutation of a clean run of the real pipeline (with the files that
   are open at that moment); Coq checks that this IS `ticks cfg`, the mutation trace of the model's program generated from the
   chromosome list and the output layout of the configuration
3. fault enumeration: kill the real run before / right after the k-th mutation, run `--resume` in the same directory, compare
   every final file with the clean run; Coq checks that the outcome {identical, fails, different} is `outcome_of cfg k after`
"""
import os, sys, json, re, gzip, shutil, hashlib, time, collections
from concurrent.futures import ThreadPoolExecutor
from lib import *
import pipeline as P

WRAP = os.path.join(VERIF, "harness", "c07_wrapper.py")
PREFIX = "OUT"
KEY_MERGE = "C07:crash-after-first-part-removal"
KEY_CLEANUP = "C07:cleanup-removes-data-before-lock"
KEY_LOCK_OPEN = "C07:lock-created-before-close"
KEY_STALE = "C07:stale-locks-trusted-after-killed-fresh-start"
# output kinds, numbered as in coq/ResumeProgram.v (gen_cfg): <prefix>.<kind> is the final file, <prefix>_<chr>.<kind> the per-chromosome part
KINDS = ["corrected_reads.bed", "read_assignments.tsv",
         "gene_counts.tsv", "gene_counts.tsv.stats", "gene_tpm.tsv", "transcript_counts.tsv", "transcript_counts.tsv.stats", "transcript_tpm.tsv",
         "transcript_model_counts.tsv", "transcript_model_counts.tsv.stats", "transcript_model_tpm.tsv",
         "gene_grouped_counts.tsv", "gene_grouped_counts_linear.tsv", "gene_grouped_tpm.tsv",
         "transcript_grouped_counts.tsv", "transcript_grouped_counts_linear.tsv", "transcript_grouped_tpm.tsv",
         "transcript_model_grouped_counts.tsv", "transcript_model_grouped_counts_linear.tsv", "transcript_model_grouped_tpm.tsv",
         "transcript_models.gtf", "transcript_model_reads.tsv", "extended_annotation.gtf"]


# ------------------------------------------------------------------ inputs
def make_bundled(d):
    b = P.bundled(d)
    for f in ("chr9.4M.Illumina.bam", "chr9.4M.Illumina.bam.bai"): os.remove(os.path.join(d, f))
    return dict(fasta="chr9.4M.fa.gz", gtf="chr9.4M.gtf.gz", bam="chr9.4M.ont.sim.polya.bam", groups="chr9.4M.ont.sim.read_groups.tsv")


def make_synthetic(d, seed, n_chr):
    import gen_data
    w = gen_data.World(seed, n_chr=n_chr, chr_len=(30000, 60000), genes_per_chr=(2, 3))
    w.reads_from_annotation(per_isoform=3); w.novel_reads(per_gene=4)
    have = set(r["chr"] for r in w.reads)
    assert have == set(w.chroms), "every chromosome needs reads"
    w.write(d)
    with open(os.path.join(d, "groups.tsv"), "w") as f:
        for i, r in enumerate(w.reads): f.write("%s\tg%d\n" % (r["name"], i % 3))
    return dict(fasta="genome.fa", gtf="annotation.gtf", bam="reads0.bam", groups="groups.tsv")


class Config:
    def __init__(self, name, data, genedb=True, groups=None, keep_tmp=False, threads=None, seed=0, n_chr=1, pooled=False, glob_order=None, reuse=False, relative=False, extra=()):
        self.name, self.data, self.genedb, self.groups, self.keep_tmp, self.threads, self.seed, self.n_chr = name, data, genedb, groups, keep_tmp, threads, seed, n_chr
        self.glob_order = glob_order      # order in which glob.glob lists the temporary files for the clean-up (None: lexicographic)
        self.relative = relative          # inputs given as RELATIVE paths (two-field `file:FILE` form for the read groups); --resume is issued from another directory
        self.extra = list(extra)          # further command-line options
        self.reuse = reuse                # the run under test is `--read_assignments <saves of an earlier --keep_tmp run>`; every run gets its own copy of the saves
        self.sample = PREFIX + "0" if reuse else PREFIX          # name of the sample directory and of the output files
        self.pooled = pooled      # several chromosomes on several worker processes: the interleaving is not deterministic, no model correspondence

    def prepare(self, root):
        self.src = os.path.join(root, "data_" + self.name)
        self.files = make_bundled(self.src) if self.data == "bundled" else make_synthetic(self.src, self.seed, self.n_chr)
        L = P.fasta_lengths(os.path.join(self.src, self.files["fasta"]))
        self.chr_names = sorted(L.keys(), key=lambda x: L[x], reverse=True)              # DatasetProcessor.get_chr_list
        import pysam
        with pysam.AlignmentFile(os.path.join(self.src, self.files["bam"]), "rb") as bf: self.bam_refs = list(bf.references)
        if self.reuse:                    # the saving run: same options, --bam, --keep_tmp (unwrapped, private HOME)
            keep = os.path.join(root, "saving_run_" + self.name)
            a = ["--reference", os.path.join(self.src, self.files["fasta"])] + (["--genedb", os.path.join(self.src, self.files["gtf"]), "--complete_genedb"] if self.genedb else []) + \
                ["--bam", os.path.join(self.src, self.files["bam"]), "--data_type", "nanopore", "-p", PREFIX, "--keep_tmp"] + (["--threads", str(self.threads)] if self.threads else [])
            rc, log = P.run_isoquant(keep, a)
            if rc != 0: raise RuntimeError("the saving --keep_tmp run failed: " + log[-800:])
            self.saves_src = os.path.join(root, "saves_" + self.name); shutil.copytree(os.path.join(keep, PREFIX, "aux"), self.saves_src)
            for f in os.listdir(self.src):            # index files written next to the reference by the saving run: keep the inputs pristine
                if f.endswith((".fai", ".gzi")): os.remove(os.path.join(self.src, f))
            shutil.rmtree(keep, ignore_errors=True); shutil.rmtree(os.path.join(root, "home_saving_run_" + self.name), ignore_errors=True)

    def args(self, d):
        if self.relative: return self._args("")
        return self._args(d)

    def _args(self, d):
        a = ["--reference", os.path.join(d, self.files["fasta"])]
        if self.genedb: a += ["--genedb", os.path.join(d, self.files["gtf"]), "--complete_genedb"]
        a += (["--read_assignments", os.path.join(os.path.dirname(d), "saves", PREFIX + ".save")] if self.reuse else ["--bam", os.path.join(d, self.files["bam"])]) + ["--data_type", "nanopore", "-p", PREFIX]
        if self.groups == "file": a += ["--read_group", "file:" + os.path.join(d, self.files["groups"])]
        elif self.groups == "tag": a += ["--read_group", "tag:RG"]
        if self.keep_tmp: a.append("--keep_tmp")
        if self.threads: a += ["--threads", str(self.threads)]
        return a + self.extra

    def describe(self):
        return dict(config=self.name, data=self.data if self.data == "bundled" else "gen_data.World(seed=%d, n_chr=%d)" % (self.seed, self.n_chr), genedb=self.genedb,
                    read_group=self.groups, keep_tmp=self.keep_tmp, threads=self.threads or "default", glob_order=self.glob_order or "sorted", extra_options=self.extra,
                    paths="relative to the working directory of the first invocation; --resume -o <absolute output dir> is issued from another directory that holds a decoy read-group table of the same name" if self.relative else "absolute",
                    mode="--read_assignments <private copy of aux/OUT.save* of a --keep_tmp run with the same options>" if self.reuse else "--bam")

    # ---- the output layout of this configuration (ReadAssignmentAggregator / GFFPrinter / merge_* in source order) ----
    def layout(self):
        """creation / dumps / merges as Coq terms over the fixed numbering KINDS (the same numbering as gen_cfg in coq/ResumeProgram.v)"""
        K = KINDS.index
        models = True; grouped = self.groups is not None
        def counter(name, g):   # (counts, stats|linear, tpm)
            return (K(name + "_counts.tsv"), K(name + "_counts_linear.tsv") if g else K(name + "_counts.tsv.stats"), K(name + "_tpm.tsv"), g)
        creation = [("COpen", K("corrected_reads.bed"))]
        if self.genedb: creation.append(("COpen", K("read_assignments.tsv")))
        glob_c = []; model_c = []
        if self.genedb:
            glob_c += [counter("gene", False), counter("transcript", False)]
            creation += [("CTouch", glob_c[0][0]), ("CTouch", glob_c[1][0])]
        if models:
            model_c.append(counter("transcript_model", False)); creation.append(("CTouch", model_c[0][0]))
        if grouped and self.genedb:
            for n in ("gene_grouped", "transcript_grouped"):
                c = counter(n, True); glob_c.append(c); creation += [("CTouch", c[0]), ("CTouch", c[1])]
        if grouped and models:
            c = counter("transcript_model_grouped", True); model_c.append(c); creation += [("CTouch", c[0]), ("CTouch", c[1])]
        gff = []
        if models:
            gff = [K("transcript_models.gtf"), K("transcript_model_reads.tsv")]
            creation += [("COpen", gff[0]), ("COpen", gff[1])]
            if self.genedb: creation.append(("COpen", K("extended_annotation.gtf")))
        dcount = lambda c: "DCounterG %d %d" % (c[0], c[1]) if c[3] else "DCounterU %d %d" % (c[0], c[1])
        mcount = lambda c: ("MCounterG %d %d %d" if c[3] else "MCounterU %d %d %d") % (c[0], c[1], c[2])
        dumps = [dcount(c) for c in glob_c] + ["DReadStat"] + ([dcount(c) for c in model_c] + ["DTrStat"] if models else [])
        merges = []
        if models:
            merges += ["MPrinter %d" % gff[0], "MPrinter %d" % gff[1]] + [mcount(c) for c in model_c]
            if self.genedb: merges.append("MPrinter %d" % K("extended_annotation.gtf"))
        if self.genedb: merges.append("MPrinter %d" % K("read_assignments.tsv"))
        merges.append("MPrinter %d" % K("corrected_reads.bed"))
        merges += [mcount(c) for c in glob_c]
        return KINDS, ["%s %d" % c for c in creation], dumps, merges, models


# ------------------------------------------------------------------ names: real path -> fname term of the model
class Names:
    def __init__(self, cfg, d):
        S = cfg.sample
        self.cfg = cfg; out = os.path.join(d, "out"); sd = os.path.join(out, S); aux = os.path.join(sd, "aux")
        self.sample_dir = sd; self.kinds = cfg.layout()[0]
        m = {}
        chrs = cfg.chr_names; self.cidx = {c: i for i, c in enumerate(chrs)}
        # with --read_assignments the save files and everything named after them live next to the supplied prefix
        save = os.path.join(d, "saves", PREFIX + ".save") if cfg.reuse else os.path.join(aux, S + ".save"); rg = os.path.join(aux, S + ".read_group")
        m[rg + "_lock"] = "RGLock"; m[save + "_info"] = "Info"; m[save + "_lock"] = "SaveLock"
        self.rg_ids = []
        for j, r in enumerate(cfg.bam_refs):
            rid = self.cidx[r] if r in self.cidx else 1000 + j
            self.rg_ids.append(rid); m.setdefault(rg + "_" + r, "(RGPart %d)" % rid)
        for c, i in self.cidx.items():
            for suf, con in (("", "Save"), ("_groups", "Groups"), ("_bamstat", "Bamstat"), ("_collected", "Collected"), ("_read_stat", "ReadStat"),
                             ("_transcript_stat", "TrStat"), ("_processed", "Processed")):
                m.setdefault("%s_%s%s" % (save, c, suf), "(%s %d)" % (con, i))
            m.setdefault("%s_multimappers_%s" % (save, c), "(Multi %d)" % i)
            for k, suf in enumerate(self.kinds):
                m.setdefault(os.path.join(sd, "%s_%s.%s" % (S, c, suf)), "(Part %d %d)" % (k, i))
        for k, suf in enumerate(self.kinds):
            m[os.path.join(sd, "%s.%s" % (S, suf))] = "(Final %d)" % k
            m[os.path.join(sd, "%s.%s.gz" % (S, suf))] = "(Final %d)" % k
        self.m = m; self.ext = {}; self.d = d

    def term(self, path):
        if path in self.m: return self.m[path]
        key = path if path.startswith(self.d + os.sep) else "<tmp>" if path.startswith("/tmp") else path
        if key not in self.ext: self.ext[key] = len(self.ext)
        return "(Ext %d)" % self.ext[key]

    def modelled(self, path): return path in self.m

    def merge_order(self):
        # merge_files sorts the per-chromosome names naturally (same key function)
        names = {c: "%s_%s.x" % (PREFIX, c) for c in self.cfg.chr_names}
        key = lambda s: [int(t) if t.isdigit() else t.lower() for t in re.split(r'(\d+)', s)]
        return [self.cidx[c] for c in sorted(self.cfg.chr_names, key=lambda c: key(names[c]))]


OPK = {"w": 0, "x": 0, "+": 0, "a": 1}
def convert_trace(tr, names):
    """logged records -> [(kind, fname term, [open fname terms]), ...] with the open set made global (see module docstring of the wrapper):
       own open handles + those of every other process as logged at that process's next mutation"""
    by_pid_next = collections.defaultdict(list)          # pid -> list of (n, open)
    for r in tr: by_pid_next[r["pid"]].append((r["n"], r["open"]))
    out = []
    for r in tr:
        opn = list(r["open"])
        for pid, lst in by_pid_next.items():
            if pid == r["pid"]: continue
            nxt = [o for n, o in lst if n > r["n"]]
            if nxt: opn += nxt[0]
        kind = OPK[r["mode"]] if r["op"] == "open" else 2 if r["op"] == "remove" else 3
        t = names.term(r["path"])
        if t.startswith("(Ext"): kind = 3
        out.append((kind, t, [names.term(p) for p in opn if names.modelled(p)]))
    return out


def ctick(t): return "(%d, %s, %s)" % (t[0], t[1], clist(t[2]) if t[2] else "(@nil fname)")


def coq_cfg(cfg, names, ticks, variant):
    kinds, creation, dumps, merges, models = cfg.layout()
    setup = [int(t[1][5:-1]) for t in ticks if t[0] == 3]
    # the clean-up: the trailing removals of auxiliary files
    cleanup = []
    for t in reversed(ticks):
        if t[0] == 2 and not t[1].startswith(("(Part", "(Final", "(Ext")): cleanup.append(t[1])
        else: break
    cleanup.reverse()
    L = lambda l: clist(l) if l else "[]"
    return "(mkcfg %s %s %s %s %s %s %s %s %s %s %s %s %s %s)" % (
        L(["%d" % x for x in setup]), L(["%d" % r for r in names.rg_ids] if cfg.groups == "file" else []), cbool(cfg.groups == "file"),
        L(["%d" % i for i in range(len(cfg.chr_names))]), L(["%d" % i for i in names.merge_order()]),
        L(creation), L(dumps), L(merges), cbool(models), cbool(cfg.keep_tmp), "(%s : list fname)" % L([] if cfg.reuse else cleanup), cbool(variant["fix_close"]), cbool(variant["fix_proc"]), cbool(cfg.reuse)), cleanup


def detect_variant(ticks):
    """which protocol the checked-out code follows, read off the clean trace (the trace correspondence then validates the whole program)"""
    fix_close = True; first_part_rm = None; proc_rm = []
    for i, t in enumerate(ticks):
        if t[0] == 0 and t[1].startswith("(Collected") and any(o.startswith("(Save") for o in t[2]): fix_close = False
        if t[0] == 0 and t[1].startswith("(Processed") and any(o.startswith("(Part") for o in t[2]): fix_close = False
        if t[0] == 2 and t[1].startswith("(Part") and first_part_rm is None: first_part_rm = i
        if t[0] == 2 and t[1].startswith("(Processed"): proc_rm.append(i)
    fix_proc = bool(proc_rm) and first_part_rm is not None and max(proc_rm) < first_part_rm
    return dict(fix_close=fix_close, fix_proc=fix_proc)


# ------------------------------------------------------------------ running
def read_trace(path):
    return [json.loads(l) for l in open(path)] if os.path.exists(path) else []


def finals(outdir, sample=PREFIX):
    """name -> digest of the content without the command-line header (gz files decompressed)"""
    d = os.path.join(outdir, sample); res = {}
    if not os.path.isdir(d): return res
    for f in sorted(os.listdir(d)):
        p = os.path.join(d, f)
        if not os.path.isfile(p): continue
        try:
            data = gzip.open(p, "rb").read() if f.endswith(".gz") else open(p, "rb").read()
        except Exception as e:
            res[f] = "unreadable:" + type(e).__name__; continue
        lines = [l for l in data.split(b"\n") if not l.startswith(b"# Command line:")]
        res[f] = "%s:%d" % (hashlib.sha1(b"\n".join(lines)).hexdigest()[:16], len(lines))
    return res


def run_iq(outdir, args, home, env_extra, cwd, timeout=900):
    """pipeline.run_isoquant with a working directory of our choice"""
    import subprocess
    os.makedirs(home, exist_ok=True)
    env = dict(os.environ)
    env.update(HOME=home, PYTHONPATH=REPO + os.pathsep + os.path.join(VERIF, "harness"), PYTHONHASHSEED="0", PYTHONDONTWRITEBYTECODE="1", OMP_NUM_THREADS="1", OPENBLAS_NUM_THREADS="1")
    env.update(env_extra)
    try:
        p = subprocess.run([PY, WRAP, "-o", outdir] + list(args), stdout=subprocess.PIPE, stderr=subprocess.STDOUT, text=True, timeout=timeout, env=env, cwd=cwd)
        return p.returncode, p.stdout
    except Exception as ex:                              # a hanging run is a failure of that run, not of the check
        return 998, "harness: %s" % type(ex).__name__


def invoke(cfg, d, env, resume=False, args=None, trace=None):
    out = os.path.join(d, "out"); home = os.path.join(d, "home")
    e = dict(env, ABLAB_ISOQUANT_VERIF="1", C07_TRACE=os.path.join(d, trace or ("resume.trace" if resume else "run.trace")))
    if cfg.glob_order: e["C07_GLOB_ORDER"] = cfg.glob_order
    cwd = d
    if cfg.relative:
        cwd = os.path.join(d, "data")
        if resume:                                       # another directory, with an unrelated table of the same name
            cwd = os.path.join(d, "elsewhere"); os.makedirs(cwd, exist_ok=True)
            with open(os.path.join(cwd, cfg.files["groups"]), "w") as f:
                for l in open(os.path.join(d, "data", cfg.files["groups"])): f.write(l.split("\t")[0] + "\tOTHER_PROJECT\n")
    return run_iq(out, (["--resume"] if resume else cfg.args(os.path.join(d, "data"))) if args is None else args, home, e, cwd)


def clean_run(cfg, root, env):
    d = os.path.join(root, "clean_" + cfg.name); os.makedirs(d)
    shutil.copytree(cfg.src, os.path.join(d, "data"))
    if cfg.reuse: shutil.copytree(cfg.saves_src, os.path.join(d, "saves"))
    rc, log = invoke(cfg, d, env)
    tr = read_trace(os.path.join(d, "run.trace")); fin = finals(os.path.join(d, "out"), cfg.sample)
    return rc, log, tr, fin, d


def crash_point(cfg, root, env, k, when, clean_finals):
    d = os.path.join(root, "%s_%d_%s" % (cfg.name, k, when)); os.makedirs(d)
    try:
        shutil.copytree(cfg.src, os.path.join(d, "data"))
        if cfg.reuse: shutil.copytree(cfg.saves_src, os.path.join(d, "saves"))
        rc1, log1 = invoke(cfg, d, dict(env, C07_CRASH_AT=str(k), C07_CRASH_WHEN=when))
        ctr = read_trace(os.path.join(d, "run.trace")); ntr = len(ctr)
        prefix = convert_trace(ctr, Names(cfg, d)) if cfg.pooled else None
        rc2, log2 = invoke(cfg, d, env, resume=True)
        fin = finals(os.path.join(d, "out"), cfg.sample)
        # per-chromosome parts left behind are no final outputs; everything the clean run produced must be there and equal
        diff = sorted(f for f in clean_finals if fin.get(f) != clean_finals[f])
        extra = sorted(f for f in fin if f not in clean_finals)
        cls = "fails" if rc2 != 0 else "identical" if not diff else "different"
        err = [l.strip() for l in log2.splitlines() if re.search(r"Error|error|Traceback|assert", l)][-3:]
        return dict(config=cfg.name, k=k, when=when, rc_crash=rc1, crash_trace_len=ntr, rc_resume=rc2, outcome=cls, differing=diff[:6], leftover=extra[:6], resume_error=err,
                    prefix=prefix, last_file=ctr[k - 1]["path"].split(os.sep + "out" + os.sep)[-1] if len(ctr) >= k else None)
    finally:
        shutil.rmtree(d, ignore_errors=True)


# ------------------------------------------------------------------ structural keys, computed from the clean trace only
def classify_failure(executed, last):
    """the window a failing crash point lies in, from the mutations that were executed before the kill (`executed`) and the mutation
       that was executed last when the kill came right after it (`last`, else None)"""
    removed = set(); present = set()
    for t in executed:
        if t[0] in (0, 1): present.add(t[1]); removed.discard(t[1])
        elif t[0] == 2: present.discard(t[1]); removed.add(t[1])
    # the first per-chromosome file is gone while a _processed lock still makes stage 2 skip its regeneration
    if any(r.startswith("(Part") for r in removed) and any(l.startswith("(Processed") for l in present):
        return KEY_MERGE
    # clean-up: a lock is still there although a file it vouches for has been removed
    def idx(t): return t[t.index(" ") + 1:-1]
    for l in present:
        if l.startswith("(Collected") and any(("(%s %s)" % (c, idx(l))) in removed for c in ("Save", "Groups", "Bamstat")): return KEY_CLEANUP
        if l == "SaveLock" and ("Info" in removed or any(r.startswith(("(Multi", "(Save")) for r in removed)): return KEY_CLEANUP
        if l == "RGLock" and any(r.startswith("(RGPart") for r in removed): return KEY_CLEANUP
    if last is not None:
        if last[0] == 0 and last[1].startswith("(Collected") and any(o.startswith("(Save") for o in last[2]): return KEY_LOCK_OPEN
        if last[0] == 0 and last[1].startswith("(Processed") and any(o.startswith("(Part") for o in last[2]): return KEY_LOCK_OPEN
    return None


def is_lockish(t): return t[1] in ("RGLock", "SaveLock") or t[1].startswith(("(Collected", "(Processed"))


def sample_points(ticks, first, quota, rnd, modelled_after):
    """all points when they fit the quota; otherwise ALWAYS: right after every lock creation, right before and after the first removal of a
       per-chromosome file, a few points spread over the merge phase (some parts merged and removed, others not), the first and the last removal
       of the clean-up; then the neighbourhood of lock creations / removals and phase borders, then random others"""
    n = len(ticks); allp = [(k, w) for k in range(first, n + 1) for w in ("before", "after") if w == "before" or modelled_after(k)]
    if len(allp) <= quota: return allp
    must = set(); hot = set()
    part_rm = [i + 1 for i, t in enumerate(ticks) if t[0] == 2 and t[1].startswith("(Part")]
    for i, t in enumerate(ticks):
        k = i + 1
        if t[0] == 0 and is_lockish(t): must.add((k, "after"))
        if t[1] == "RGLock" or (t[1].startswith("(RGPart") and t[0] == 0 and sum(1 for x in ticks[:i] if x[1].startswith("(RGPart")) < 2): must.update([(k, "before"), (k + 1, "before")])
        if is_lockish(t) or t[1] == "Info" or (t[0] == 2 and (i == 0 or ticks[i - 1][0] != 2)) or (t[0] != 2 and i > 0 and ticks[i - 1][0] == 2):
            hot.update([k - 1, k, k + 1])
    if part_rm:
        a, b = part_rm[0], part_rm[-1]
        must.update([(a, "before"), (a, "after"), (a + 1, "before"), (b, "before"), (b, "after")])
        must.update(((a + (b - a) * j // 4), "before") for j in (1, 2, 3))
    aux_rm = [i + 1 for i, t in enumerate(ticks) if t[0] == 2 and not t[1].startswith(("(Part", "(Ext"))]
    if aux_rm: must.update([(aux_rm[0], "after"), (aux_rm[-1], "before")])
    must = [p for p in allp if p in must]
    hotp = [p for p in allp if p[0] in hot and p not in set(must)]
    rnd.shuffle(hotp); hotp = hotp[:max((quota - len(must)) * 2 // 3, 0)]
    rest = [p for p in allp if p not in set(hotp) and p not in set(must)]; rnd.shuffle(rest)
    return sorted(must + hotp + rest[:max(quota - len(must) - len(hotp), 0)])



# ------------------------------------------------------------------ histories: leftovers of a killed earlier run, kills inside the sqlite conversion
DB_PHASES = ["before", "tables", "populated", "relations", "after"]
RUN2_OPTIONS = ["--force", "--transcript_quantification", "all", "--gene_quantification", "all"]


def n_trace(d, name): return len(read_trace(os.path.join(d, name)))


def history_point(cfg1, cfg2, root, env, k1, when1, k2, when2, clean2, tag):
    """run 1 (cfg1) killed at (k1, when1); the SAME output folder re-used by run 2 (cfg2 = other options, --force), killed at (k2, when2) of ITS OWN
       mutation count (None: not killed); then --resume.  Finals must be those of an uninterrupted run 2 in a fresh folder."""
    d = os.path.join(root, "hist_%s_%d%s_%s%s" % (tag, k1, when1[0], k2, (when2 or "x")[0])); os.makedirs(d)
    try:
        shutil.copytree(cfg2.src, os.path.join(d, "data"))
        rc1, _ = invoke(cfg1, d, dict(env, C07_CRASH_AT=str(k1), C07_CRASH_WHEN=when1), trace="run1.trace")
        left = sorted(os.listdir(os.path.join(d, "out", cfg1.sample, "aux"))) if os.path.isdir(os.path.join(d, "out", cfg1.sample, "aux")) else []
        e2 = dict(env) if k2 is None else dict(env, C07_CRASH_AT=str(k2), C07_CRASH_WHEN=when2)
        rc2, log2 = invoke(cfg2, d, e2, trace="run2.trace")
        tr2 = read_trace(os.path.join(d, "run2.trace")); n2 = len(tr2)
        pk2 = ([r["n"] for r in tr2 if r["path"].endswith(os.sep + ".params")] or [0])[0]
        saves = set("%s.save_%s" % (cfg2.sample, c) for c in cfg2.chr_names)
        started = any(r["op"] == "open" and os.path.basename(r["path"]) in saves for r in tr2)        # run 2 had begun to collect reads itself
        marks = [([r["n"] for r in tr2 if r["op"] == "open" and f(os.path.basename(r["path"]))] or [0])[0]
                 for f in (lambda b: b in saves, lambda b: b.endswith(".save_lock"), lambda b: b.startswith(cfg2.sample + "_"))]
        res = dict(scenario="leftovers of a killed run, then --force run with other options, then --resume", run1=cfg1.describe(), run1_killed="%s mutation %d" % (when1, k1), rc_run1=rc1,
                   leftovers_of_run1=[x for x in left if x.endswith(("_lock", "_collected", "_processed"))], run2_options=cfg2.extra,
                   run2_killed=None if k2 is None else "%s mutation %d (of this run's own count)" % (when2, k2), rc_run2=rc2, run2_mutations_logged=n2, run2_params_written_at=pk2, run2_had_started_read_collection=started, run2_marks=marks,
                   replay=dict(scenario="history", k1=k1, when1=when1, k2=k2, when2=when2))
        if k2 is None:
            rc3 = rc2; log3 = log2
        elif rc2 == 0:
            res["outcome"] = "run 2 finished before the kill point"; res["past_end"] = True; return res
        else:
            rc3, log3 = invoke(cfg2, d, env, resume=True)
        fin = finals(os.path.join(d, "out"), cfg2.sample)
        diff = sorted(f for f in clean2 if fin.get(f) != clean2[f])
        res.update(rc_last=rc3, outcome="fails" if rc3 != 0 else "identical" if not diff else "different", differing_finals=diff[:6],
                   error=[l.strip() for l in log3.splitlines() if re.search(r"Error|Traceback|assert", l)][-2:])
        return res
    finally:
        shutil.rmtree(d, ignore_errors=True)


def db_kill_point(cfg, root, env, phase, clean_fin):
    d = os.path.join(root, "dbkill_%s_%s" % (cfg.name, phase)); os.makedirs(d)
    try:
        shutil.copytree(cfg.src, os.path.join(d, "data"))
        rc1, _ = invoke(cfg, d, dict(env, C07_DB_KILL=phase))
        dbs = [f for f in os.listdir(os.path.join(d, "out")) if f.endswith(".db")] if os.path.isdir(os.path.join(d, "out")) else []
        rc2, log2 = invoke(cfg, d, env, resume=True)
        fin = finals(os.path.join(d, "out"), cfg.sample); diff = sorted(f for f in clean_fin if fin.get(f) != clean_fin[f])
        return dict(scenario="kill inside the GTF -> sqlite conversion (gffutils.create_db), then --resume", config=cfg.describe(), killed_at_phase=phase, rc_crash=rc1,
                    db_files_left=dbs, rc_resume=rc2, outcome="fails" if rc2 != 0 else "identical" if not diff else "different", differing_finals=diff[:6],
                    error=[l.strip() for l in log2.splitlines() if re.search(r"Error|Traceback|assert", l)][-2:], replay=dict(scenario="dbkill", phase=phase))
    finally:
        shutil.rmtree(d, ignore_errors=True)


def histories(ctx, root, env, quick, only=None):
    yield_list = []
    """returns the list of result records of the multi-step histories and of the conversion-phase kills"""
    cfg1 = Config("hist_run1", "bundled"); cfg2 = Config("hist_run2", "bundled", extra=RUN2_OPTIONS)
    cfg1.prepare(root); cfg2.src, cfg2.files, cfg2.chr_names, cfg2.bam_refs = cfg1.src, cfg1.files, cfg1.chr_names, cfg1.bam_refs
    rc, log, tr1, fin1, d1 = clean_run(cfg1, root, env); shutil.rmtree(d1, ignore_errors=True)
    rc2, log2, tr2, clean2, d2 = clean_run(cfg2, root, env); shutil.rmtree(d2, ignore_errors=True)
    ctx.cov["pipeline_runs"] += 2
    if rc != 0 or rc2 != 0 or fin1 == clean2:
        ctx.broken("pipeline:histories", "clean runs of the history scenario: exit %d / %d, outputs of the two option sets %s" % (rc, rc2, "do not differ" if fin1 == clean2 else "differ")); return []
    names = Names(cfg1, d1); t1 = convert_trace(tr1, names)
    proc = [i + 1 for i, t in enumerate(t1) if t[0] == 0 and t[1].startswith("(Processed")]
    part_rm = [i + 1 for i, t in enumerate(t1) if t[0] == 2 and t[1].startswith("(Part")]
    coll = [i + 1 for i, t in enumerate(t1) if t[0] == 0 and t[1].startswith("(Collected")]
    # run 1 is killed: with all stage locks present and nothing merged yet / in the middle of merging / in stage 1
    proc_rm = [i + 1 for i, t in enumerate(t1) if t[0] == 2 and t[1].startswith("(Processed")]
    end_stage2 = min(proc_rm + part_rm)                   # every stage lock of run 1 exists, its per-chromosome files are complete, nothing is merged
    k1s = [(end_stage2, "before"), (part_rm[len(part_rm) // 2], "before")] + ([] if quick else [(coll[0], "after"), (proc[0], "after"), (len(t1) - 3, "before")])
    jobs = []
    for k1, w1 in k1s:
        if only and only.get("scenario") == "history":
            if (k1, w1) == (only["k1"], only["when1"]): jobs.append(("h", k1, w1, only["k2"], only["when2"]))
            continue
        # uninterrupted run 2 over the leftovers gives this history's mutation count
        r = history_point(cfg1, cfg2, root, env, k1, w1, None, None, clean2, "n"); ctx.cov["pipeline_runs"] += 2
        yield_list.append(r)
        n2 = r["run2_mutations_logged"]; pk = r["run2_params_written_at"]
        pts = [(k, w) for k in range(pk + 1, n2 + 1) for w in ("before", "after")]
        if quick:
            early = [p for p in pts if p[0] <= pk + 26]; ctx.rnd.shuffle(early); late = [p for p in pts if p[0] > pk + 26]; ctx.rnd.shuffle(late)
            m = r["run2_marks"]        # first open of a save file, creation of save_lock, first per-chromosome output of stage 2
            pts = list(dict.fromkeys([(pk + 1, "before"), (pk + 2, "before")] + [(m[0] + 1, "before"), (m[1], "after"), (m[2] + 1, "before")] + early[:5] + late[:2]))
            pts = [p_ for p_ in pts if pk < p_[0] <= n2]
        jobs += [("h", k1, w1, k, w) for k, w in pts]
    bund = Config("bundled_dbkill", "bundled"); bund.src, bund.files, bund.chr_names, bund.bam_refs = cfg1.src, cfg1.files, cfg1.chr_names, cfg1.bam_refs
    for ph in DB_PHASES:
        if only and not (only.get("scenario") == "dbkill" and only["phase"] == ph): continue
        jobs.append(("d", ph))
    def do(j):
        if j[0] == "h": return history_point(cfg1, cfg2, root, env, j[1], j[2], j[3], j[4], clean2, "p")
        return db_kill_point(bund, root, env, j[1], fin1)
    with ThreadPoolExecutor(NPROC) as ex: out = list(ex.map(do, jobs))
    ctx.cov["pipeline_runs"] += 3 * len(jobs)
    return yield_list + out


PRE = r"""From IQ Require Import Resume ResumeProgram.
Open Scope N_scope.
Definition dflt := mkcfg [] [] false [] [] [] [] [] false false [] false false false.
Definition cfgs : list cfg := [
CFGS].
Definition the (i:nat) := nth i cfgs dflt.
"""
PRE_TRACE = PRE + r"""Definition check (c : nat * list (N * fname * list fname)) : bool := ticks_eqb (ticks (the (fst c))) (snd c) && cleanup_ok (the (fst c)).
Definition prop (c : nat * list (N * fname * list fname)) : bool := true.
"""
PRE_OUT = PRE + r"""Definition check (c : nat * nat * bool * outcome) : bool := let '(i, k, a, o) := c in outcome_eqb (outcome_of (the i) k a) o.
Definition prop (c : nat * nat * bool * outcome) : bool := true.
"""
OUTC = {"identical": "Identical", "fails": "Fails", "different": "Differs"}


def coq_eval(ctx, preamble, expr, timeout=300):
    """diagnostics only: evaluate one expression, return coqc's text"""
    f = os.path.join(ctx.scratch, "diag_%d.v" % int(time.time() * 1000)); open(f, "w").write("From IQ Require Import CorrSupport.\n" + preamble + "\nEval vm_compute in (%s).\n" % expr)
    rc, out = sh(["timeout", str(timeout), "coqc", "-Q", COQ, "IQ", f], timeout=timeout + 30)
    return out[-3000:]


def configs(ctx, quick):
    cs = [Config("bundled", "bundled"),
          Config("bundled_groups", "bundled", groups="file"),
          Config("bundled_keep_tmp", "bundled", keep_tmp=True),
          Config("bundled_no_annotation", "bundled", genedb=False),
          Config("syn3_groups", "syn", groups="file", threads=1, seed=ctx.seed + 6, n_chr=3),
          Config("syn2_tag_keep_tmp", "syn", groups="tag", keep_tmp=True, threads=1, seed=ctx.seed + 11, n_chr=2),
          Config("syn3_pool", "syn", groups="file", threads=3, seed=ctx.seed + 6, n_chr=3, pooled=True),
          Config("bundled_glob_reverse", "bundled", glob_order="reverse"),
          Config("syn2_glob_locks_last", "syn", groups="file", threads=1, seed=ctx.seed + 11, n_chr=2, glob_order="locks_last"),
          Config("bundled_reuse", "bundled", reuse=True),
          Config("syn3_reuse", "syn", threads=1, seed=ctx.seed + 6, n_chr=3, reuse=True),
          Config("syn2_relative_paths", "syn", groups="file", threads=1, seed=ctx.seed + 11, n_chr=2, relative=True)]
    quota = {"bundled": 10 ** 6, "bundled_groups": 24 if quick else 10 ** 6, "bundled_keep_tmp": 16 if quick else 10 ** 6, "bundled_no_annotation": 16 if quick else 10 ** 6,
             "syn3_groups": 60 if quick else 10 ** 6, "syn2_tag_keep_tmp": 24 if quick else 10 ** 6, "syn3_pool": 16 if quick else 160,
             "bundled_glob_reverse": 16 if quick else 10 ** 6, "syn2_glob_locks_last": 16 if quick else 10 ** 6,
             "bundled_reuse": 30 if quick else 10 ** 6, "syn3_reuse": 24 if quick else 10 ** 6, "syn2_relative_paths": 24 if quick else 10 ** 6}
    return cs, quota


def run(ctx, only=None):
    quick = ctx.tier == "quick"
    ctx.prepare("C07.v")
    root = P.scratch("iqc07_")
    env = {"C07_GLOB_ORDER": os.environ.get("C07_GLOB_ORDER", "sorted")}
    try:
        cs, quota = configs(ctx, quick)
        if only: cs = [c for c in cs if c.name == only.get("config")]
        if os.environ.get("C07_CONFIGS"): cs = [c for c in cs if c.name in os.environ["C07_CONFIGS"].split(",")]      # development aid
        for c in cs: c.prepare(root)
        # ---- clean runs: trace, finals, model configuration
        with ThreadPoolExecutor(max(1, len(cs))) as ex: cleans = list(ex.map(lambda c: clean_run(c, root, env), cs))
        ctx.cov["pipeline_runs"] += len(cs)
        infos = []; cfg_terms = []; tcases = []
        for c, (rc, log, tr, fin, d) in zip(cs, cleans):
            if rc != 0 or not tr:
                ctx.broken("pipeline:%s" % c.name, "the clean run exits %d: %s" % (rc, log[-1200:])); continue
            names = Names(c, d); ticks = convert_trace(tr, names); variant = detect_variant(ticks)
            pk = [r["n"] for r in tr if r["path"].endswith(os.sep + ".params")]
            if c.pooled: variant = "not determined (several workers interleave)"
            info = dict(cfg=c, tr=tr, ticks=ticks, fin=fin, names=names, variant=variant, idx=None, first=(pk[0] + 1) if pk else 1)
            infos.append(info)
            if not c.pooled:
                term, cleanup = coq_cfg(c, names, ticks, variant)
                info["idx"] = len(cfg_terms); cfg_terms.append(term)
                tcases.append(("(%d%%nat, %s)" % (info["idx"], clist(ticks, ctick)), dict(c.describe(), mutations=len(ticks), variant=variant)))
            shutil.rmtree(d, ignore_errors=True)
        pre = lambda p: p.replace("CFGS", ";\n".join(cfg_terms))
        if os.environ.get("C07_DUMP_CFGS"):
            with open(os.environ["C07_DUMP_CFGS"], "w") as f:
                for i, t in zip(infos, cfg_terms): f.write("(* %s %s *)\n%s\n" % (i["cfg"].name, i["variant"], t))
        mism, viol = ctx.corr("clean_trace_is_model_program", pre(PRE_TRACE), tcases, shard=1, timeout=300, ctype="nat * list (N * fname * list fname)")
        for o in mism:                                   # say where the traces part
            inf = [x for x in infos if x["cfg"].name == o["config"]][0]; i = inf["idx"]; t = inf["ticks"]
            txt = coq_eval(ctx, pre(PRE_TRACE), "let m := ticks (the %d%%nat) in let r := %s in let i := first_diff m r 1%%nat in (i, length m, length r, nth (pred i) m (0, Info, []), nth (pred i) r (0, Info, []), cleanup_ok (the %d%%nat))"
                           % (i, clist(t, ctick), i))
            o["first_difference(index, |model|, |real|, model tick, real tick, cleanup_ok)"] = re.sub(r"\s+", " ", txt[txt.find("="):])[:900]
        ctx.corr_report("clean_trace_is_model_program", mism, viol)
        bad_cfg = set(o["config"] for o in mism)
        ctx.rule("clean runs of the real pipeline under harness/c07_wrapper.py (mutation = open in a writing mode incl. gzip, os.remove, rename/replace, mkdir, shutil.move/copy; glob order fixed to "
                 "'sorted', for two configurations to reverse order / locks last): bundled chr9 data (default, --read_group file:, --keep_tmp, without --genedb; 16 threads) and gen_data.World genomes with "
                 "3 and 2 chromosomes (--threads 1, read groups from a file / from the RG tag, --keep_tmp), and for both data sets a run started with --read_assignments on a private copy of the saves of a "
                 "--keep_tmp run (its _processed locks and stage-2 statistics live next to the SUPPLIED prefix; no collection, no clean-up); the logged sequence (operation kind, file, set of files open for writing at that moment) must be `ticks cfg`, the model's program for that "
                 "chromosome list and output layout, and the clean-up list must be exactly the auxiliary files the model leaves")

        # ---- fault enumeration
        jobs = []
        for info in infos:
            c = info["cfg"]; ticks = info["ticks"]
            if only:
                pts = [(only["k"], only["when"])]
            else:
                after_ok = lambda k, info=info: info["names"].modelled(info["tr"][k - 1]["path"])
                pts = sample_points(ticks, info["first"], quota[c.name], ctx.rnd, after_ok)
            info["points"] = pts
            jobs += [(info, k, w) for k, w in pts]
        ctx.rnd.shuffle(jobs)
        t0 = time.time()
        with ThreadPoolExecutor(NPROC) as ex:
            results = list(ex.map(lambda j: (j[0], crash_point(j[0]["cfg"], root, env, j[1], j[2], j[0]["fin"])), jobs))
        ctx.cov["pipeline_runs"] += 2 * len(jobs)
        ocases = []; summary = collections.defaultdict(lambda: collections.Counter())
        for info, r in results:
            c = info["cfg"]; ticks = info["ticks"]
            want_len = r["k"] if r["when"] == "after" else r["k"] - 1
            # several workers: between the k-th mutation and the kill right after it another process may get a mutation in
            if r["rc_crash"] == 0 or (r["crash_trace_len"] < want_len if (c.pooled and r["when"] == "after") else r["crash_trace_len"] != want_len):
                r.pop("prefix", None); ctx.broken("harness:crash-injection", "the run was not killed at the requested mutation: %s" % json.dumps(r)); continue
            summary[c.name][r["outcome"]] += 1
            prefix = r.pop("prefix")
            if c.pooled:        # the k-th mutation of THIS run (the workers interleave differently every time)
                executed = prefix; last = prefix[r["k"] - 1] if (r["when"] == "after" and len(prefix) >= r["k"]) else None
                tick = last; real_file = r["last_file"] if last else None
            else:
                if c.name not in bad_cfg:
                    ocases.append(("(%d%%nat, %d%%nat, %s, %s)" % (info["idx"], r["k"], cbool(r["when"] == "after"), OUTC[r["outcome"]]), r))
                executed = ticks[:r["k"] if r["when"] == "after" else r["k"] - 1]; last = ticks[r["k"] - 1] if r["when"] == "after" else None
                tick = ticks[r["k"] - 1] if r["k"] <= len(ticks) else None
                real_file = info["tr"][r["k"] - 1]["path"].split(os.sep + "out" + os.sep)[-1] if tick else None
            rep = dict(c.describe(), crash="%s mutation %d of %d" % (r["when"], r["k"], len(ticks)), mutation="%s %s" % ({0: "open 'w'", 1: "open 'a'", 2: "remove", 3: "external"}[tick[0]], tick[1]) if tick else None,
                       real_file=real_file, then="isoquant.py --resume -o <same dir>", rc_resume=r["rc_resume"], outcome=r["outcome"],
                       differing_finals=r["differing"], resume_error=r["resume_error"], replay=dict(config=c.name, k=r["k"], when=r["when"]), code_variant=info["variant"])
            if r["outcome"] == "different":
                ctx.violation(None, "the resumed run exits 0 but final outputs differ from the uninterrupted run (truncated or missing results)", rep)
            elif r["outcome"] == "fails":
                key = classify_failure(executed, last)
                ctx.violation(key, {KEY_MERGE: "a run killed after merge_files removed the first per-chromosome file and before the last _processed lock is gone can never be resumed (--resume fails in os.remove)",
                                    KEY_CLEANUP: "a run killed during the clean-up leaves a lock whose files are already removed: --resume fails",
                                    KEY_LOCK_OPEN: "a run killed right after a lock file was created, while the files it vouches for were still open: --resume fails on the cut-off file",
                                    None: "the resumed run fails"}[key], rep)
        mism, viol = ctx.corr("crash_resume_outcome_is_model_prediction", pre(PRE_OUT), ocases, shard=max(8, len(ocases) // 48 + 1), timeout=300,
                              nontrivial=lambda o: True, ctype="nat * nat * bool * outcome")
        for o in mism[:6]:
            i = [x["idx"] for x in infos if x["cfg"].name == o["config"]][0]
            txt = coq_eval(ctx, pre(PRE_OUT), "outcome_of (the %d%%nat) %d%%nat %s" % (i, o["k"], cbool(o["when"] == "after")))
            o["model_predicts"] = re.sub(r"\s+", " ", txt[txt.find("="):])[:200]
        ctx.corr_report("crash_resume_outcome_is_model_prediction", mism, viol)
        # ---- histories in one folder and kills inside the sqlite conversion: no model prediction, the real outcome decides
        if not only or only.get("scenario"):
            t1 = time.time(); hres = [r for r in histories(ctx, root, env, quick, only) if not r.get("past_end")]
            hsum = collections.Counter((r["scenario"].split(",")[0][:40], r["outcome"]) for r in hres)
            ctx.count(evaluations=len(hres), nontrivial=len(hres), traces=len(hres))
            for r in hres:
                if r["outcome"] == "identical": continue
                # structural: run 2 died after rewriting .params and before its own start-up reached the point where collect_reads drops the locks of the earlier run
                key = KEY_STALE if (r["replay"]["scenario"] == "history" and r.get("leftovers_of_run1") and not r.get("run2_had_started_read_collection") and r["replay"]["k2"] is not None) else None
                ctx.violation(key, ("the resumed run exits 0 but final outputs differ from an uninterrupted run with the same options" if r["outcome"] == "different" else "the resumed run fails") +
                              (" (output folder held the leftovers of an earlier killed run)" if r["replay"]["scenario"] == "history" else " (run killed while the annotation was converted to sqlite)"), r)
            ctx.notes.append("histories / conversion-phase kills: %d scenarios in %.0f s: %s" % (len(hres), time.time() - t1, dict(("%s -> %s" % k, v) for k, v in hsum.items())))
        for info in infos:
            c = info["cfg"]; n = len(info["ticks"])
            ctx.notes.append("%s: %d mutations (%d after .params), code variant %s, %d crash points run (%s), outcomes %s" %
                             (c.name, n, n - info["first"] + 1, info["variant"], len(info["points"]), "all" if len(info["points"]) >= (n - info["first"] + 1) else "sampled", dict(summary[c.name])))
        ctx.notes.append("fault enumeration wall time %.0f s for %d crash+resume pairs" % (time.time() - t0, len(jobs)))
        bund = [i for i in infos if i["cfg"].name == "bundled"]
        if bund and not only:
            ctx.exhaustive = dict(domain="every mutation point of the bundled single-chromosome run after .params was written: before each of them, and right after each of those inside the sample directory",
                                  size=len(bund[0]["points"]))
        ctx.rule("fault enumeration: the wrapper kills the whole process group (SIGKILL: no flush, no destructor) before the k-th mutation, or right after it for mutations inside the sample directory; "
                 "`isoquant.py --resume` then runs in the same output directory with the same HOME; every final file of the clean run is compared byte for byte (gz decompressed, the '# Command line' "
                 "header ignored); outcome in {identical, fails (exit code != 0), different}; EVERY point of the bundled run, sampled points (all lock creations/removals, phase borders, random) of the other "
                 "configurations in the quick tier (always: right after every lock creation, around the first part removal, points spread over the merge phase, the borders of the clean-up) and all of them in "
                 "the thorough tier; the enumeration also runs for a configuration whose clean trace is not the model's program (then the real outcome alone decides); the model must predict every outcome, 'different' is always a violation, 'fails' is keyed by the window "
                 "computed from the mutations executed before the kill; plus a 3-chromosome run on 3 worker processes (kills inside workers; the interleaving differs from run to run, so no model "
                 "prediction: outcomes are classified from the crashed run's own logged prefix)")
        ctx.assume.append("the kill is a SIGKILL of the process group: data already handed to the OS (closed or flushed files) survives, buffered data is lost; the file system itself is not crashed "
                          "(no loss of closed files, no reordering of directory operations)")
        ctx.assume.append("directory enumeration order (glob) is fixed to lexicographic by the wrapper so that the clean-up phase is deterministic; other orders can be explored with C07_GLOB_ORDER=reverse|locks_last|fs")
        ctx.assume.append("mutations performed inside C libraries (sqlite database of gffutils, pysam) are not counted by the mutation counter; kill points INSIDE the GTF -> sqlite conversion are sampled by "
                          "phase (before create, tables created, features inserted and committed, relations inserted, after create), not enumerated; crashes while the pyfaidx index is half written "
                          "belong to third-party code and are only enumerated as 'before' points")
        ctx.rule("histories: (a) run 1 on the bundled data killed (before the first part removal, in the middle of merging; thorough: also in stage 1, after the first _processed lock, in the clean-up), the same "
                 "folder re-used by run 2 = --force + other quantification options, killed before / right after a mutation of ITS OWN count (thorough: every one; quick: the first two after .params, 7 early, 3 late) "
                 "or not at all, then --resume; finals must equal an uninterrupted run 2 in a fresh folder; (b) kills at 5 phases of gffutils.create_db, then --resume; (c) a configuration with relative input "
                 "paths (two-field file:FILE read-group option) resumed from another working directory that holds a decoy table of the same name")
    finally:
        shutil.rmtree(root, ignore_errors=True)


def replay(ctx, rep):
    r = rep.get("replay") or {}
    r = r.get("replay", r)
    if isinstance(r, dict) and r.get("scenario") in ("history", "dbkill"):
        return run(ctx, only=r)
    if not isinstance(r, dict) or "config" not in r:
        return run(ctx)
    run(ctx, only=dict(config=r["config"], k=int(r["k"]), when=r["when"]))
