"""C02 — expression tables equal the documented weighting of reported read assignments."""
import os, shutil, tempfile, itertools, types, json
from fractions import Fraction
from lib import *
from props.c02_common import *


def check_enums(ctx):
    """the hand-written enumerations of the model must list exactly the members of the real enums"""
    from src.long_read_counter import CountingStrategy, COUNTING_STRATEGIES, NormalizationMethod, GroupedOutputFormat
    from src.isoform_assignment import ReadAssignmentType
    ok = True
    if sorted(m.name for m in CountingStrategy) != sorted(STRATS) or sorted(COUNTING_STRATEGIES) != sorted(STRATS):
        ctx.broken("model:strategy-enum", "CountingStrategy members %s differ from the model's %s" % ([m.name for m in CountingStrategy], sorted(STRATS))); ok = False
    if sorted(m.name for m in ReadAssignmentType) != sorted(ATYPES):
        ctx.broken("model:assignment-type-enum", "ReadAssignmentType members %s differ from the model's %s" % ([m.name for m in ReadAssignmentType], sorted(ATYPES))); ok = False
    if sorted(m.name for m in NormalizationMethod) != ["simple", "usable_reads"] or sorted(m.name for m in GroupedOutputFormat) != ["both", "linear", "matrix"]:
        ctx.broken("model:format-enums", "NormalizationMethod / GroupedOutputFormat members changed"); ok = False
    return ok


def strategy_and_weights(ctx):
    from src.long_read_counter import CountingStrategy, CountingStrategyFlags, ReadWeightCounter
    from src.isoform_assignment import ReadAssignmentType as T
    cases = []
    for m in CountingStrategy:
        if m.name not in STRATS: continue
        try:
            fl = CountingStrategyFlags(m)
            preds = (m.ambiguous(), m.inconsistent_minor(), m.inconsistent(), m.no_inconsistent())
        except Exception as e:
            ctx.violation(None, "CountingStrategy predicates / CountingStrategyFlags raise %s" % type(e).__name__, {"strategy": m.name, "error": impl_error(e)}); continue
        cases.append(("(%s, (%s,%s,%s,%s), (%s,%s,%s))" % ((STRATS[m.name],) + tuple(cbool(x) for x in preds) + tuple(cbool(x) for x in (fl.use_ambiguous, fl.use_inconsistent_minor, fl.use_inconsistent))),
                      {"strategy": m.name, "predicates(ambiguous,inconsistent_minor,inconsistent,no_inconsistent)": preds}))
    pre = PRE + "Definition check := check_strategy.\nDefinition prop := check_strategy.\n"
    mism, viol = ctx.corr("strategy_table", pre, cases)
    ctx.corr_report("strategy_table", mism, viol)
    ctx.rule("strategy table: every member of the real CountingStrategy enum, its four predicates and the CountingStrategyFlags object against the model's flags_of (exhaustive)")

    cases = []
    for s in STRATS:
        try: rwc = ReadWeightCounter(s)
        except Exception as e:
            ctx.violation(None, "ReadWeightCounter(%r) raises %s" % (s, type(e).__name__), {"strategy": s, "error": impl_error(e)}); continue
        for t in ATYPES:
            if t != "ambiguous" and t not in INCONS: continue
            for k in range(0, 13):
                try:
                    v = rwc.process_ambiguous(k) if t == "ambiguous" else rwc.process_inconsistent(T[t], k)
                    out = "(Some %s)" % cq(exact(v)); pv = str(exact(v))
                except ZeroDivisionError:
                    out = "None"; pv = "ZeroDivisionError"
                except Exception as e:
                    ctx.violation(None, "ReadWeightCounter raises %s" % type(e).__name__, {"strategy": s, "type": t, "feature_count": k, "error": impl_error(e)}); continue
                cases.append(("(%s, %s, %s, %s)" % (STRATS[s], ATYPES[t], cz(k), out), {"strategy": s, "type": t, "feature_count": k, "impl": pv}))
    pre = PRE + "Definition check := check_weight.\nDefinition prop := prop_weight.\n"
    mism, viol = ctx.corr("read_weights", pre, cases, nontrivial=lambda o: o["impl"] not in ("0", "ZeroDivisionError"))
    ctx.corr_report("read_weights", mism, viol, what="ReadWeightCounter.process_ambiguous/process_inconsistent differ from the documented weight")
    ctx.rule("weights: every strategy x {ambiguous, inconsistent, inconsistent_non_intronic, inconsistent_ambiguous} x feature counts 0..12 on the real ReadWeightCounter (exhaustive); "
             "specification = documented table for k >= 1; non-trivial = non-zero weight")


def obs_u(res, fi):
    stats = dict(res["ustats"])
    return "(mkuobs %s %s %s %s %s)" % (clist(res["ustates"], lambda s: cistate(s, fi)), crows(res["urows"], fi),
                                         czs([int(stats.get(n, -1)) for n in ("__ambiguous", "__no_feature", "__not_aligned")]),
                                         crows(res["utpm"], fi), cq(res["uunassigned"][0] if res["uunassigned"] else Fraction(999)))


def unit_ungrouped(ctx, quick):
    rnd = ctx.rnd
    cases_py = sweep_cases("gene") + sweep_cases("transcript")
    n = 900 if quick else 6000
    combos = list(itertools.product(STRATS, ("gene", "transcript")))
    for i in range(n):
        s, lv = combos[i % len(combos)]
        cases_py.append(gen_case(rnd, s, lv, grouped=False))
    cases = []; work = tempfile.mkdtemp(prefix="iqv_c02u_")
    try:
        for case in cases_py:
            d = tempfile.mkdtemp(dir=work)
            fi, gi = interners(case)
            try:
                res = run_real(case, False, d)
            except Exception as e:
                ctx.violation(None, "counter raises %s on well-formed input" % type(e).__name__, {"case": case, "error": impl_error(e)}); continue
            if res["leftover"]:
                ctx.violation(None, "merge_counts left per-chromosome files behind", {"case": case, "files": res["leftover"]})
            shutil.rmtree(d, ignore_errors=True)
            py = {"case": case, "rows": [(f, [str(x) for x in v]) for f, v in res["urows"]], "stats": res["ustats"], "tpm": [(f, [str(x) for x in v]) for f, v in res["utpm"]],
                  "unassigned_tpm": [str(x) for x in res["uunassigned"]]}
            cases.append(("(%s, %s)" % (ccase(case, fi, gi), obs_u(res, fi)), py))
    finally:
        shutil.rmtree(work, ignore_errors=True)
    pre = PRE + "Definition check := check_u.\nDefinition prop := prop_u.\n"
    mism, viol = ctx.corr("counter_ungrouped", pre, cases, shard=60, nontrivial=lambda o: any(any(Fraction(x) != 0 for x in v) for _, v in o["rows"]))
    ctx.corr_report("counter_ungrouped", mism, viol, what="count table / statistics lines / TPM of the real AssignedFeatureCounter + merge_counts differ from the documented weighting")
    ctx.rule("ungrouped counters: the real create_gene_counter/create_transcript_counter objects per chromosome (1-3 chromosomes, complete feature lists, output_zeroes on/off), fed "
             "fake ReadAssignment objects of every assignment type x 0-4 features (None transcripts/genes, duplicated matches, mono-/multi-exonic, 1-5 corrected exons), "
             "add_read_info(None), add_read_info_raw, add_unassigned/add_unaligned, add_confirmed_features; dump into temp files; real merge_counts (with and without the unmapped override) "
             "and convert_counts_to_tpm (simple / usable_reads); deterministic sweep strategy x level x type x k in 1..4 plus %d random cases over all 5 strategies x 2 levels. "
             "Internal floats are compared exactly (as the rationals they approximate), printed cells within 0.005, TPM within 1e-6; non-trivial = a non-zero cell" % n)


def unit_raises(ctx, quick):
    """malformed stream: unknown group, unique record without a feature, inconsistent_ambiguous without a feature"""
    rnd = ctx.rnd; cases = []
    from src.long_read_counter import create_gene_counter, create_transcript_counter
    work = tempfile.mkdtemp(prefix="iqv_c02r_")
    try:
        for i in range(400 if quick else 3000):
            s = rnd.choice(list(STRATS)); lv = rnd.choice(["gene", "transcript"]); grouped = rnd.random() < .5
            pool = ["NA", "a", "b"]
            genes = universe_for("chr1", rnd)
            pairs = [(tr, g) for g, trs in genes.items() for tr in trs]
            evs = gen_events(rnd, genes, pool, rnd.choice(["assign", "mixed"]), rnd.randint(0, 4))
            kind = rnd.choice(["group", "unique0", "ia0", "uniq2", "none"])
            if kind == "group": bad = dict(gen_read(rnd, genes, ["zz"], shape=dict(type="unique", k=1)), gtype="unique") if rnd.random() < .5 else dict(k="raw", has_id=rnd.random() < .7, feats=[pairs[0][0]], group="zz")
            elif kind == "unique0": bad = dict(k="read", type="ambiguous" if lv == "gene" else "unique", gtype="unique" if lv == "gene" else "ambiguous", matches=[(pairs[0][0], None)] if lv == "gene" else [(pairs[0][0], pairs[0][1])], group="a", mono=True, nexons=1)
            elif kind == "ia0": bad = dict(k="read", type="ambiguous", gtype="inconsistent_ambiguous", matches=[(pairs[0][0], None)], group="a", mono=True, nexons=1)
            elif kind == "uniq2": bad = None
            else: bad = None
            if bad: evs.insert(rnd.randint(0, len(evs)), bad)
            case = dict(strategy=s, level=lv, zeroes=True, fmt="both", norm="simple", unaligned=0, flavour="malformed",
                        chrs=[dict(chr="chr1", groups=(["a", "NA", "b"] if grouped else []), complete=[], events=evs)])
            fi, gi = interners(case, extra_groups=["zz"])
            create = create_gene_counter if lv == "gene" else create_transcript_counter
            d = tempfile.mkdtemp(dir=work)
            raised = None
            try:
                c = create(os.path.join(d, "x"), s, read_groups=list(case["chrs"][0]["groups"]))
                for ev in evs: apply_event(c, ev)
            except (KeyError, IndexError, ZeroDivisionError) as e:
                raised = type(e).__name__
            except Exception as e:
                ctx.violation(None, "counter raises %s (none of the modelled KeyError / IndexError / ZeroDivisionError)" % type(e).__name__, {"case": case, "error": impl_error(e)})
                shutil.rmtree(d, ignore_errors=True); continue
            shutil.rmtree(d, ignore_errors=True)
            cases.append(("(%s, %s)" % (ccase(case, fi, gi), cbool(raised is not None)), {"case": case, "raised": raised}))
    finally:
        shutil.rmtree(work, ignore_errors=True)
    pre = PRE + "Definition check := check_raises.\nDefinition prop := prop_raises.\n"
    mism, viol = ctx.corr("counter_exceptions", pre, cases, shard=100, nontrivial=lambda o: o["raised"] is not None)
    ctx.corr_report("counter_exceptions", mism, viol, what="the counter raises on a well-formed record")
    ctx.rule("malformed stream: records whose group is not in the universe (KeyError), unique gene assignment without a gene (IndexError), inconsistent_ambiguous without a "
             "feature under strategy all (ZeroDivisionError): the model returns None exactly when the real counter raises; specification = no exception on well-formed events")


# ---------------------------------------------------------------------------------------------- transcript-model bookkeeping (unit level)
PRE_M = """From Coq Require Import QArith.
From IQ Require Import Counting CountingCounter CountingCheck CountingModels CountingModelsCheck.
Open Scope Z_scope.
"""

class _Recorder:
    """stands where GraphBasedModelConstructor.transcript_counter stands: records every call and forwards it to the real counters"""
    def __init__(self, inner): self._inner = inner; self.calls = []
    def add_read_info_raw(self, read_id, feature_ids, group_id="NA"):
        self.calls.append(("raw", read_id, list(feature_ids), group_id)); self._inner.add_read_info_raw(read_id, feature_ids, group_id)
    def add_unassigned(self, n_reads=1): self.calls.append(("unassigned", n_reads)); self._inner.add_unassigned(n_reads)
    def add_unaligned(self, n_reads=1): self.calls.append(("unaligned", n_reads)); self._inner.add_unaligned(n_reads)
    def add_confirmed_features(self, features): self.calls.append(("confirm", list(features))); self._inner.add_confirmed_features(features)
    def __getattr__(self, name):
        def other(*a, **k):
            self.calls.append(("other", name)); return getattr(self._inner, name)(*a, **k)
        return other


def run_real_models(case, workdir):
    """the REAL GraphBasedModelConstructor bookkeeping on one generated step sequence: transcript_model_storage.append / save_assigned_read /
       delete_from_storage / assign_reads_to_models (its collaborators GeneInfo.from_models, LongReadAssigner, CombinedProfileConstructor replaced by
       stubs that hand out the generated verdicts) / forward_counts into real transcript-model counters (ungrouped + grouped behind one
       CompositeCounter, as ReadAssignmentAggregator builds them), GFFPrinter.dump_read_assignments, dump + merge_counts"""
    import io, collections
    from src import graph_based_model_construction as G
    from src.transcript_printer import GFFPrinter
    from src.long_read_counter import create_transcript_counter, CompositeCounter
    from src.file_utils import merge_counts
    mname = lambda m: "T%02d" % m; rname = lambda r: "read_%d" % r
    obj = object.__new__(G.GraphBasedModelConstructor)
    obj.transcript_model_storage = []; obj.transcript_read_ids = collections.defaultdict(list); obj.read_assignment_counts = collections.defaultdict(int)
    obj.internal_counter = collections.defaultdict(int); obj.params = types.SimpleNamespace(delta=6)
    pref = lambda label, suffix: os.path.join(workdir, "%s.transcript_model%s" % (label, suffix))
    lab = LABEL + "_chr1"
    cu = create_transcript_counter(pref(lab, ""), case["strategy"], output_zeroes=False)
    main_u = create_transcript_counter(pref(LABEL, ""), case["strategy"], output_zeroes=False)
    counters = [cu]
    if case["groups"]:
        cg = create_transcript_counter(pref(lab, "_grouped"), case["strategy"], read_groups=list(case["groups"]), output_zeroes=False)
        main_g = create_transcript_counter(pref(LABEL, "_grouped"), case["strategy"], read_groups=list(case["groups"]), output_zeroes=False)
        counters.append(cg)
    comp = CompositeCounter([]); comp.add_counters(counters)
    rec = _Recorder(comp); obj.transcript_counter = rec
    def ra(r, g, tag=0): return types.SimpleNamespace(read_id=rname(r), read_group=g, corrected_exons=[(tag, tag)], polya_info=None)
    for op in case["ops"]:
        k = op[0]
        if k == "model": obj.transcript_model_storage.append(types.SimpleNamespace(transcript_id=mname(op[1])))
        elif k == "save": obj.save_assigned_read(ra(op[1], op[2]), mname(op[3]))
        elif k == "delete":
            obj.internal_counter[mname(op[1])] += 0              # the filters read internal_counter[model] before they delete
            obj.delete_from_storage(mname(op[1]))
            obj.transcript_model_storage = [x for x in obj.transcript_model_storage if x.transcript_id != mname(op[1])]
        elif k == "assign":
            verdicts = {i + 1: v for i, (r, g, v) in enumerate(op[1])}
            storage = [ra(r, g, i + 1) for i, (r, g, v) in enumerate(op[1])]
            class Assigner:
                def __init__(self, *a, **k): pass
                def assign_to_isoform(self, read_id, profile):
                    v = verdicts[profile]
                    return types.SimpleNamespace(assignment_type=types.SimpleNamespace(is_consistent=lambda: v is not None), read_group=None,
                                                 isoform_matches=[types.SimpleNamespace(assigned_transcript=mname(m)) for m in (v or [])])
            class Profiles:
                def __init__(self, *a, **k): pass
                def construct_profiles(self, read_exons, polya_info, cage): return read_exons[0][0]
            saved = (G.GeneInfo, G.LongReadAssigner, G.CombinedProfileConstructor)
            G.GeneInfo = types.SimpleNamespace(from_models=lambda storage, delta: None); G.LongReadAssigner = Assigner; G.CombinedProfileConstructor = Profiles
            try: obj.assign_reads_to_models(storage)
            finally: G.GeneInfo, G.LongReadAssigner, G.CombinedProfileConstructor = saved
    obj.forward_counts()
    out = io.StringIO()
    GFFPrinter.dump_read_assignments(types.SimpleNamespace(output_r2t=True, out_r2t=out), obj)
    res = dict(calls=rec.calls)
    res["tri"] = [(int(m[1:]), [(int(a.read_id[5:]), a.read_group) for a in l]) for m, l in obj.transcript_read_ids.items() if l]
    res["rac"] = [(int(r[5:]), n) for r, n in obj.read_assignment_counts.items()]
    res["models"] = [int(x.transcript_id[1:]) for x in obj.transcript_model_storage]
    res["lines"] = [(int(a[5:]), None if b == "*" else int(b[1:])) for a, b in (l.split("\t") for l in out.getvalue().splitlines())]
    comp.dump()
    merge_counts(main_u, LABEL, ["chr1"], 0)
    _, rows, under = parse_table(main_u.output_counts_file_name)
    res["rows"] = [(int(f[1:]), v) for f, v in rows]; res["stats"] = under
    if case["groups"]:
        merge_counts(main_g, LABEL, ["chr1"], 0)
        hdr, grows, gunder = parse_table(main_g.output_counts_file_name)
        res["ghdr"] = hdr or []; res["grows"] = [(int(f[1:]), v) for f, v in grows]; res["gunder"] = gunder
        res["glinear"] = [(int(f[1:]), g, v) for f, g, v in parse_linear(main_g.linear_output_file)]
    return res


def gen_model_case(rnd, strategy):
    """a legal step sequence as process() issues them: models, reads saved during construction, a pre-filter, a first assignment round, a filter, the second round"""
    pool = rnd.choice([["NA", "a", "b"], ["zeta", "alpha"], ["x"], []])
    nm = rnd.randint(1, 4); nr = rnd.randint(1, 6)
    group = {r: (rnd.choice(pool) if pool else "NA") for r in range(1, nr + 1)}
    ops = []; storage = []
    for m in range(1, nm + 1):
        ops.append(("model", m)); storage.append(m)
        for r in rnd.sample(range(1, nr + 1), min(nr, rnd.choice([0, 0, 1, 2]))): ops.append(("save", r, group[r], m))
    def deletes(p):
        for m in list(storage):
            if rnd.random() < p: ops.append(("delete", m)); storage.remove(m)
    def verdict():
        x = rnd.random()
        if x < .12 or not storage: return None if rnd.random() < .5 else []
        return rnd.sample(storage, min(len(storage), rnd.choice([1, 1, 1, 2, 2, 3])))
    def round_():
        reads = list(range(1, nr + 1))
        if rnd.random() < .2: reads.insert(rnd.randint(0, len(reads)), rnd.choice(reads))      # the same read id twice in the storage
        ops.append(("assign", [(r, group[r], verdict()) for r in reads]))
    deletes(.2); round_(); deletes(.3); round_()
    return dict(strategy=strategy, groups=pool, truth=group, ops=ops)


def unit_models(ctx, quick):
    rnd = ctx.rnd; cases_py = []
    subsets = [[m for m in (1, 2, 3) if b >> (m - 1) & 1] for b in range(8)]
    for n in (1, 2, 3):
        for vs in itertools.product(subsets, repeat=n):
            for s in STRATS:
                group = {r: ("a", "NA", "b")[r - 1] for r in range(1, n + 1)}
                cases_py.append(dict(strategy=s, groups=["b", "NA", "a"], truth=group, flavour="exhaustive",
                                     ops=[("model", 1), ("model", 2), ("model", 3), ("assign", [(r, group[r], list(vs[r - 1])) for r in range(1, n + 1)])]))
    nrand = 600 if quick else 6000
    strategies = list(STRATS)
    for i in range(nrand): cases_py.append(dict(gen_model_case(rnd, strategies[i % 5]), flavour="random"))
    cases = []; work = tempfile.mkdtemp(prefix="iqv_c02m_")
    try:
        for case in cases_py:
            d = tempfile.mkdtemp(dir=work)
            try:
                res = run_real_models(case, d)
            except Exception as e:
                ctx.violation(None, "the transcript-model bookkeeping / counter raises %s on a legal step sequence" % type(e).__name__, {"case": case, "error": impl_error(e)}); continue
            finally:
                shutil.rmtree(d, ignore_errors=True)
            gi = Interner(list(case["groups"]) + ["NA"] + list(case["truth"].values()))
            py = {"case": case, "counter_calls": res["calls"], "rows": [(f, [str(x) for x in v]) for f, v in res["rows"]], "stats": res["stats"], "transcript_model_reads_lines": res["lines"],
                  "grouped_header": res.get("ghdr"), "grouped_rows": [(f, [str(x) for x in v]) for f, v in res.get("grows", [])]}
            if any(c[0] == "other" for c in res["calls"]) or res.get("gunder"):
                ctx.violation(None, "forward_counts calls an unexpected counter method / the grouped model table carries statistics lines", py); continue
            def cev(c):
                if c[0] == "raw": return "(ERaw %s %s %s)" % (cbool(bool(c[1])), czs([int(f[1:]) for f in c[2]]), cz(gi(c[3])))
                if c[0] == "unassigned": return "(EUnassigned %s)" % cz(c[1])
                if c[0] == "unaligned": return "(EUnaligned %s)" % cz(c[1])
                return "(EConfirm %s)" % czs([int(f[1:]) for f in c[1]])
            def cop(o):
                if o[0] == "model": return "(OModel %d)" % o[1]
                if o[0] == "save": return "(OSave %d %s %d)" % (o[1], cz(gi(o[2])), o[3])
                if o[0] == "delete": return "(ODelete %d)" % o[1]
                return "(OAssign %s)" % clist(o[1], lambda x: "(%d, %s, %s)" % (x[0], cz(gi(x[1])), copt(x[2], czs)))
            stats = dict(res["stats"])
            try:
                obs = "(mkmobs %s %s %s %s %s %s %s %s %s %s)" % (
                    clist(res["tri"], lambda p: "(%d, %s)" % (p[0], clist(p[1], lambda a: "(%d, %s)" % (a[0], cz(gi(a[1])))))), clist(res["rac"], lambda p: "(%d, %s)" % (p[0], cz(p[1]))), czs(res["models"]),
                    clist(res["calls"], cev), clist(res["rows"], lambda r: "(%d, %s)" % (r[0], clist(r[1], cq))), czs([int(stats.get(n, -1)) for n in ("__ambiguous", "__no_feature", "__not_aligned")]),
                    clist(res["lines"], lambda l: "(%d, %s)" % (l[0], copt(l[1], cz))), czs([gi(g) for g in res.get("ghdr", [])]),
                    clist(res.get("grows", []), lambda r: "(%d, %s)" % (r[0], clist(r[1], cq))), clist(res.get("glinear", []), lambda r: "(%d, %s, %s)" % (r[0], cz(gi(r[1])), cq(r[2]))))
            except KeyError as e:
                ctx.violation(None, "a group that no read carries appears in the counter calls / grouped model table", dict(py, group=str(e))); continue
            k = "(mkmcase %s %s %s %s %s)" % (STRATS[case["strategy"]], cz(gi("NA")), czs([gi(g) for g in case["groups"]]),
                                              clist(sorted(case["truth"].items()), lambda p: "(%d, %s)" % (p[0], cz(gi(p[1])))), clist(case["ops"], cop))
            cases.append(("(%s, %s)" % (k, obs), py))
    finally:
        shutil.rmtree(work, ignore_errors=True)
    pre = PRE_M + "Definition check := check_m.\nDefinition prop := prop_m.\n"
    mism, viol = ctx.corr("model_bookkeeping", pre, cases, shard=120, ctype="mcase * mobs", nontrivial=lambda o: any(any(Fraction(x) != 0 for x in v) for _, v in o["rows"]))
    ctx.corr_report("model_bookkeeping", mism, viol, what="transcript-model table / statistics lines of the real forward_counts + counters differ from what the transcript_model_reads.tsv lines of the same run prescribe")
    ctx.rule("transcript-model bookkeeping (unit): the REAL GraphBasedModelConstructor.save_assigned_read / delete_from_storage / assign_reads_to_models (assigner, profile constructor and "
             "GeneInfo.from_models stubbed to hand out generated verdicts) / forward_counts into real transcript-model counters (ungrouped + grouped, output_zeroes off, behind a recording "
             "CompositeCounter), GFFPrinter.dump_read_assignments, dump + merge_counts; exhaustive: 1-3 reads x every subset of 3 models per read x 5 strategies (%d cases), plus %d random legal step "
             "sequences (1-4 models, 1-6 reads, reads saved during construction, deletions before / between the two assignment rounds, inconsistent verdicts, a read id twice in the storage, 0-3 groups); "
             "bookkeeping state, the sequence of counter calls, transcript_model_reads lines and dumped tables compared with the model (check_m); specification = the dumped tables are what the "
             "implementation's own transcript_model_reads lines prescribe (counts_ok, stats_ok, grouped_ok on the reconstructed call sequence: theorem C02_model_reads_table_matches_counts) "
             "and every read of the step sequence is listed exactly once, with its models or as '*' (so __no_feature counts every read without a model); "
             "non-trivial = a non-zero cell" % (len(cases_py) - nrand, nrand))


def run_jobs(jobs, nworkers=4):
    import pipeline as P
    from concurrent.futures import ThreadPoolExecutor
    def one(j):
        try:
            rc, log = P.run_isoquant(j["out"], j["args"], hashseed=j.get("hashseed", "0"), timeout=j.get("timeout", 900))
        except Exception as e:                                     # e.g. the run does not terminate
            rc, log = -1, "%s: %s" % (type(e).__name__, str(e)[-1500:])
        j["rc"] = rc; j["log"] = log[-3000:]
        return j
    with ThreadPoolExecutor(nworkers) as ex: return list(ex.map(one, jobs))


def run_cases(ctx, j, root, gtf_cache):
    """cases of one finished run: (count/TPM table cases, per-read cases, grouped table cases)"""
    import pipeline as P
    if j["gtf"] not in gtf_cache: gtf_cache[j["gtf"]] = P.read_gtf(j["gtf"])
    ref_tr, ref_genes = gtf_cache[j["gtf"]]
    rep = {"run": j["name"], "args": [a.replace(root, "<scratch>") for a in j["args"]], "unmapped_records_per_bam": j["unmapped"]}
    cases = []; rcases = []
    recs = parse_records(j["out"], "S", ref_tr)
    unaligned = count_unmapped(j["bams"])
    model_tr, _ = P.read_gtf(os.path.join(j["out"], "S", "S.transcript_models.gtf"))
    chr_of = {}
    for r in recs: chr_of.setdefault(r["read_id"], r["chr"])
    evs = [record_event(r) for r in recs]
    tables = [("gene", j["gq"], evs, list(ref_genes), True, "S.gene_counts.tsv", "S.gene_tpm.tsv"),
              ("transcript", j["tq"], evs, list(ref_tr), True, "S.transcript_counts.tsv", "S.transcript_tpm.tsv"),
              ("transcript", j["tq"], model_events(j["out"], "S", model_tr, chr_of), [], False, "S.transcript_model_counts.tsv", "S.transcript_model_tpm.tsv")]
    for level, strat, events, complete, zeroes, cf, tf in tables:
        case = file_case(strat, level, events, complete, zeroes, j["norm"], unaligned)
        fi, gi = interners(case)
        try:
            obs, py = obs_u_files(os.path.join(j["out"], "S", cf), os.path.join(j["out"], "S", tf), fi)
        except KeyError as e:
            ctx.violation(None, "%s lists a feature that is neither annotated nor reported" % cf, dict(rep, feature=str(e))); continue
        cases.append(("(%s, %s)" % (ccase(case, fi, gi), obs), dict(rep, table=cf, strategy=strat, normalization=j["norm"], unmapped_records_in_the_bam_files=unaligned,
                                                                      rows=[(f, [str(x) for x in v]) for f, v in py["rows"]][:400], stats_lines=py["stats"])))
    # every read with all its records: total contribution to the gene and to the transcript table
    byread = {}
    for r in recs: byread.setdefault(r["read_id"], []).append(r)
    for rid, rs in byread.items():
        for level, strat in (("gene", j["gq"]), ("transcript", j["tq"])):
            case = file_case(strat, level, [record_event(r) for r in rs], [], True, "simple", 0); fi, gi = interners(case)
            rcases.append(("(%s, %s, %s)" % (STRATS[strat], "GeneLevel" if level == "gene" else "TranscriptLevel", clist(case["chrs"][0]["events"], lambda e: cevent(e, fi, gi))),
                           {"run": j["name"], "read": rid, "level": level, "strategy": strat, "records": [dict(chr=r["chr"], type=r["type"], gene_assignment=r["gtype"], features=r["matches"]) for r in rs]}))
    gcases = grouped_cases(ctx, j, rep, recs, ref_tr, ref_genes, model_tr)[0] if j.get("group_of") else []
    return cases, rcases, gcases


def pipeline(ctx, quick):
    """whole runs: every cell of the gene / transcript / transcript-model count tables, the __ lines and the TPM tables recomputed from read_assignments.tsv,
       corrected_reads.bed and transcript_model_reads.tsv; the __not_aligned line against the unmapped records of ALL BAM files of the experiment"""
    import pipeline as P, pysam, zlib, traceback
    root = P.scratch("iqv_c02p_")
    try:
        data = os.path.join(root, "data"); b = P.bundled(data)
        strategies = list(STRATS); jobs = []
        common = ["--complete_genedb", "--data_type", "nanopore", "-p", "S"]
        blabel = os.path.splitext(os.path.basename(b["bam"]))[0]
        for i, s in enumerate(strategies):
            grp = i % 2 == 1          # every second run also writes grouped tables (--read_group file_name on one file: every read belongs to the file's label)
            jobs.append(dict(name="bundled/%s%s" % (s, "/read_group=file_name" if grp else ""), tq=s, gq=strategies[(i + 2) % 5], norm=("simple", "usable_reads")[i % 2], gtf=b["gtf"], bams=[b["bam"]],
                             out=os.path.join(root, "b%d" % i), group_of=(lambda n: blabel) if grp else None, fmt="both",
                             args=["--bam", b["bam"], "--reference", b["fasta"], "--genedb", b["gtf"]] + common + (["--read_group", "file_name"] if grp else [])))
        worlds = [5] + ([] if quick else [100 + ctx.seed, 200 + ctx.seed])
        for wi, ws in enumerate(worlds):
            wd = os.path.join(root, "w%d" % wi); w = world_with_multilocus(ws); paths = write_world(w, wd, unmapped=4 if wi % 2 == 0 else 0)
            for i, s in enumerate(strategies if not quick else ["unique_only", "all"]):
                jobs.append(dict(name="synthetic%d/%s" % (ws, s), tq=s, gq=s, norm=("usable_reads", "simple")[i % 2], gtf=os.path.join(wd, "annotation.gtf"), bams=[paths[0]],
                                 out=os.path.join(root, "w%d_%d" % (wi, i)), args=["--bam", paths[0], "--reference", os.path.join(wd, "genome.fa"), "--genedb", os.path.join(wd, "annotation.gtf"), "--threads", "2"] + common))
        # one experiment made of several BAM files, unmapped records in the first / middle / last file
        mworlds = [(6, (4, 2, 0), "with_ambiguous", "unique_only")] + ([] if quick else [(300 + ctx.seed, (3, 0), "all", "unique_inconsistent"), (400 + ctx.seed, (0, 1, 5), "unique_only", "with_ambiguous")])
        for mi, (ws, um, tq, gq) in enumerate(mworlds):
            wd = os.path.join(root, "m%d" % mi); w = world_with_multilocus(ws); mpaths = write_world(w, wd, unmapped=um, n_bams=len(um))
            jobs.append(dict(name="synthetic%d/%d-bam-files/unmapped%s" % (ws, len(um), list(um)), tq=tq, gq=gq, norm="simple", gtf=os.path.join(wd, "annotation.gtf"), bams=mpaths, out=os.path.join(root, "m%d_o" % mi),
                             args=["--bam"] + mpaths + ["--reference", os.path.join(wd, "genome.fa"), "--genedb", os.path.join(wd, "annotation.gtf"), "--threads", "2"] + common))
        # the bundled alignments split into two files by read name, unmapped records in both; --read_group file_name: grouped tables with two groups
        sp = [os.path.join(data, "libA.bam"), os.path.join(data, "second.lib.bam")]; file_of = {}
        def split(a, i):
            file_of[a.query_name] = zlib.crc32(a.query_name.encode()) % 2
            return file_of[a.query_name], a
        rewrite_bam(b["bam"], sp, split); add_unmapped(sp[0], 3, "unmapped_A"); add_unmapped(sp[1], 2, "unmapped_B")
        slabels = [os.path.splitext(os.path.basename(x))[0] for x in sp]
        jobs.append(dict(name="bundled/2-bam-files/unmapped[3, 2]/read_group=file_name", tq="unique_only", gq="all", norm="usable_reads", gtf=b["gtf"], bams=sp, out=os.path.join(root, "s0"),
                         group_of=lambda n: slabels[file_of[n]], fmt="both",
                         args=["--bam"] + sp + ["--reference", b["fasta"], "--genedb", b["gtf"], "--read_group", "file_name"] + common))
        for j in jobs:
            j["args"] += ["--transcript_quantification", j["tq"], "--gene_quantification", j["gq"], "--normalization_method", j["norm"]]
            j["unmapped"] = [count_unmapped([p]) for p in j["bams"]]
        run_jobs(jobs)
        ctx.cov["pipeline_runs"] += len(jobs)
        cases = []; rcases = []; gcases = []
        gtf_cache = {}
        for j in jobs:
            rep = {"run": j["name"], "args": [a.replace(root, "<scratch>") for a in j["args"]], "unmapped_records_per_bam": j["unmapped"]}
            if j["rc"] != 0:
                ctx.violation(None, "IsoQuant run failed (exit %d)" % j["rc"], dict(rep, log=j["log"][-1500:])); continue
            try:
                c1, c2, c3 = run_cases(ctx, j, root, gtf_cache)
            except Exception:
                ctx.violation(None, "the output files of a finished run are missing or cannot be parsed", dict(rep, error=traceback.format_exc()[-1500:], files=sorted(os.listdir(os.path.join(j["out"], "S"))) if os.path.isdir(os.path.join(j["out"], "S")) else None)); continue
            cases += c1; rcases += c2; gcases += c3
        pre = PRE + "Definition check := check_u_files.\nDefinition prop := prop_u.\n"
        mism, viol = ctx.corr("pipeline_count_tables", pre, cases, shard=2, nontrivial=lambda o: True, timeout=900)
        ctx.corr_report("pipeline_count_tables", mism, viol, what="a count/TPM table or a __ line of a whole run differs from the documented weighting of the reported read assignments")
        pre = PRE + "Definition check := check_g_files.\nDefinition prop := prop_g.\n"
        mism, viol = ctx.corr("pipeline_grouped_count_tables", pre, gcases, shard=2, nontrivial=lambda o: True, timeout=900)
        ctx.corr_report("pipeline_grouped_count_tables", mism, viol, what="a grouped count table of a whole run differs from the documented weighting (under the strategy given for that table) of the reported read assignments")
        pre = PRE + "Definition check (c:strategy * level * list event) := true.\nDefinition prop := prop_read_total.\n"
        mism, viol = ctx.corr("pipeline_read_contribution", pre, rcases, shard=400, nontrivial=lambda o: len(o["records"]) > 1)
        def key(o):
            lv = o["level"]; rs = o["records"]
            t = lambda r: r["gene_assignment"] if lv == "gene" else r["type"]
            nf = lambda r: len(set(m[1] if lv == "gene" else m[0] for m in r["features"]))
            return "C02:ambiguous-multilocus-weight" if len(rs) > 1 and all(t(r) == "ambiguous" and nf(r) == 1 for r in rs) else None
        ctx.corr_report("pipeline_read_contribution", mism, viol, keyfn=key, what="a read contributes a total weight above 1 to a table (its tables were verified to be the per-record sums)")
        ctx.rule("pipeline: IsoQuant on the bundled chr9 data for each --transcript_quantification strategy (crossed with a different --gene_quantification, both directions) alternating "
                 "--normalization_method simple/usable_reads, every second run with --read_group file_name; on a generated two-chromosome data set (threads 2, reads aligned to two loci, unmapped reads); "
                 "on experiments made of SEVERAL BAM files (--bam a b c): a generated data set in 3 files with 4/2/0 unmapped records and the bundled alignments split into two files with 3/2 unmapped "
                 "records (--read_group file_name, two groups); every cell of gene_counts / transcript_counts / transcript_model_counts, the __ambiguous/__no_feature/__not_aligned lines and "
                 "the TPM tables are recomputed inside Coq from read_assignments.tsv + corrected_reads.bed + the reference GTF (mono-exonic isoforms) + transcript_model_reads.tsv + "
                 "transcript_models.gtf (counts_ok, stats_ok, tpm_ok; for the transcript-model table the call sequence is reconstructed from the transcript_model_reads.tsv lines exactly as "
                 "events_from_r2t of coq/CountingModels.v does, and theorem C02_model_reads_table_matches_counts proves that this reconstruction has the cells and statistics of the calls forward_counts "
                 "made from consistent bookkeeping, which C02_model_table_is_weighted_sum / C02_model_stats_lines_count equate with the documented weighted sums); __not_aligned is compared with the number of records carrying the unmapped flag counted by reading every record of every input BAM file; "
                 "the grouped tables of the --read_group runs are recomputed in the same way, each with the strategy given for it (gene table: --gene_quantification, transcript and transcript-model "
                 "tables: --transcript_quantification), and must partition the ungrouped ones (grouped_ok); "
                 "per read id the total contribution over all its records must not exceed 1 (non-trivial = a read with several records)")
        ctx.notes.append("pipeline level: all decisive comparisons (cells as rationals, tallies, TPM, per-read totals) are evaluated inside Coq; Python only parses files and interns names")
    finally:
        shutil.rmtree(root, ignore_errors=True)


def run(ctx):
    quick = ctx.tier == "quick"
    ctx.prepare("C02.v")
    ctx.rule("regenerated from the source on every run (tools/translate_extra.py -> coq/gen/Extra.v; bridged to the model by C02_weights_are_the_sources, C02_weight_tk_is_the_source, C02_enums_are_covered, C02_grouped_format_is_the_source): CountingStrategy members and its four predicates, COUNTING_STRATEGIES, CountingStrategyFlags.__init__, ReadWeightCounter.process_ambiguous / process_inconsistent (floats as exact rationals), GroupedOutputFormat with output_matrix / output_linear; ReadAssignmentType and its is_unique / is_inconsistent / is_unassigned sets come from coq/gen/Tables.v")
    section(ctx, "enums", check_enums, ctx)            # a changed enumeration is reported as broken; the sections below still run on the members the model knows
    section(ctx, "strategy_and_weights", strategy_and_weights, ctx)
    section(ctx, "unit_ungrouped", unit_ungrouped, ctx, quick)
    section(ctx, "unit_raises", unit_raises, ctx, quick)
    section(ctx, "unit_models", unit_models, ctx, quick)
    section(ctx, "pipeline", pipeline, ctx, quick)
    ctx.assume.append("float -> rational reconstruction of internal counter values (Fraction.limit_denominator(30000), accepted only within 1e-9): float summation error is outside the model")
    ctx.assume.append("feature and group names are interned order-preservingly (Python sorted() on names = the model's sortz on codes); names starting with '_' or '#' are not generated")
