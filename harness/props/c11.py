"""C11 - results are equivariant under coordinate translation and strand reflection.

Proof level (coq/Mirror.v, MirrorProofs.v, MirrorPairs.v, MirrorPairsProofs.v -> props/C11.v): shift equivariance of every modelled
coordinate function, mirror pairs, refuted mirror statements with witnesses.
Unit level (real code of /repo): each half of a pair against its model (new models here; the halves already modelled are
corresponded by c16 / c19 / c05 and re-checked metamorphically here on the real functions: f(shift x) = shift f(x),
f(mirror x) = mirror f(x)).
Pipeline level: bundled and generated data, shifted by k in {1, 37, 256, 1000} and reverse-complemented, through isoquant.py; outputs
compared after transforming back; every difference is attributed: the wrapper (c11_wrapper.py) logs the calls on which the two real
halves of a pair disagree for the read concerned, and re-runs with that half replaced by the exact mirror of the other half must make
the difference vanish; otherwise it is a new violation."""
import itertools, os, re, shutil, types, collections, json, glob, random, time
from concurrent.futures import ThreadPoolExecutor
from lib import *
import props.c11_transform as T

HERE = os.path.dirname(os.path.abspath(__file__))
WRAPPER = os.path.join(HERE, "c11_wrapper.py")

K_WINDOW = "C11:polyT-window-mirror"
K_OFFSET = "C11:polyT-position-offset"
K_EXTRA = "C11:extra-right-read-start"
K_OVL = "C11:overlaps-at-least-corner"
K_CLAMP = "C11:polyT-clamp"
K_SPLIT = "C11:split-bin-grid"
K_ODD = "C11:elongation-no-common-exon"
K_PROJ = "C11:polyT-projection-inside-alignment"
K_MICRO = "C11:microintron-last-exon"
K_THREAD = "C11:thread-starts-apa-delta"
K_TIE = "C11:thread-vertex-tie"
K_CUT = "C11:region-cut-bin-phase"

# ------------------------------------------------------------------------------------------------ printers
def cev(e):
    return "(MES_%s, %s, %s, %s)" % (e.event_type.name if e.event_type.name != "none" else "none_", civ(e.isoform_region), civ(e.read_region), cz(e.event_info))
def cevs(l): return clist(l, cev)
def jev(e): return [e.event_type.name, list(e.isoform_region), list(e.read_region), e.event_info]
def cres(r, f): return "(Ok %s)" % f(r[1]) if r[0] == "ok" else "(Raises %d%%N)" % r[1]
EXC = {"IndexError": 1, "AssertionError": 3}
def call(f, *a):
    try:
        return ("ok", with_timeout(f, *a, seconds=3.0))
    except (IndexError, AssertionError) as e:
        return ("exc", EXC[type(e).__name__])
    except ImplTimeout:
        return ("exc", 99)

def mir_iv(L, a): return (L + 1 - a[1], L + 1 - a[0])
def mir_ivs(L, l): return [mir_iv(L, a) for a in reversed(l)]
def mir_pos(L, p): return -1 if p == -1 else L + 1 - p
def sh_iv(k, a): return (a[0] + k, a[1] + k)
def sh_ivs(k, l): return [sh_iv(k, a) for a in l]
def sh_pos(k, p): return -1 if p == -1 else p + k


# ================================================================================================ unit level
def unit_tables(ctx):
    """the event tables do not distinguish left from right (Python objects of the repository; the Coq side is event_cost_mirror)"""
    from src import isoform_assignment as ia
    S = ia.MatchEventSubtype; n = 0
    def sw(e): return S[T.swap_lr(e.name)]
    for e in S:
        n += 1
        try: o = sw(e)
        except KeyError:
            ctx.violation(None, "event subtype %s has no left/right counterpart" % e.name, {"event": e.name}); continue
        if (e in ia.event_subtype_cost) != (o in ia.event_subtype_cost) or (e in ia.event_subtype_cost and ia.event_subtype_cost[e] != ia.event_subtype_cost[o]):
            ctx.violation(None, "event_subtype_cost differs between %s and %s" % (e.name, o.name), {"event": e.name})
        for cls in ("nnic_event_types", "nic_event_types", "nonintronic_events"):
            s = getattr(ia, cls)
            if (e in s) != (o in s): ctx.violation(None, "%s contains %s but not %s" % (cls, e.name, o.name), {"event": e.name})
        for pred in ("is_alignment_artifact", "is_minor_error", "is_consistent", "is_major_elongation", "is_minor_elongation", "is_major_inconsistency", "is_intronic_inconsistency"):
            if getattr(S, pred)(e) != getattr(S, pred)(o): ctx.violation(None, "MatchEventSubtype.%s differs between %s and %s" % (pred, e.name, o.name), {"event": e.name})
        names = ia.match_subtype_printable_names
        if (e in names) != (o in names): ctx.violation(None, "printable names: %s listed, %s not" % (e.name, o.name), {"event": e.name})
        elif e in names and e != o and names[o] != (names[e][1], names[e][0], names[e][2]):
            ctx.violation(None, "printable names of %s / %s are not strand-swapped images of each other" % (e.name, o.name), {"event": e.name, "names": [names[e], names[o]]})
    ctx.count(evaluations=n, nontrivial=n)
    ctx.rule("event tables of src/isoform_assignment.py: cost, event classes, predicates and printable (strand-normalised) names of every subtype agree with those of its left/right counterpart")


PRE_PRIM = """From IQ.gen Require Import Prims.
From IQ Require Import Mirror.
Open Scope Z_scope.
(* case: ((a, b, d, L, k), (value, value on shifted arguments, value on mirrored arguments)) for overlaps_at_least and _when_overlap *)
Definition check (c:((Z*Z) * (Z*Z) * Z * Z * Z) * ((bool * bool * bool) * (bool * bool * bool))) :=
  let '(a, b, d, L, k) := fst c in let '((v, vs, vm), (w, ws, wm)) := snd c in
  Bool.eqb (py_overlaps_at_least a b d) v && Bool.eqb (py_overlaps_at_least (sh k a) (sh k b) d) vs && Bool.eqb (py_overlaps_at_least (rf L a) (rf L b) d) vm &&
  Bool.eqb (py_overlaps_at_least_when_overlap a b d) w && Bool.eqb (py_overlaps_at_least_when_overlap (sh k a) (sh k b) d) ws && Bool.eqb (py_overlaps_at_least_when_overlap (rf L a) (rf L b) d) wm.
Definition prop (c:((Z*Z) * (Z*Z) * Z * Z * Z) * ((bool * bool * bool) * (bool * bool * bool))) :=
  let '((v, vs, vm), (w, ws, wm)) := snd c in Bool.eqb v vs && Bool.eqb v vm && Bool.eqb w ws && Bool.eqb w wm.
"""

def unit_prims(ctx, quick):
    """the loop-free predicates of src/common.py on the real functions: shift invariance, self-mirror / mirror pairs"""
    from src import common as C
    U = 7 if quick else 9; L = 20; n = 0
    ivs = [(a, b) for a in range(1, U + 1) for b in range(a, U + 1)]
    selfm = [("overlaps", C.overlaps, 0), ("intersection_len", C.intersection_len, 0), ("equal_ranges", C.equal_ranges, 1), ("contains", C.contains, 0),
             ("contains_approx", C.contains_approx, 1), ("contains_well_inside", C.contains_well_inside, 1)]
    pairs = [("left_of", C.left_of, lambda a, b: C.left_of(b, a)), ("covers_start", C.covers_start, C.covers_end), ("covers_end", C.covers_end, C.covers_start)]
    cases = []
    for a in ivs:
        for b in ivs:
            for d in (0, 1, 2, 3):
                ma, mb = mir_iv(L, a), mir_iv(L, b); sa, sb = sh_iv(37, a), sh_iv(37, b)
                for name, f, nd in selfm:
                    if nd == 0 and d: continue
                    args = (d,) if nd else ()
                    v = f(a, b, *args); n += 1
                    if f(sa, sb, *args) != v: ctx.violation(None, "common.%s is not shift invariant" % name, {"a": a, "b": b, "delta": d, "k": 37})
                    if f(ma, mb, *args) != v: ctx.violation(None, "common.%s is not its own mirror image" % name, {"a": a, "b": b, "delta": d, "L": L})
                if d == 0:
                    for name, f, g in pairs:
                        n += 1
                        if f(sa, sb) != f(a, b): ctx.violation(None, "common.%s is not shift invariant" % name, {"a": a, "b": b, "k": 37})
                        if f(ma, mb) != g(a, b): ctx.violation(None, "common.%s(mirror) differs from its mirror partner" % name, {"a": a, "b": b, "L": L})
                    if C.overlap_intervals(ma, mb) != mir_iv(L, C.overlap_intervals(a, b)) or C.max_range(ma, mb) != mir_iv(L, C.max_range(a, b)) or \
                       C.overlap_intervals(sa, sb) != sh_iv(37, C.overlap_intervals(a, b)) or C.max_range(sa, sb) != sh_iv(37, C.max_range(a, b)):
                        ctx.violation(None, "overlap_intervals / max_range are not equivariant", {"a": a, "b": b})
                dd = d + 1
                v = tuple(bool(f(x, y, dd)) for f in (C.overlaps_at_least,) for x, y in ((a, b), (sa, sb), (ma, mb)))
                w = tuple(bool(f(x, y, dd)) for f in (C.overlaps_at_least_when_overlap,) for x, y in ((a, b), (sa, sb), (ma, mb)))
                cases.append(("((%s, %s, %s, %s, %s), ((%s, %s, %s), (%s, %s, %s)))" % ((civ(a), civ(b), cz(dd), cz(L), cz(37)) + tuple(cbool(x) for x in v + w)),
                              {"function": "overlaps_at_least / overlaps_at_least_when_overlap", "a": a, "b": b, "delta": dd, "L": L, "values(plain,shifted,mirrored)": [v, w]}))
    ctx.count(evaluations=n, nontrivial=n)
    def key(o):
        a, b, d = o["a"], o["b"], o["delta"]
        v, w = o["values(plain,shifted,mirrored)"]
        if v[0] != v[1] or w[0] != w[1]: return None
        shared_left = a[0] == b[0] and a[1] < b[1] and a[1] - a[0] < d - 1
        shared_right = a[1] == b[1] and b[0] < a[0] and a[1] - a[0] < d - 1
        return K_OVL if (shared_left or shared_right) else None
    ctx.rule("interval predicates of src/common.py on the real functions: all pairs of intervals over 1..%d x delta 0..3: shift by 37 and reflection; overlaps_at_least(_when_overlap) through Coq "
             "(translated text = real value on plain, shifted and mirrored arguments); non-trivial = overlapping intervals" % U)
    mism, viol = ctx.corr("overlaps_at_least metamorphic", PRE_PRIM, cases, shard=200, nontrivial=lambda o: o["values(plain,shifted,mirrored)"][0][0])
    report_strict(ctx, "overlaps_at_least metamorphic", mism, viol, keyfn=key, what="overlaps_at_least is not its own mirror image")


def unit_lists(ctx, quick):
    """interval-list functions of src/common.py on the real code: f(shift x) = shift f(x), f(mirror x) = mirror f(x)"""
    from src import common as C
    rnd = ctx.rnd; n = 0; nt = 0
    from props.c19 import sd_lists, rand_sd
    small = sd_lists(6, 3)
    lists = [l for l in small if l] + [rand_sd(rnd, rnd.randint(1, 8), span=400) for _ in range(300 if quick else 3000)]
    L = 500
    def chk(name, ok, rep):
        if not ok: ctx.violation(None, "common.%s is not equivariant" % name, rep)
    for l in lists:
        ml = mir_ivs(L, l)
        for k in (1, 37, 256):
            sl = sh_ivs(k, l)
            chk("junctions_from_blocks", C.junctions_from_blocks(sl) == sh_ivs(k, C.junctions_from_blocks(l)), {"blocks": l, "k": k})
            chk("intervals_total_length", C.intervals_total_length(sl) == C.intervals_total_length(l), {"l": l, "k": k})
        chk("junctions_from_blocks", C.junctions_from_blocks(ml) == mir_ivs(L, C.junctions_from_blocks(l)), {"blocks": l, "L": L, "transform": "mirror"})
        pts = sorted(set([l[0][0] - 1, l[-1][1] + 1] + [x + d for a in l for x in a for d in (-1, 0, 1)]))
        for p in pts:
            n += 1
            a = C.sum_intervals_to_point(l, p); b = C.sum_intervals_from_point(l, p)
            if a: nt += 1
            chk("sum_intervals_to_point", C.sum_intervals_to_point(sh_ivs(37, l), p + 37) == a, {"l": l, "pos": p, "k": 37})
            chk("sum_intervals_from_point", C.sum_intervals_from_point(sh_ivs(37, l), p + 37) == b, {"l": l, "pos": p, "k": 37})
            chk("sum_intervals_from_point(mirror) vs sum_intervals_to_point", C.sum_intervals_from_point(ml, L + 1 - p) == a, {"l": l, "pos": p, "L": L})
            chk("sum_intervals_to_point(mirror) vs sum_intervals_from_point", C.sum_intervals_to_point(ml, L + 1 - p) == b, {"l": l, "pos": p, "L": L})
            i1 = C.interval_bin_search(l, p); i2 = C.interval_bin_search_rev(l, p)
            chk("interval_bin_search", C.interval_bin_search(sh_ivs(37, l), p + 37) == i1, {"l": l, "pos": p, "k": 37})
            chk("interval_bin_search_rev", C.interval_bin_search_rev(sh_ivs(37, l), p + 37) == i2, {"l": l, "pos": p, "k": 37})
            j = C.interval_bin_search_rev(ml, L + 1 - p)
            chk("interval_bin_search_rev(mirror) vs interval_bin_search", (j == -1 and i1 == -1) or (j != -1 and i1 != -1 and j == len(l) - 1 - i1), {"l": l, "pos": p, "L": L, "bin_search": i1, "bin_search_rev(mirror)": j})
            j = C.interval_bin_search(ml, L + 1 - p)
            chk("interval_bin_search(mirror) vs interval_bin_search_rev", (j == -1 and i2 == -1) or (j != -1 and i2 != -1 and j == len(l) - 1 - i2), {"l": l, "pos": p, "L": L, "bin_search_rev": i2, "bin_search(mirror)": j})
    pairs = [(a, b) for a in small for b in small if a and b]
    if quick: pairs = rnd.sample(pairs, 4000)
    pairs += [(rand_sd(rnd, rnd.randint(1, 7), span=300), rand_sd(rnd, rnd.randint(1, 7), span=300)) for _ in range(400 if quick else 4000)]
    for a, b in pairs:
        n += 1
        j = C.jaccard_similarity(a, b); cv = C.read_coverage_fraction(a, b); m = C.merge_ranges(a, b)
        if j: nt += 1
        for k in (1, 256):
            chk("jaccard_similarity", C.jaccard_similarity(sh_ivs(k, a), sh_ivs(k, b)) == j, {"a": a, "b": b, "k": k})
            chk("read_coverage_fraction", C.read_coverage_fraction(sh_ivs(k, a), sh_ivs(k, b)) == cv, {"a": a, "b": b, "k": k})
            chk("merge_ranges", C.merge_ranges(sh_ivs(k, a), sh_ivs(k, b)) == sh_ivs(k, m), {"a": a, "b": b, "k": k})
        ma, mb = mir_ivs(L, a), mir_ivs(L, b)
        chk("jaccard_similarity(mirror)", C.jaccard_similarity(ma, mb) == j, {"a": a, "b": b, "L": L})
        chk("read_coverage_fraction(mirror)", C.read_coverage_fraction(ma, mb) == cv, {"a": a, "b": b, "L": L})
        chk("merge_ranges(mirror)", C.merge_ranges(ma, mb) == mir_ivs(L, m), {"a": a, "b": b, "L": L})
    # get_read_blocks: reference blocks move with ref_start, read / cigar blocks do not
    from props.c16 import random_valid_cigar
    for _ in range(400 if quick else 4000):
        ops = random_valid_cigar(rnd, maxops=8, maxlen=40); rs = rnd.randint(0, 5000); n += 1
        r0 = C.get_read_blocks(rs, ops)
        for k in (1, 37, 256, 1000):
            r1 = C.get_read_blocks(rs + k, ops)
            chk("get_read_blocks", r1[0] == sh_ivs(k, r0[0]) and r1[1:] == r0[1:], {"ref_start": rs, "cigar": ops, "k": k})
        # reflection: the reversed CIGAR on the mirrored start (0-based [rs, re) -> [L-re, L-rs)) gives the mirrored exons
        Lc = 100000; ref_len = sum(l for o, l in ops if o in (0, 2, 3, 7, 8)); qlen = sum(l for o, l in ops if o in (0, 1, 4, 7, 8))
        rm = C.get_read_blocks(Lc - (rs + ref_len), list(reversed(ops)))
        chk("get_read_blocks(mirror)", rm[0] == mir_ivs(Lc, r0[0]) and rm[1] == [(qlen - 1 - b, qlen - 1 - a) for a, b in reversed(r0[1])],
            {"ref_start": rs, "cigar": ops, "L": Lc, "exons": r0[0], "exons(mirror)": rm[0], "read_blocks": r0[1], "read_blocks(mirror)": rm[1]})
    ctx.count(evaluations=n, nontrivial=nt)
    ctx.rule("interval-list functions on the real code (junctions_from_blocks, intervals_total_length, sum_intervals_to_point / from_point, interval_bin_search / _rev, jaccard_similarity, "
             "read_coverage_fraction, merge_ranges, get_read_blocks): every strictly separated list of <= 3 intervals over 1..6 and random lists; shifts {1,37,256,1000} and reflection, mirror pairs crossed")


# ---------------------------------------------------------------------------------------------- polyA counting / shifting pairs
PRE_PA = """From IQ Require Import Mirror PolyA PolyA2 MirrorProofs.
Open Scope Z_scope.
(* case: ((mf, exons, pos, cnt, L, k), (count_a, count_t, shift_a, shift_t), (the same on shifted input), (the same on mirrored input)) *)
Definition Q := (Z * Z * Z * Z)%type.
Definition q_eqb (a b:Q) := let '(a1, a2, a3, a4) := a in let '(b1, b2, b3, b4) := b in (a1 =? b1) && (a2 =? b2) && (a3 =? b3) && (a4 =? b4).
Definition model (mf:Z) (ex:list iv) (pos cnt:Z) : Q :=
  (count_polya_exons mf ex pos, count_polyt_exons mf ex pos, shift_polya ex cnt pos, shift_polyt ex cnt pos).
Definition check (c:(Z * list iv * Z * Z * Z * Z) * Q * Q * Q) :=
  let '(mf, ex, pos, cnt, L, k) := fst (fst (fst c)) in
  q_eqb (model mf ex pos cnt) (snd (fst (fst c))) && q_eqb (model mf (shl k ex) (shp k pos) cnt) (snd (fst c)) && q_eqb (model mf (rfl L ex) (rfp L pos) cnt) (snd c).
(* the implementation's values satisfy the shift and mirror-pair statements *)
Definition prop (c:(Z * list iv * Z * Z * Z * Z) * Q * Q * Q) :=
  let '(mf, ex, pos, cnt, L, k) := fst (fst (fst c)) in
  let '(ca, ct, sa, st) := snd (fst (fst c)) in let '(ca1, ct1, sa1, st1) := snd (fst c) in let '(ca2, ct2, sa2, st2) := snd c in
  let unchanged := (cnt =? 0) || (cnt =? Z.of_nat (length ex)) || (pos =? -1) in
  (ca1 =? ca) && (ct1 =? ct) && (sa1 =? if unchanged then shp k pos else sa + k) && (st1 =? if unchanged then shp k pos else st + k) &&
  (ct2 =? ca) && (ca2 =? ct) && (st2 =? if unchanged then rfp L pos else L + 1 - sa) && (sa2 =? if unchanged then rfp L pos else L + 1 - st).
"""

def unit_polya_pairs(ctx, quick):
    from src import polya_verification as pv
    rnd = ctx.rnd; cases = []
    fixer = pv.PolyAFixer(types.SimpleNamespace(max_fake_terminal_exon_len=8))
    L = 200; k = 37
    exon_sets = [[(10, 12), (20, 21), (30, 45)], [(10, 30), (40, 41), (50, 52)], [(5, 6), (9, 10)], [(100, 120), (130, 133), (150, 190)], [(7, 9)]]
    for n in (1, 2, 3, 4, 5):
        for _ in range(4 if quick else 60):
            c = sorted(rnd.sample(range(1, 90), 2 * n)); exon_sets.append([(c[2 * i], c[2 * i + 1]) for i in range(n)])
    def run(ex, pos, cnt):
        return (fixer.count_polya_exons(ex, pos), fixer.count_polyt_exons(ex, pos), pv.shift_polya(ex, cnt, pos), pv.shift_polyt(ex, cnt, pos))
    for ex in exon_sets:
        pts = sorted(set([-1] + [x + d for e in ex for x in e for d in ((-2, 0, 1, 9) if quick else (-2, -1, 0, 1, 2, 9))] + [ex[0][0] - 5, ex[-1][1] + 5]))
        pts = [p for p in pts if p == -1 or 0 < p <= L]
        for pos in pts:
            for cnt in range(0, len(ex) + 1):
                q0 = run(ex, pos, cnt); q1 = run(sh_ivs(k, ex), sh_pos(k, pos), cnt); q2 = run(mir_ivs(L, ex), mir_pos(L, pos), cnt)
                t = "((((%s, %s, %s, %s, %s, %s), %s), %s), %s)" % (cz(8), civs(ex), cz(pos), cz(cnt), cz(L), cz(k), *("(%s, %s, %s, %s)" % tuple(cz(x) for x in q) for q in (q0, q1, q2)))
                cases.append((t, {"exons": ex, "pos": pos, "count": cnt, "L": L, "k": k, "impl(count_a,count_t,shift_a,shift_t)": [q0, q1, q2]}))
    ctx.rule("count_polya_exons / count_polyt_exons / shift_polya / shift_polyt on the real functions: exon lists of 1-5 exons x positions at every exon boundary +-{0,1,2,9}, -1 and outside "
             "x every count; plain, shifted by 37 and mirrored input; Coq checks model = implementation on all three and the mirror-pair / shift statements on the implementation's values; "
             "non-trivial = a terminal exon is counted or the position moved")
    mism, viol = ctx.corr("polyA pairs", PRE_PA, cases, shard=500, nontrivial=lambda o: any(o["impl(count_a,count_t,shift_a,shift_t)"][0][:2]) or o["impl(count_a,count_t,shift_a,shift_t)"][0][2] != o["pos"])
    report_strict(ctx, "polyA pairs", mism, viol, what="count_polya/polyt_exons, shift_polya/polyt: shift or mirror-pair statement fails")


# ---------------------------------------------------------------------------------------------- PolyAVerifier pair
PRE_V = """From IQ.gen Require Import Tables.
From IQ Require Import Mirror MirrorPairs MirrorPairsProofs.
Open Scope Z_scope.
Definition ev_eqb (a b:ev) : bool := MES_eqb (ev_type a) (ev_type b) && iv_eqb (ev_iso a) (ev_iso b) && iv_eqb (ev_read a) (ev_read b) && (ev_info a =? ev_info b).
Definition evs_eqb := list_eqb ev_eqb.
Definition P0 := mkvp 5 4 6 2.
(* case: (which, iso, read, ext, int, events, L), impl on the polyA side, impl of the polyT side on the mirrored input *)
Definition D := (list ev * Z * Z)%type.
Definition d_eqb (a b:D) := evs_eqb (fst (fst a)) (fst (fst b)) && (snd (fst a) =? snd (fst b)) && (snd a =? snd b).
Definition T := ((list iv * list iv * Z * Z * list ev * Z) * (outcome (list ev) * outcome (list ev)) * (D * D) * (option (list ev) * option (list ev)))%type.
Definition mevs (iso:list iv) (L:Z) := map (mev (Z.of_nat (length iso)) L).
Definition check (c:T) :=
  let '(iso, read, ext, int, events, L) := fst (fst (fst c)) in
  let '(va, vt) := snd (fst (fst c)) in let '(da, dt) := snd (fst c) in let '(ca, ct) := snd c in
  outcome_eqb evs_eqb (verify_polya P0 iso read ext int events) va &&
  outcome_eqb evs_eqb (verify_polyt P0 (rfl L iso) (rfl L read) (rfp L ext) (rfp L int) (mevs iso L events)) vt &&
  d_eqb (detect_beyond_polya P0 iso ext int events) da &&
  d_eqb (detect_before_polyt P0 (rfl L iso) (rfp L ext) (rfp L int) (mevs iso L events)) dt &&
  opt_eqb evs_eqb (check_if_close P0 (snd (last iso (0,0))) ext int events MES_correct_polya_site_right) ca &&
  opt_eqb evs_eqb (check_if_close P0 (L + 1 - snd (last iso (0,0))) (rfp L ext) (rfp L int) (mevs iso L events) MES_correct_polya_site_left) ct.
(* the two real halves are mirror images of each other on this input *)
Definition prop (c:T) :=
  let '(iso, read, ext, int, events, L) := fst (fst (fst c)) in
  let '(va, vt) := snd (fst (fst c)) in let '(da, dt) := snd (fst c) in let '(ca, ct) := snd c in
  outcome_eqb evs_eqb vt (match va with Ok l => Ok (mevs iso L l) | Raises e => Raises e end) &&
  d_eqb dt (mevs iso L (fst (fst da)), rfp L (snd (fst da)), rfp L (snd da)) &&
  opt_eqb evs_eqb ct (option_map (mevs iso L) ca).
"""

def unit_verifier(ctx, quick):
    from src import polya_verification as pv, polya_finder as pf
    from src.isoform_assignment import MatchEvent, MatchEventSubtype as S
    rnd = ctx.rnd
    params = types.SimpleNamespace(apa_delta=5, max_fake_terminal_exon_len=4, max_missed_exon_len=6, delta=2)
    ver = pv.PolyAVerifier.__new__(pv.PolyAVerifier); ver.params = params; ver.gene_info = None; ver.polya_fixer = None
    L = 120
    def mev(n, e):
        t = S[T.swap_lr(e.event_type.name)]
        iso = e.isoform_region
        if e.event_type in (S.terminal_exon_misalignment_left, S.terminal_exon_misalignment_right): iso = (n - 2 - iso[1], n - 2 - iso[0])
        info = e.event_info
        if e.event_type.name.startswith(("alternative_polya_site", "correct_polya_site", "internal_polya")): info = mir_pos(L, info)
        return MatchEvent(t, iso, e.read_region, info)
    pool_r = [S.major_exon_elongation_right, S.exon_elongation_right, S.fake_terminal_exon_right, S.terminal_exon_misalignment_right, S.fsm, S.ism_left,
              S.exon_elongation_left, S.fake_terminal_exon_left, S.intron_retention, S.terminal_site_match_right]
    cases = []
    def copy(evs): return [MatchEvent(e.event_type, e.isoform_region, e.read_region, e.event_info) for e in evs]
    iso_sets = []
    for n in (1, 2, 3, 4):
        for _ in range(5 if quick else 40):
            c = sorted(rnd.sample(range(20, 100), 2 * n)); iso_sets.append([(c[2 * i], c[2 * i + 1]) for i in range(n)])
    iso_sets += [[(20, 40), (50, 52), (60, 61)], [(20, 40), (50, 53)], [(30, 31), (40, 42), (50, 90)]]
    for iso in iso_sets:
        n = len(iso)
        for rep in range(22 if quick else 80):
            # read exons: a variation of the isoform's exons
            m = rnd.randint(1, n); read = [(a + rnd.randint(-2, 2), b + rnd.randint(-2, 2)) for a, b in iso[:m]]
            read = [(a, max(a, b)) for a, b in read]
            if rnd.random() < .4: read[-1] = (read[-1][0], read[-1][1] + rnd.randint(0, 12))
            end = iso[-1][1]
            cand = [-1, end, end + 1, end - 1, end + 5, end + 6, end - 5, end - 6, read[-1][1], read[-1][1] + 2, iso[max(0, n - 2)][1], iso[max(0, n - 2)][1] + rnd.randint(-3, 5),
                    iso[-1][0], iso[-1][0] - 1, rnd.randint(10, 110)]
            ext = rnd.choice(cand); int_ = rnd.choice(cand)
            evs = []
            for _e in range(rnd.randint(0, 4)):
                t = rnd.choice(pool_r)
                reg = (rnd.randint(0, 3),) * 2 if t in (S.terminal_exon_misalignment_right, S.intron_retention) else (1 << 31, 1 << 31)
                evs.append(MatchEvent(t, reg, (1 << 31, 1 << 31), rnd.randint(0, 60) if "elongation" in t.name or "match" in t.name else 0))
            info = pf.PolyAInfo(ext, -1, int_, -1)
            va = call(lambda: ver.verify_polya(list(iso), list(read), info, copy(evs)))
            da = ver.detect_reference_exons_beyond_polya(list(iso), ext, int_, copy(evs))
            ca = ver.check_if_close(iso[-1][1], ext, int_, copy(evs), S.correct_polya_site_right)
            miso, mread = mir_ivs(L, iso), mir_ivs(L, read); mext, mint = mir_pos(L, ext), mir_pos(L, int_)
            mevs = [mev(n, e) for e in evs]
            minfo = pf.PolyAInfo(-1, mext, -1, mint)
            vt = call(lambda: ver.verify_polyt(list(miso), list(mread), minfo, copy(mevs)))
            dt = ver.detect_reference_exons_before_polyt(list(miso), mext, mint, copy(mevs))
            ct = ver.check_if_close(miso[0][0], mext, mint, copy(mevs), S.correct_polya_site_left)
            cd = lambda d: "(%s, %s, %s)" % (cevs(d[0]), cz(d[1]), cz(d[2]))
            term = "((((%s, %s, %s, %s, %s, %s), (%s, %s)), (%s, %s)), (%s, %s))" % (
                civs(iso), civs(read), cz(ext), cz(int_), cevs(evs), cz(L), cres(va, cevs), cres(vt, cevs), cd(da), cd(dt), copt(ca, cevs), copt(ct, cevs))
            cases.append((term, {"isoform_exons": iso, "read_exons": read, "external_polya": ext, "internal_polya": int_, "events": [jev(e) for e in evs], "L": L,
                                 "verify_polya": [jev(e) for e in va[1]] if va[0] == "ok" else va, "verify_polyt(mirror)": [jev(e) for e in vt[1]] if vt[0] == "ok" else vt,
                                 "detect_beyond_polya": [[jev(e) for e in da[0]], da[1], da[2]], "detect_before_polyt(mirror)": [[jev(e) for e in dt[0]], dt[1], dt[2]]}))
    ctx.rule("PolyAVerifier.verify_polya / verify_polyt, detect_reference_exons_beyond_polya / _before_polyt, check_if_close on the real methods (apa_delta 5, max_fake_terminal_exon_len 4, "
             "max_missed_exon_len 6, delta 2): isoforms of 1-4 exons, reads derived from them, tail positions at and around isoform / read ends (and -1), 0-4 prior events; the polyA side on the "
             "input, the polyT side on the mirrored input; Coq checks model = implementation for each half and that the two implementations' outputs are mirror images; non-trivial = not an assertion")
    mism, viol = ctx.corr("PolyAVerifier pair", PRE_V, cases, shard=34, ctype="T", nontrivial=lambda o: isinstance(o["verify_polya"], list))
    report_strict(ctx, "PolyAVerifier pair", mism, viol, what="verify_polyt / detect_reference_exons_before_polyt / check_if_close on the mirrored input is not the mirror image of the polyA side")


# ---------------------------------------------------------------------------------------------- select_similar_isoforms / elongation subtype
PRE_SEL = """From IQ Require Import Mirror MirrorPairs MirrorPairsProofs.
Open Scope Z_scope.
(* case: ((delta, read_region, candidates, L), selected on the input, selected on the mirrored input) *)
Definition mcand (L:Z) (c:Z * Z * iv) := let '(id, diff, tr) := c in (id, diff, rf L tr).
Definition T := ((Z * iv * list (Z * Z * iv) * Z) * list Z * list Z)%type.
Definition check (c:T) := let '(delta, rr, cands, L) := fst (fst c) in
  zs_eqb (best_candidates delta rr cands) (snd (fst c)) && zs_eqb (best_candidates delta (rf L rr) (map (mcand L) cands)) (snd c).
Definition prop (c:T) := zs_eqb (snd (fst c)) (snd c).
"""
PRE_EL = """From IQ.gen Require Import Tables.
From IQ Require Import Mirror MirrorPairs MirrorPairsProofs.
Open Scope Z_scope.
Definition ev_eqb (a b:ev) : bool := MES_eqb (ev_type a) (ev_type b) && iv_eqb (ev_iso a) (ev_iso b) && iv_eqb (ev_read a) (ev_read b) && (ev_info a =? ev_info b).
Definition evs_eqb := list_eqb ev_eqb.
Definition E0 := mkep 6 12 2.
(* case: ((split_exons, iso_prof, read_prof, iso_range, read_range, read_exons, L), events on the input, events on the mirrored input) *)
Definition T := ((list iv * list Z * list Z * iv * iv * list iv * Z) * option (list ev) * option (list ev))%type.
Definition mrange (n:Z) (r:iv) : iv := (n - snd r, n - fst r).
Definition left_of_ev (e:ev) : bool := mem_mes (ev_type e) [MES_terminal_site_match_left; MES_terminal_site_match_left_precise; MES_exon_elongation_left; MES_major_exon_elongation_left].
Definition swapped (l:list ev) : list ev := map (mev 0 0) (filter (fun e => negb (left_of_ev e)) l) ++ map (mev 0 0) (filter left_of_ev l).
Definition check (c:T) := let '(sx, ip, rp, ir, rr, rex, L) := fst (fst c) in let n := Z.of_nat (length sx) in
  opt_eqb evs_eqb (categorize_elongation E0 sx ip rp ir rr rex) (snd (fst c)) &&
  opt_eqb evs_eqb (categorize_elongation E0 (rfl L sx) (rev ip) (rev rp) (mrange n ir) (mrange n rr) (rfl L rex)) (snd c).
Definition prop (c:T) := opt_eqb evs_eqb (snd c) (option_map swapped (snd (fst c))).
"""

def unit_assigner(ctx, quick):
    from src import long_read_assigner as lra
    from src.isoform_assignment import MatchEvent, MatchEventSubtype as S
    rnd = ctx.rnd
    # ---- select_similar_isoforms: the real method on a stub object; everything before the penalty loop is stubbed
    cases = []
    L = 400
    def run_select(delta, read_region, cands):
        prof = types.SimpleNamespace(read_split_exon_profile=types.SimpleNamespace(read_features=[read_region]),
                                     read_intron_profile=types.SimpleNamespace(gene_profile=[], gene_profile_range=(0, 0)))
        st = types.SimpleNamespace()
        st.params = types.SimpleNamespace(delta=delta)
        st.gene_info = types.SimpleNamespace(split_exon_profiles=None, intron_profiles=types.SimpleNamespace(profiles={}),
                                             transcript_region=lambda i: dict((c[0], c[2]) for c in cands)[i])
        st.find_overlapping_isoforms = lambda *a, **k: set(c[0] for c in cands)
        st.coverage_based_nucleotide_score = None
        st.resolve_by_nucleotide_score = lambda *a, **k: [c[0] for c in cands]
        st.match_profile = lambda *a, **k: [lra.IsoformDiff(c[0], c[1]) for c in cands]
        return lra.LongReadAssigner.select_similar_isoforms(st, prof)
    src_text = open(os.path.join(REPO, "src", "long_read_assigner.py")).read()
    repaired = "extra_right = 1 if read_region[1] - self.params.delta > transcript_end else 0" in src_text      # fixes/C11_extra_right_typo.diff applied: the model is best_candidates_fix
    corpus = [(4, (160, 200), [(1, 0, (150, 190)), (2, 4, (150, 210))])]            # the witness of MirrorPairsProofs.v
    for it in range(len(corpus) + (1600 if quick else 30000)):
        if it < len(corpus): delta, rr, cands = corpus[it]
        else:
            delta = rnd.choice([0, 2, 4]); a = rnd.randint(50, 300); rr = (a, a + rnd.randint(0, 60))
            cands = []
            for i in range(rnd.randint(1, 4)):
                s = rr[0] + rnd.choice([-30, -delta - 1, -delta, 0, delta, delta + 1, 30]); e = rr[1] + rnd.choice([-30, -delta - 1, -delta, 0, delta, delta + 1, 30, -80])
                cands.append((i + 1, rnd.randint(0, 5), (min(s, e), max(s, e))))
        r0 = run_select(delta, rr, cands)
        r1 = run_select(delta, mir_iv(L, rr), [(i, d, mir_iv(L, tr)) for i, d, tr in cands])
        cc = clist(cands, lambda c: "(%s, %s, %s)" % (cz(c[0]), cz(c[1]), civ(c[2])))
        cases.append(("(((%s, %s, %s, %s), %s), %s)" % (cz(delta), civ(rr), cc, cz(L), czs(r0), czs(r1)),
                      {"delta": delta, "read_region": rr, "candidates(id,intron_diff,transcript_region)": cands, "L": L, "selected": r0, "selected(mirror)": r1}))
    def key_sel(o):
        d = o["delta"]; L = o["L"]
        # the halves disagree on this input or on its mirror image: the mirror image of extra_left fires for a candidate, the code's extra_right does not
        for rr, cands in ((o["read_region"], [c[2] for c in o["candidates(id,intron_diff,transcript_region)"]]),
                          (mir_iv(L, o["read_region"]), [mir_iv(L, c[2]) for c in o["candidates(id,intron_diff,transcript_region)"]])):
            if any((rr[1] - d > tr[1]) != (rr[0] - d > tr[1]) for tr in cands): return K_EXTRA
        return None
    ctx.rule("LongReadAssigner.select_similar_isoforms (real method, collaborators before the penalty loop stubbed): 1-4 candidate isoforms whose ends lie at +-{0, delta, delta+1, 30} of the read's ends, "
             "intron differences 0-5; input and mirrored input; Coq: model = implementation on both, selections equal; non-trivial = a candidate was dropped")
    pre_sel = PRE_SEL.replace("best_candidates delta", "best_candidates_fix delta") if repaired else PRE_SEL
    if repaired: ctx.notes.append("select_similar_isoforms: the repository has read_region[1] in extra_right; model best_candidates_fix")
    mism, viol = ctx.corr("select_similar_isoforms", pre_sel, cases, shard=110, ctype="T", nontrivial=lambda o: len(o["selected"]) < len(o["candidates(id,intron_diff,transcript_region)"]))
    report_strict(ctx, "select_similar_isoforms", mism, viol, keyfn=key_sel, what="select_similar_isoforms selects different isoforms for a read and its mirror image")

    # ---- categorize_exon_elongation_subtype
    cases = []
    params = types.SimpleNamespace(minor_exon_extension=6, major_exon_extension=12, delta=2)
    def run_el(sx, ip, rp, ir, rrange, rex):
        st = types.SimpleNamespace(params=params, gene_info=types.SimpleNamespace(split_exon_profiles=types.SimpleNamespace(features=sx, profiles={"t": ip}, profile_ranges={"t": ir})))
        prof = types.SimpleNamespace(gene_profile=rp, gene_profile_range=rrange, read_features=rex)
        import logging; lg = logging.getLogger('IsoQuant'); old = lg.level; lg.setLevel(logging.ERROR)
        try: return call(lambda: lra.LongReadAssigner.categorize_exon_elongation_subtype(st, prof, "t"))
        finally: lg.setLevel(old)
    L = 300
    # the witness of MirrorPairsProofs.v (no common exon), scaled to the thresholds used here
    for sx, ip, rp, ir, rr_, rex in [([(100, 140), (180, 220)], [1, 1], [-1, -1], (0, 2), (0, 2), [(95, 140), (180, 224)])]:
        n = len(sx); r0 = run_el(sx, ip, rp, ir, rr_, rex); mr = lambda r: (n - r[1], n - r[0])
        r1 = run_el(mir_ivs(L, sx), ip[::-1], rp[::-1], mr(ir), mr(rr_), mir_ivs(L, rex)); o = lambda r: copt(r[1] if r[0] == "ok" else None, cevs)
        cases.append(("(((%s, %s, %s, %s, %s, %s, %s), %s), %s)" % (civs(sx), czs(ip), czs(rp), civ(ir), civ(rr_), civs(rex), cz(L), o(r0), o(r1)),
                      {"split_exons": sx, "isoform_profile": ip, "read_profile": rp, "isoform_range": ir, "read_range": rr_, "read_exons": rex, "L": L,
                       "events": [jev(e) for e in r0[1]] if r0[0] == "ok" else r0, "events(mirror)": [jev(e) for e in r1[1]] if r1[0] == "ok" else r1}))
    for _ in range(1600 if quick else 25000):
        n = rnd.randint(1, 6); c = sorted(rnd.sample(range(20, 260), 2 * n)); sx = [(c[2 * i], c[2 * i + 1]) for i in range(n)]
        ip = [rnd.choice([1, 1, -1, -2]) for _ in range(n)]; rp = [rnd.choice([1, 1, -1, 0]) for _ in range(n)]
        if rnd.random() < .7: rp = [(1 if rnd.random() < .8 else -1) if x == 1 else rnd.choice([-1, 0, 0]) for x in ip]      # reads that share exons with the isoform
        def rng(p, zero):
            lo = 0
            while lo < n and (p[lo] == 0 if zero else p[lo] < 1): lo += 1
            hi = n
            while hi > 0 and (p[hi - 1] == 0 if zero else p[hi - 1] < 1): hi -= 1
            return (lo, hi)
        ir = rng(ip, False); rr_ = rng(rp, True)
        ones = [i for i in range(n) if rp[i] == 1]
        f = sx[ones[0]] if ones else sx[0]; l = sx[ones[-1]] if ones else sx[-1]
        rex = [(f[0] + rnd.choice([-14, -12, -7, -6, -3, -2, 0, 1, 2, 3]), f[1])] if f == l else [(f[0] + rnd.choice([-14, -12, -7, -6, -3, -2, 0, 1, 2, 3]), f[1]), (l[0], l[1])]
        rex[-1] = (rex[-1][0], max(rex[-1][0], l[1] + rnd.choice([14, 12, 7, 6, 3, 2, 0, -1, -2, -3])))
        r0 = run_el(sx, ip, rp, ir, rr_, rex)
        mr = lambda r: (n - r[1], n - r[0])
        r1 = run_el(mir_ivs(L, sx), ip[::-1], rp[::-1], mr(ir), mr(rr_), mir_ivs(L, rex))
        o = lambda r: copt(r[1] if r[0] == "ok" else None, cevs)
        cases.append(("(((%s, %s, %s, %s, %s, %s, %s), %s), %s)" % (civs(sx), czs(ip), czs(rp), civ(ir), civ(rr_), civs(rex), cz(L), o(r0), o(r1)),
                      {"split_exons": sx, "isoform_profile": ip, "read_profile": rp, "isoform_range": ir, "read_range": rr_, "read_exons": rex, "L": L,
                       "events": [jev(e) for e in r0[1]] if r0[0] == "ok" else r0, "events(mirror)": [jev(e) for e in r1[1]] if r1[0] == "ok" else r1}))
    ctx.rule("LongReadAssigner.categorize_exon_elongation_subtype (real method on stub profiles; minor/major extension 6/12, delta 2): 1-6 split exons, random isoform / read profiles, read ends at "
             "+-{0..3, 6, 7, 12, 14} of the first / last common exon; input and mirrored input; Coq: model = implementation on both, events mirrored (left <-> right); non-trivial = an event is reported")
    def key_el(o):
        n = len(o["split_exons"]); ip, rp = o["isoform_profile"], o["read_profile"]; ir, rr = o["isoform_range"], o["read_range"]
        left = any(ip[i] == 1 and rp[i] == 1 for i in range(max(ir[0], rr[0], 0), n))
        right = any(ip[i] == 1 and rp[i] == 1 for i in range(0, min(ir[1] - 1, rr[1] - 1, n - 1) + 1))
        return None if (left and right) else K_ODD
    mism, viol = ctx.corr("categorize_exon_elongation_subtype", PRE_EL, cases, shard=105, ctype="T", nontrivial=lambda o: isinstance(o["events"], list) and len(o["events"]) > 0)
    report_strict(ctx, "categorize_exon_elongation_subtype", mism, viol, keyfn=key_el, what="categorize_exon_elongation_subtype is not its own mirror image")


# ---------------------------------------------------------------------------------------------- thread_ends / thread_starts
PRE_TH = """From IQ Require Import Mirror MirrorPairs MirrorPairsProofs.
Open Scope Z_scope.
(* case: ((apa, delta, terminal A/T positions, read end/start positions, neighbouring introns, position, trusted, L), thread_ends, thread_starts on the mirrored input) *)
Definition v_eqb (a b:option (Z*Z)) := opt_eqb iv_eqb a b.
Definition T := ((Z * Z * list Z * list Z * list iv * Z * bool * Z) * option (Z*Z) * option (Z*Z))%type.
Definition mp (L:Z) (l:list Z) := map (fun p => L + 1 - p) l.
Definition check (c:T) := let '(apa, delta, pa, re, out, e, tr, L) := fst (fst c) in
  v_eqb (thread_ends apa delta pa re out e tr) (snd (fst c)) &&
  v_eqb (thread_starts apa delta (mp L pa) (mp L re) (map (rf L) out) (L + 1 - e) tr) (snd c).
Definition prop (c:T) := let '(apa, delta, pa, re, out, e, tr, L) := fst (fst c) in
  v_eqb (snd c) (option_map (fun v => (fst v, L + 1 - snd v)) (snd (fst c))).
"""

def unit_thread(ctx, quick):
    from src import graph_based_model_construction as gb
    from src.intron_graph import VERTEX_polya, VERTEX_read_end, VERTEX_polyt, VERTEX_read_start
    rnd = ctx.rnd; cases = []; L = 10000
    def proc(apa, delta, out_map, in_map):
        p = gb.IntronPathProcessor.__new__(gb.IntronPathProcessor)
        p.params = types.SimpleNamespace(apa_delta=apa, delta=delta)
        g = types.SimpleNamespace()
        g.get_outgoing = lambda intron, v_type=None: list(out_map.get(v_type, []))
        g.get_incoming = lambda intron, v_type=None: list(in_map.get(v_type, []))
        p.intron_graph = g
        return p
    kind = {VERTEX_polya: 0, VERTEX_read_end: 1, VERTEX_polyt: 0, VERTEX_read_start: 1}
    corpus = [(50, 6, [], [5000], [], 5020, False), (50, 6, [], [5000], [], 5020, True),        # the witnesses of MirrorPairsProofs.v
              (5, 2, [500], [500], [], 500, True), (5, 2, [500], [500], [], 507, True), (5, 2, [500], [500, 490], [], 503, False)]   # a polyA and a read-end vertex at one position
    for it in range(len(corpus) + (2400 if quick else 40000)):
        if it < len(corpus): apa, delta, pa, re_, out, e, tr = corpus[it]; base = 5000
        else:
            apa = rnd.choice([5, 10]); delta = rnd.choice([0, 2]); base = rnd.randint(300, 600)
            pa = sorted(set(base + rnd.randint(-12, 25) for _ in range(rnd.randint(0, 2)))); rnd.shuffle(pa)
            re_ = sorted(set(base + rnd.randint(-12, 25) for _ in range(rnd.randint(0, 3)))); rnd.shuffle(re_)
            out = [(base + rnd.randint(-10, 10), base + 100 + rnd.randint(0, 50)) for _ in range(rnd.randint(0, 2))]
            cand = [x + d for x in pa + re_ + [o[0] for o in out] + [base] for d in (-apa - 1, -apa, -1, 0, 1, delta, apa, apa + 1)]
            e = rnd.choice(cand); tr = rnd.random() < .4
        intron = (base - 200, base - 100)
        p = proc(apa, delta, {VERTEX_polya: [(VERTEX_polya, x) for x in pa], VERTEX_read_end: [(VERTEX_read_end, x) for x in re_], None: out}, {})
        r0 = p.thread_ends(intron, e, tr)
        m = lambda x: L + 1 - x
        p2 = proc(apa, delta, {}, {VERTEX_polyt: [(VERTEX_polyt, m(x)) for x in pa], VERTEX_read_start: [(VERTEX_read_start, m(x)) for x in re_], None: [mir_iv(L, o) for o in out]})
        r1 = p2.thread_starts(mir_iv(L, intron), m(e), tr)
        cv = lambda r: copt(None if r is None else (kind[r[0]], r[1]), civ)
        cases.append(("(((%s, %s, %s, %s, %s, %s, %s, %s), %s), %s)" % (cz(apa), cz(delta), czs(pa), czs(re_), civs(out), cz(e), cbool(tr), cz(L), cv(r0), cv(r1)),
                      {"apa_delta": apa, "delta": delta, "polya_vertices": pa, "read_end_vertices": re_, "outgoing_introns": out, "end": e, "trusted": tr, "L": L,
                       "thread_ends": r0, "thread_starts(mirror)": r1}))
    def key(o):
        r0, r1 = o["thread_ends"], o["thread_starts(mirror)"]
        # the known asymmetry: an untrusted end up to apa_delta beyond the rightmost known end is accepted, a start beyond the leftmost known start is not
        if r1 is None and r0 is not None and not o["trusted"] and r0[1] < o["end"] <= r0[1] + o["apa_delta"]: return K_THREAD
        # ties: with a polyA and a read-end vertex at the same position the stable sort puts the polyA vertex last and the polyT vertex second
        if r0 is not None and r1 is not None and r0[1] == o["L"] + 1 - r1[1] and r0[1] in o["polya_vertices"] and r0[1] in o["read_end_vertices"]: return K_TIE
        if (r0 is None) != (r1 is None) and o["trusted"]:
            v = r0 or (None, o["L"] + 1 - r1[1])
            if v[1] in o["polya_vertices"] and v[1] in o["read_end_vertices"]: return K_TIE
        return None
    ctx.rule("IntronPathProcessor.thread_ends / thread_starts (real methods on a stub intron graph; apa_delta 5 / 10, delta 0 / 2): 0-2 polyA vertices, 0-3 read-end vertices, 0-2 outgoing introns around a base "
             "position, read end at +-{0, 1, delta, apa_delta, apa_delta+1} of every vertex, trusted or not; thread_ends on the input, thread_starts on the mirrored input; Coq: model = implementation for each "
             "half, results mirror images; non-trivial = a vertex is returned")
    mism, viol = ctx.corr("thread_ends / thread_starts", PRE_TH, cases, shard=160, ctype="T", nontrivial=lambda o: o["thread_ends"] is not None)
    report_strict(ctx, "thread_ends / thread_starts", mism, viol, keyfn=key, what="thread_starts on the mirrored input is not the mirror image of thread_ends")


# ---------------------------------------------------------------------------------------------- split_coverage_regions under translation
PRE_SPLIT = """From IQ.gen Require Import Prims Tables.
From IQ Require Import Regions RegionsCorr Mirror MirrorRegions.
Open Scope Z_scope.
(* case: ((constants, region, read count, coverage_dict), sub-regions) of a cluster, the shift k, and the same of the cluster moved by k *)
Definition T := ((split_in * outcome (list iv)) * (Z * (split_in * outcome (list iv))))%type.
Definition check (c:T) := SPLIT_CHECK (fst c) && SPLIT_CHECK (snd (snd c)) &&
  (let '(_, r, cnt, _) := fst (fst c) in let '(_, r', cnt', _) := fst (snd (snd c)) in iv_eqb r' (sh (fst (snd c)) r) && (cnt =? cnt')).
(* whenever C11_unsplit_decision_shift_invariant (short region, few reads: EVERY k) or C11_split_regions_shift (k a multiple of the bin) applies,
   the sub-regions of the moved cluster are the moved sub-regions *)
Definition applies (c:T) : bool := let '(k0, r, cnt, _) := fst (fst c) in let '(B, ML, MR, _, _, _) := k0 in
  ((py_interval_len r <? ML) && (cnt <? MR)) || (fst (snd c) mod B =? 0).
Definition prop (c:T) := negb (applies c) ||
  outcome_eqb regs_eqb (snd (snd (snd c))) (match snd (fst c) with Ok l => Ok (shl (fst (snd c)) l) | Raises e => Raises e end).
"""

def unit_split(ctx, quick):
    """the REAL AlignmentCollector.split_coverage_regions on REAL storages filled from fake alignments, for cluster lengths around
       MAX_REGION_LEN and read counts around MIN_READS_TO_SPLIT, under shifts by every residue modulo the coverage bin"""
    from src import alignment_processor as ap
    from props.c05 import FA, real_consts, cconsts, cout, detect_repaired
    REAL = real_consts(); B, ML, MR = REAL[0], REAL[1], REAL[2]
    pre = PRE_SPLIT.replace("SPLIT_CHECK", "split_check" if detect_repaired() else "split_check_prev")
    rnd = ctx.rnd; cases = []; elsewhere = 0; n_apply = 0
    def split(alns):
        st = ap.InMemoryAlignmentStorage()
        for i, (a, b) in enumerate(alns): st.add_alignment(0, FA(a, b, i))
        try: regs = [tuple(r) for r in ap.AlignmentCollector.split_coverage_regions(st.region, st)]
        except Exception: regs = ("raises", 7)
        return st.region, st.get_read_count(), sorted(st.coverage_dict.items()), regs
    lengths = [ML - B + 1, ML - B // 2, ML - 2, ML - 1, ML, ML + 1, ML + B + 77, ML + 5 * B]
    starts = [4 * B, 4 * B + 1, 4 * B + 100, 4 * B + B - 1]
    counts = [4, MR - 1, MR] if not quick else [4, MR - 1]
    ks_all = list(range(0, B)) + [B, 2 * B - 1, 2 * B, 3 * B + 37]
    for ln in lengths:
        for s0 in (starts if not quick else starts[:3]):
            for cnt in counts:
                if cnt > 4 and (ln, s0) not in ((ML - 1, starts[0]), (ML, starts[0]), (ML - 1, starts[2])): continue      # the large clusters only at the threshold
                # deep part (cnt - 1 spliced alignments from the first base to 260 bases before the end) + one short read in the tail: coverage 1 in the last bin(s)
                alns = [(s0, s0 + ln - 260)] * (cnt - 1) + [(s0 + ln - 300, s0 + ln)]
                r0 = split(alns)
                ks = ks_all if not quick else sorted(set([0, 1, 2, 37, 100, 127, 128, 129, 254, 255, B, 2 * B] + [(-s0) % B, (-s0 - ln) % B, (-s0 - ln + 1) % B, (-s0 - ln - 1) % B] + rnd.sample(range(B), 6)))
                if cnt > 4: ks = [k for k in ks if k in (0, 1, 100, 255, B)]
                for k in ks:
                    rk = split([(a + k, b + k) for a, b in alns])
                    applies = (ln < ML and cnt < MR) or k % B == 0; n_apply += applies
                    if not applies and not isinstance(r0[3], tuple) and not isinstance(rk[3], tuple) and rk[3] != [(a + k, b + k) for a, b in r0[3]]: elsewhere += 1
                    t = lambda r: "((%s, %s, %s, %s), %s)" % (cconsts(REAL), civ(r[0]), cz(r[1]), clist(r[2], civ), cout(r[3], civs))
                    cases.append(("(%s, (%s, %s))" % (t(r0), cz(k), t(rk)),
                                  {"cluster_length": ln, "first_base(0-based)": s0, "reads": cnt, "shift": k, "alignments(start,end)": "%d x (%d, %d) + (%d, %d)" % (cnt - 1, s0, s0 + ln - 260, s0 + ln - 300, s0 + ln),
                                   "sub_regions": r0[3], "sub_regions_of_shifted_cluster": rk[3], "bins_covered": [len(r0[2]), len(rk[2])], "theorem_applies": bool(applies)}))
    ctx.rule("AlignmentCollector.split_coverage_regions (real function, real InMemoryAlignmentStorage filled from fake alignments, real constants): clusters of length MAX_REGION_LEN + {-255, -128, -2, -1, 0, 1, 333, 1280} "
             "starting at bin offsets {0, 1, 100, 255}, a one-read tail in the last bin, 4 / MIN_READS_TO_SPLIT-1 / MIN_READS_TO_SPLIT reads; shifted by %s; Coq: model = implementation for the cluster and the shifted cluster, "
             "and sub-regions(shift k) = shift k (sub-regions) whenever the unsplit theorem (short, few reads: every k) or split_regions_shift (k a multiple of 256) applies; non-trivial = theorem applies" %
             ("a covering sample of k (bin residues that move the cluster's ends across bin boundaries, 0, 1, 2, 37, 100, 127..129, 254..256, 512, 6 random)" if quick else "every k in 0..255 and 256, 511, 512, 805"))
    mism, viol = ctx.corr("split_coverage_regions under translation", pre, cases, shard=max(20, len(cases) // 16 + 1), ctype="T", nontrivial=lambda o: o["theorem_applies"])
    report_strict(ctx, "split_coverage_regions under translation", mism, viol, what="split_coverage_regions of the shifted cluster is not the shifted result although the decision / the cut must not depend on this shift")
    ctx.notes.append("split_coverage_regions under translation: %d cases, the theorems apply to %d; in %d of the others (long cluster, k not a multiple of the bin) the clean code cuts at another place relative to the reads (recorded, not a failure)" % (len(cases), n_apply, elsewhere))


# ---------------------------------------------------------------------------------------------- select_best_among_inconsistent
PRE_SCORE = r"""From Coq Require Import QArith Floats.
From IQ Require Import Junctions AssignerDefs AssignerScore Mirror MirrorScore.
From IQ.gen Require Import Tables.
Open Scope Z_scope.
Inductive fres := FSel (ids:list Z) (pen:float) | FRaises (k:Z).
(* (params, events per candidate isoform, result of the real method, result of the real method on the events with left / right swapped) *)
Definition T := (params * list (Z * list sev) * fres * fres)%type.
Definition agrees (m:option (list Z * float)) (out:fres) : bool :=
  match m, out with
  | Some (ids, pen), FSel ids' pen' => list_eqb Z.eqb ids ids' && PrimFloat.eqb pen pen'
  | None, FRaises 5 => true
  | _, _ => false
  end.
Definition check (c:T) : bool := let '(P, ms, out, outm) := c in agrees (select_best P ms) out && agrees (select_best P (swap_matches ms)) outm.
Definition prop (c:T) : bool := let '(P, ms, out, outm) := c in
  match out, outm with FSel a x, FSel b y => list_eqb Z.eqb a b && PrimFloat.eqb x y | FRaises j, FRaises k => j =? k | _, _ => false end.
"""

def unit_score(ctx, quick):
    from props.c01 import cparams, mk_params, small_params, csev, MATCHING, PFIELDS, call as call01
    from src.isoform_assignment import MatchEventSubtype as M, MatchEvent
    from src.long_read_assigner import LongReadAssigner
    rnd = ctx.rnd; cases = []
    ABS = (1 << 31) - 1; UND = (1 << 31, 1 << 31)
    sided = [t.name for t in M if "left" in t.name or "right" in t.name]
    other = ["exon_skipping_known", "exon_gain_novel", "intron_retention", "fake_micro_intron_retention", "intron_shift", "exon_misalignment", "extra_intron_novel", "alternative_structure_novel", "none", "fsm", "mono_exonic"]
    def rand_event():
        t = rnd.choice(sided) if rnd.random() < .7 else rnd.choice(other)
        def reg():
            r = rnd.random()
            if r < .35: return UND
            if r < .45: return (ABS, rnd.randint(0, 5))
            a = rnd.randint(0, 5); return (a, a + rnd.choice([0, 0, 1, 2]))
        info = rnd.choice([0, 7, 49, 50, 51, 100, 120, 175, 250, 299, 300, 301, 1000]) if "elongation" in t else rnd.choice([0, 0, 1234])
        return (t, reg(), reg(), info)
    corpus = [[(1, [("major_exon_elongation_left", UND, UND, 100)]), (2, [("major_exon_elongation_right", UND, UND, 250)])],
              [(1, [("major_exon_elongation_right", UND, UND, 100)]), (2, [("major_exon_elongation_left", UND, UND, 250)])]]
    for it in range(len(corpus) + (1500 if quick else 20000)):
        P = mk_params(rnd.choice(MATCHING)) if rnd.random() < .7 else small_params(1)
        if it < len(corpus): ms = corpus[it]; P = mk_params("default")
        else: ms = [(i + 1, [rand_event() for _e in range(rnd.choice([1, 1, 2, 3]))]) for i in range(rnd.choice([1, 2, 2, 3]))]
        def run(ms_):
            asg = LongReadAssigner.__new__(LongReadAssigner); asg.params = P
            asg.resolve_by_nucleotide_score = lambda crp, isoforms, similarity_function=None: list(isoforms)
            rm = collections.OrderedDict((i, [MatchEvent(M[t], ir, rr, info) for t, ir, rr, info in evs]) for i, evs in ms_)
            r = call01(asg.select_best_among_inconsistent, None, rm)
            return r, ("(FSel %s %s%%float)" % (czs(r[1][0]), float(r[1][1]).hex()) if r[0] == "ok" else "(FRaises %d)" % r[1])
        msm = [(i, [(T.swap_lr(t), ir, rr, info) for t, ir, rr, info in evs]) for i, evs in ms]
        r0, o0 = run(ms); r1, o1 = run(msm)
        term = "(%s, %s, %s, %s)" % (cparams(P), clist(ms, lambda m: "(%d, %s)" % (m[0], clist(m[1], csev))), o0, o1)
        cases.append((term, dict(params={f: getattr(P, f) for f in PFIELDS}, matches=ms, impl=r0, impl_left_right_swapped=r1)))
    ctx.rule("LongReadAssigner.select_best_among_inconsistent (real method, tie-break by nucleotide score switched off): 1-3 candidate isoforms with 1-3 events, mostly left/right event types, elongation lengths "
             "around the interpolation boundaries (50, 300), real presets; the same candidates with left and right swapped in every event; Coq: bit-exact float model = implementation on both, penalties and "
             "selection identical; non-trivial = more than one candidate")
    mism, viol = ctx.corr("select_best_among_inconsistent left/right", PRE_SCORE, cases, shard=max(50, len(cases) // 16 + 1), ctype="T", nontrivial=lambda o: len(o["matches"]) > 1)
    report_strict(ctx, "select_best_among_inconsistent left/right", mism, viol, what="select_best_among_inconsistent scores a candidate differently when left and right are swapped in its events")


# ---------------------------------------------------------------------------------------------- is_start_internal / is_end_internal
PRE_INT = """From IQ Require Import Mirror MirrorPairs MirrorPairsProofs.
Open Scope Z_scope.
(* case: ((delta, neighbouring introns, read end, L), is_end_internal, is_start_internal on the mirrored input) *)
Definition T := ((Z * list iv * Z * Z) * bool * bool)%type.
Definition check (c:T) := let '(delta, out, e, L) := fst (fst c) in
  Bool.eqb (is_end_internal delta out e) (snd (fst c)) && Bool.eqb (is_start_internal delta (rfl L out) (L + 1 - e)) (snd c).
Definition prop (c:T) := Bool.eqb (snd (fst c)) (snd c).
"""

def unit_internal(ctx, quick):
    from src import intron_graph as ig
    rnd = ctx.rnd; cases = []; L = 5000
    def graph(delta, inc, out, intron):
        g = ig.IntronGraph.__new__(ig.IntronGraph); g.params = types.SimpleNamespace(delta=delta)
        g.incoming_edges = collections.defaultdict(set, {intron: set(inc)}); g.outgoing_edges = collections.defaultdict(set, {intron: set(out)})
        return g
    for it in range(1500 if quick else 15000):
        delta = rnd.choice([0, 3, 6]); base = rnd.randint(1000, 3000); intron = (base - 300, base - 100)
        out = sorted(set((base + rnd.randint(0, 300), base + 400 + rnd.randint(0, 300)) for _ in range(rnd.randint(0, 3))))
        cand = [base] + [x + d for o in out for x in o for d in (-delta - 1, -delta, -1, 0, 1, delta, delta + 1)]
        e = rnd.choice(cand)
        r0 = graph(delta, [], out, intron).is_end_internal(intron, e)
        r1 = graph(delta, [mir_iv(L, o) for o in out], [], mir_iv(L, intron)).is_start_internal(mir_iv(L, intron), L + 1 - e)
        cases.append(("(((%s, %s, %s, %s), %s), %s)" % (cz(delta), civs(out), cz(e), cz(L), cbool(r0), cbool(r1)),
                      {"delta": delta, "outgoing_introns": out, "read_end": e, "L": L, "is_end_internal": r0, "is_start_internal(mirror)": r1}))
    ctx.rule("IntronGraph.is_end_internal / is_start_internal (real methods on a stub graph): 0-3 neighbouring introns, read end at +-{0, 1, delta, delta+1} of every intron boundary; is_end_internal on the input, "
             "is_start_internal on the mirrored input; Coq: model = implementation for each half, answers equal; non-trivial = internal")
    mism, viol = ctx.corr("is_end_internal / is_start_internal", PRE_INT, cases, shard=max(50, len(cases) // 16 + 1), ctype="T", nontrivial=lambda o: o["is_end_internal"])
    report_strict(ctx, "is_end_internal / is_start_internal", mism, viol, what="is_start_internal on the mirrored input is not is_end_internal on the input")


# ---------------------------------------------------------------------------------------------- compare_junctions (incl. add_extra_out_exon_events)
PRE_CJM = r"""From Coq Require Import QArith.
From IQ Require Import Intervals Junctions Mirror MirrorJunctions.
From IQ.gen Require Import Tables Prims.
Open Scope Z_scope.
(* (params, gene introns, gene region, read region, read junctions, isoform region, isoform junctions, L), output, output on the mirrored input *)
Definition T := ((params * list iv * iv * iv * list iv * iv * list iv * Z) * outcome (list event) * outcome (list event))%type.
Definition check (c:T) : bool := let '(P, K, g, rr, R, ir, II, L) := fst (fst c) in
  outcome_eqb events_eqb (Ok (compare_junctions_gene P K g rr R ir II)) (snd (fst c)) &&
  outcome_eqb events_eqb (Ok (compare_junctions_gene P (rfl L K) (rf L g) (rf L rr) (rfl L R) (rf L ir) (rfl L II))) (snd c).
(* mirror image of an event: mevent of MirrorJunctions.v *)
Definition count_ev (e:event) (l:list event) : nat := length (filter (event_eqb e) l).
Definition same_events (a b:list event) : bool := forallb (fun e => Nat.eqb (count_ev e a) (count_ev e b)) (a ++ b).
Definition prop (c:T) : bool := let '(P, K, g, rr, R, ir, II, L) := fst (fst c) in
  match snd (fst c), snd c with
  | Ok a, Ok b => same_events b (map (mevent (Z.of_nat (length R)) (Z.of_nat (length II))) a)
  | Raises j, Raises k => N.eqb j k
  | _, _ => false
  end.
"""

def unit_junctions(ctx, quick):
    from props.c01 import cparams, mk_params, real_compare, cev as cev01, cout as cout01, PFIELDS
    rnd = ctx.rnd; cases = []; L = 20000
    P = mk_params("default"); mf = P.max_fake_terminal_exon_len; mi = P.micro_intron_length; mo = P.minimal_exon_overlap; d = P.delta; mx = P.minor_exon_extension
    iso = [(3000, 3300), (3700, 3900), (4300, 5000), (5400, 5700)]
    def introns(ex): return [(a[1] + 1, b[0] - 1) for a, b in zip(ex, ex[1:])]
    def reg(ex): return (ex[0][0], ex[-1][1])
    reads = []
    # (a) an extra terminal exon beyond the isoform, of length max_fake_terminal_exon_len + {-1, 0, 1, 2}, on either side, one or two extra exons
    for ln in (mf - 1, mf, mf + 1, mf + 2, 5):
        reads.append(("extra_right_%d" % ln, iso + [(6100, 6100 + ln - 1)])); reads.append(("extra_left_%d" % ln, [(2500 - ln + 1, 2500)] + iso))
        reads.append(("extra2_right_%d" % ln, iso + [(6100, 6300), (6600, 6600 + ln - 1)])); reads.append(("extra2_left_%d" % ln, [(2000 - ln + 1, 2000), (2300, 2500)] + iso))
        reads.append(("only_extra_%d" % ln, [(2500 - ln + 1, 2500), (2700, 2750)])); reads.append(("only_extra_r_%d" % ln, [(6000, 6050), (6300, 6300 + ln - 1)]))
    # (b) splice sites moved by delta + {-1, 0, 1} on either side of every intron; truncated reads ending around minor_exon_extension inside an intron
    for sh in (d - 1, d, d + 1, 2 * d, 2 * d + 1):
        for j in range(3):
            for side in (0, 1):
                for sg in (-1, 1):
                    ex = [list(e) for e in iso]
                    if side == 0: ex[j][1] += sg * sh
                    else: ex[j + 1][0] += sg * sh
                    reads.append(("site_%d_%d_%d_%d" % (sh, j, side, sg), [tuple(e) for e in ex]))
    for ov in (mx - 1, mx, mx + 1, 3):
        reads.append(("into_intron_r_%d" % ov, iso[:2] + [(4300, 5000 + ov)])); reads.append(("into_intron_l_%d" % ov, [(3700 - ov, 3900)] + iso[2:]))
        reads.append(("mono_r_%d" % ov, [(4400, 5000 + ov)])); reads.append(("mono_l_%d" % ov, [(3700 - ov, 3850)]))
    # (c) an isoform with a micro-intron of length micro_intron_length + {-1, 0, 1} that the read retains, the retaining exon reaching minimal_exon_overlap + {-1, 0, 1} beyond it
    isos = [(iso, reads)]
    for ml in (mi - 1, mi, mi + 1):
        for where in ("first", "middle", "last"):
            base = {"first": [(3000, 3100), (3100 + ml + 1, 3300), (3700, 3900), (4300, 5000)], "middle": [(3000, 3300), (3700, 3800), (3800 + ml + 1, 3900), (4300, 5000)],
                    "last": [(3000, 3300), (3700, 3900), (4300, 4600), (4600 + ml + 1, 5000)]}[where]
            k = {"first": 0, "middle": 1, "last": 2}[where]
            rs = []
            merged = base[:k] + [(base[k][0], base[k + 1][1])] + base[k + 2:]
            rs.append(("retain_%d_%s" % (ml, where), merged))
            for o in (mo - 1, mo, mo + 1):
                if where == "first": rs.append(("retain_short_%d_%s_%d" % (ml, where, o), [(base[0][1] - o + 1, base[1][1])] + base[2:]))
                if where == "last": rs.append(("retain_short_%d_%s_%d" % (ml, where, o), base[:2] + [(base[2][0], base[3][0] + o - 1)]))
            isos.append((base, rs))
    for isoform, rs in isos:
        I = introns(isoform); ireg = reg(isoform); K = sorted(set(I + introns(iso))); greg = (2900, 5800)
        for name, ex in rs:
            R = introns(ex); rreg = reg(ex)
            r0 = real_compare(P, K, greg, rreg, R, ireg, I)
            r1 = real_compare(P, mir_ivs(L, K), mir_iv(L, greg), mir_iv(L, rreg), mir_ivs(L, R), mir_iv(L, ireg), mir_ivs(L, I))
            o = lambda r: cout01(r, lambda l: clist(l, cev01))
            term = "(((%s, %s, %s, %s, %s, %s, %s, %s), %s), %s)" % (cparams(P), civs(K), civ(greg), civ(rreg), civs(R), civ(ireg), civs(I), cz(L), o(r0), o(r1))
            cases.append((term, dict(read=name, read_exons=ex, isoform_exons=isoform, gene_introns=K, L=L, events=r0, events_on_mirrored_input=r1)))
    ctx.rule("JunctionComparator.compare_junctions incl. add_extra_out_exon_events (real class with a real OverlappingFeaturesProfileConstructor, `default` preset) on a 4-exon isoform: extra terminal exons of length "
             "max_fake_terminal_exon_len + {-1, 0, 1, 2} on either side (one or two extra exons, reads with only extra exons), splice sites moved by delta-1 .. 2 delta+1 on either side of every intron, reads ending "
             "minor_exon_extension + {-1, 0, 1} inside an intron (spliced and unspliced), retained micro-introns of length micro_intron_length + {-1, 0, 1} in the first / a middle / the last exon with overlaps "
             "minimal_exon_overlap + {-1, 0, 1}; input and mirrored input; Coq: model of Junctions.v = implementation on both, event multisets mirror images; non-trivial = an event other than none")
    mism, viol = ctx.corr("compare_junctions mirror", PRE_CJM, cases, shard=max(10, len(cases) // 16 + 1), ctype="T", nontrivial=lambda o: o["events"][0] == "ok" and any(e[0] != "none" for e in o["events"][1]))
    report_strict(ctx, "compare_junctions mirror", mism, viol, what="compare_junctions on the mirrored input does not give the mirrored events")


def report_strict(ctx, name, mism, viol, keyfn=None, what=None):
    """like corr_report, but a model/implementation mismatch always breaks the correspondence - also when the same run shows
    (known) specification violations, which would otherwise hide a mutated half behind a known finding"""
    ctx.corr_report(name, [], viol, keyfn=keyfn, what=what)
    if mism:
        ctx.broken("correspondence:%s" % name, "%d case(s) where the model and the implementation differ, e.g. %s" % (len(mism), json.dumps(mism[0], default=str)[:800]),
                   extra={"mismatching_cases": mism[:5]})


# ---------------------------------------------------------------------------------------------- PolyAFinder pair
PRE_FIND = """From IQ Require Import Cigar Cigar2 Mirror MirrorProofs.
Import FinderMirror.
Open Scope Z_scope.
Definition zres_eqb := outcome_eqb Z.eqb.
(* case: ((w, need), seq, ops, ref_start, (from, to, entire), L) , (tail, tail with the window of the polyT side, head on the mirrored read) *)
Definition T := (((Z*Z) * list Z * list cop * Z * (Z*Z*bool) * Z) * (outcome Z * outcome Z * outcome Z))%type.
Definition check (c:T) :=
  let '(wn, seq, ops, rs, (fr, to, en), L) := fst c in let '(t, tw, h) := snd c in
  zres_eqb (find_polya_tail (fst wn) (snd wn) 3 4 seq ops rs fr to en) t &&
  zres_eqb (find_polya_tail (fst wn) (snd wn) 3 4 seq ops rs (fr + 1) (to - 1) en) tw &&
  zres_eqb (find_polyt_head (fst wn) (snd wn) 3 4 (mseq seq) (rev ops) (L - (rs + ref_len ops)) fr to en) h.
(* exact mirror statement: same from / to on both sides, 1-based reflection as for every other coordinate *)
Definition prop (c:T) := let '(wn, seq, ops, rs, (fr, to, en), L) := fst c in let '(t, tw, h) := snd c in
  zres_eqb h (match t with Ok p => Ok (rfp L p) | Raises e => Raises e end).
"""

def finder_key(h, t, tw, ref_end, L):
    """structural key of a disagreement between find_polyt_head on the mirrored read (h) and find_polya_tail on the read (t);
       tw = find_polya_tail with the window the polyT side really examines (from+1, to-1); all in the coordinates of the READ's frame:
       t, tw are 0-based positions of the first A; h has been mapped back with the 1-based reflection"""
    if (h == -1) != (t == -1):
        return K_WINDOW if (h == -1) == (tw == -1) else None
    if h == -1: return None
    # both found.  Pure convention offset: the polyT side reports the 0-based reflection L-1-p, two bases further out than L+1-p
    if tw != -1 and h == tw + 2: return K_OFFSET
    # otherwise the start lies in the aligned part (or in an insertion next to the clip: move_ref_coord_alogn_alignment returns at least -1,
    # so such positions are <= reference_end + 1), where the two projections onto the reference walk from different sides; positions
    # well inside the clipped part are covered by finder_mirror_partial and must satisfy the previous case
    if tw != -1 and tw <= ref_end + 1: return K_PROJ
    return None


def unit_finder(ctx, quick):
    import pysam
    from src import polya_finder as pf
    from props.c16 import random_valid_cigar, cops
    rnd = ctx.rnd; cases = []
    BASE = {"A": 0, "C": 1, "G": 2, "T": 3, "N": 4}
    L = 100000
    def seg(ops, rs, seq, flag=0):
        a = pysam.AlignedSegment(); a.query_name = "r"; a.flag = flag; a.reference_id = 0; a.reference_start = rs; a.cigartuples = ops; a.query_sequence = seq
        return a
    def res(f, *a):
        try: return ("ok", f(*a))
        except AssertionError: return ("exc", 2)
    corpus = [  # the witnesses of MirrorProofs.v
        ([(0, 30), (4, 33)], 1000, "C" * 30 + "C" * 20 + "A" * 12 + "C", 16),
        ([(0, 100), (4, 25)], 1000, "C" * 100 + "A" * 25, 16),
        ([(0, 30), (3, 100), (0, 1), (4, 20)], 1000, "C" * 30 + "A" + "A" * 20, 16),          # tail starting on a one-base last block: projections differ
    ]
    n_f = 700 if quick else 6000
    for i in range(n_f + len(corpus)):
        if i < len(corpus): ops, rs, seq, w = corpus[i]
        else:
            w = rnd.choice([4, 8, 16, 16])
            realistic = rnd.random() < .5
            ops = [o for o in random_valid_cigar(rnd, maxops=3 if realistic else 6, maxlen=40) if o[0] not in (5, 6)]
            if realistic: ops = [o for o in ops if o[0] in (0, 3, 4)]
            if not any(o[0] == 0 for o in ops): ops = [(0, 30)] + ops
            qlen = sum(l for o, l in ops if o in (0, 1, 4, 7, 8))
            seq = [rnd.choice("ACGT") for _ in range(qlen)]
            tl = rnd.randint(0, min(qlen, 60))
            for j in range(qlen - tl, qlen):
                if rnd.random() < .9: seq[j] = "A"
            seq = "".join(seq); rs = rnd.randint(40, 50000)
        finder = pf.PolyAFinder(window_size=w, min_polya_fraction=0.75)
        a = seg(ops, rs, seq); m = seg(list(reversed(ops)), L - a.reference_end, T.revcomp(seq), 16)
        for (fr, to, en) in ((2, 2 * w, False), (4 * w, 2, True)):
            t = res(finder.find_polya_tail, a, fr, to, en); tw = res(finder.find_polya_tail, a, fr + 1, to - 1, en); h = res(finder.find_polyt_head, m, fr, to, en)
            term = "((((((%s,%s), %s), %s), %s), (%s,%s,%s)), %s)" % (cz(w), cz(int(w * 0.75)), clist([BASE.get(ch.upper(), 4) for ch in seq], str), cops(ops), cz(rs), cz(fr), cz(to), cbool(en), cz(L))
            o3 = "(%s, %s, %s)" % tuple("(Ok %s)" % cz(x[1]) if x[0] == "ok" else "(Raises 2)" for x in (t, tw, h))
            cases.append(("(%s, %s)" % (term, o3), {"window": w, "seq": seq, "cigar": ops, "ref_start": rs, "ref_end": a.reference_end, "from,to,entire": (fr, to, en), "L": L,
                                                     "find_polya_tail": t, "find_polya_tail(from+1,to-1)": tw, "find_polyt_head(mirror)": h}))
    def key(o):
        t, tw, h = o["find_polya_tail"], o["find_polya_tail(from+1,to-1)"], o["find_polyt_head(mirror)"]
        if "exc" in (t[0], tw[0], h[0]): return None
        hb = -1 if h[1] == -1 else o["L"] + 1 - h[1]          # back into the read's frame (1-based reflection)
        return finder_key(hb, t[1], tw[1], o["ref_end"], o["L"])
    ctx.rule("PolyAFinder.find_polya_tail on real pysam segments vs find_polyt_head on the reverse-complemented segment (CIGAR reversed, start mirrored): random CIGARs (half of them M/N/S only) with "
             "planted A tails, windows {4,8,16}, external and internal calls, plus the witnesses of MirrorProofs.v; Coq: each half = its model, and the exact mirror statement on the implementation's values; "
             "non-trivial = a tail was found")
    mism, viol = ctx.corr("polya_finder pair", PRE_FIND, cases, shard=150, ctype="T", nontrivial=lambda o: o["find_polya_tail"] not in (("ok", -1), ("exc", 2)))
    report_strict(ctx, "polya_finder pair", mism, viol, keyfn=key, what="find_polyt_head on the mirrored read is not the mirror image of find_polya_tail")


# ================================================================================================ pipeline level
POLYA_EV = ("alternative_polya_site_", "correct_polya_site_", "internal_polya_")
DELTA = 6

def parse_events(s):
    """assignment_events column: 'name[:info]' joined by commas; an intron list 'a-b,c-d' continues the previous event"""
    out = []
    if s in (".", ""): return out
    for tok in s.split(","):
        if out and re.match(r"^-?\d", tok) and ":" not in tok: out[-1] = (out[-1][0], out[-1][1] + "," + tok)
        else:
            n, _, r = tok.partition(":"); out.append((n, r))
    return out

def back_event(ev, chrom, tr):
    """an event of the transformed run in the coordinates / orientation of the original run.  Names that the printer normalises by
       strand (ism_5, tss_match, alt_donor_site, ...) and signed lengths (elongations, terminal site offsets) stay as they are"""
    n, r = ev
    if tr.flips: n = T.swap_lr(n)
    if n.startswith(POLYA_EV) and re.fullmatch(r"-?\d+", r):
        return (n, str(tr.inv_pos(chrom, int(r))))
    if re.fullmatch(r"(\d+-\d+)(,\d+-\d+)*", r):
        ivs = tr.inv_ivs(chrom, [tuple(map(int, p.split("-"))) for p in r.split(",")])
        return (n, ",".join("%d-%d" % a for a in ivs))
    return (n, r)

def load_run(P, out, tr):
    """every output of a run, brought back into the coordinates of the original input (tr = None for the original run)"""
    res = {}
    reads = collections.defaultdict(list)
    p = P.find(out, "OUT", "read_assignments.tsv")
    for r in (P.read_assignments(p) if p else []):
        ex = tuple(r["exons"]) if tr is None else tuple(tr.inv_ivs(r["chr"], r["exons"]))
        st = r["strand"] if tr is None else tr.inv_strand(r["strand"])
        evs = parse_events(r["assignment_events"])
        if tr is not None: evs = [back_event(e, r["chr"], tr) for e in evs]
        info = tuple(sorted((k, v) for k, v in r["info"].items()))
        reads[r["read_id"]].append((r["chr"], st, r["isoform_id"], r["gene_id"], r["assignment_type"], ex, tuple(sorted(evs)), info))
    res["reads"] = {k: sorted(v) for k, v in reads.items()}
    bed = collections.defaultdict(list)
    p = P.find(out, "OUT", "corrected_reads.bed")
    for b in (P.read_bed(p) if p else []):
        ex = tuple(b["exons"]) if tr is None else tuple(tr.inv_ivs(b["chr"], b["exons"]))
        bed[b["name"]].append((b["chr"], b["strand"] if tr is None else tr.inv_strand(b["strand"]), ex))
    res["bed"] = {k: sorted(v) for k, v in bed.items()}
    res["counts"] = {}
    for k in ("transcript_counts.tsv", "gene_counts.tsv"):
        p = P.find(out, "OUT", k)
        if p: res["counts"][k] = P.read_counts(p)[1]
    models = collections.Counter()
    g = P.find(out, "OUT", "transcript_models.gtf")
    if g:
        trd, _ = P.read_gtf(g); cp = P.find(out, "OUT", "transcript_model_counts.tsv")
        cnt = P.read_counts(cp)[1] if cp else {}
        for tid, t in trd.items():
            ex = tuple(t["exons"]) if tr is None else tuple(tr.inv_ivs(t["chr"], t["exons"]))
            known = not re.match(r"transcript\d+\.", tid)
            models[(t["chr"], t["strand"] if tr is None else tr.inv_strand(t["strand"]), ex, tuple(cnt.get(tid, [None])), tid if known else "novel")] += 1
    res["models"] = models
    mreads = collections.defaultdict(list)
    p = P.find(out, "OUT", "transcript_model_reads.tsv")
    if p and g:
        for l in P.opn(p):
            if l.startswith("#") or not l.strip(): continue
            rid, tid = l.rstrip("\n").split("\t")[:2]
            if tid in trd:
                t = trd[tid]; known = not re.match(r"transcript\d+\.", tid)
                ex = tuple(t["exons"]) if tr is None else tuple(tr.inv_ivs(t["chr"], t["exons"]))
                mreads[rid].append(tid if known else (t["chr"], t["strand"] if tr is None else tr.inv_strand(t["strand"]), ex))
            else: mreads[rid].append(tid)
    res["mreads"] = {k: sorted(map(str, v)) for k, v in mreads.items()}
    return res

def load_log(prefix):
    by_read = collections.defaultdict(list)
    for f in glob.glob(prefix + ".*"):
        for l in open(f):
            try: d = json.loads(l)
            except ValueError: continue
            by_read[d.get("read")].append(d)
    return by_read

def log_keys(entries):
    """structural keys of the unit-level disagreements the wrapper logged for one read"""
    keys = set()
    for d in entries:
        if d["pair"] == "finder":
            h = d["polyt"]; rs, re_ = d["ref_start"], d["ref_end"]
            # frame of the mirrored alignment (about its own span): 0-based positions of the first A of the mirror image
            t, tw = d["polya_raw"], d["window_replay_raw"]
            hb = -1 if h == -1 else rs + re_ + 1 - h
            if h == 1 and d["mirror_of_polya"] != 1 and hb != -1 and t != -1 and hb > t + 2: keys.add(K_CLAMP); continue
            keys.add(finder_key(hb, t, tw, re_, None))
        elif d["pair"] == "extra_right": keys.add(K_EXTRA)
        elif d["pair"] == "thread":
            # thread_ends accepts an untrusted end up to apa_delta beyond the rightmost known end; thread_starts accepts no overhang at all
            r, m_, (intron, start, trusted) = d["thread_starts"], d["mirror_of_thread_ends"], d["args"]
            keys.add(K_THREAD if (r is None and m_ is not None and not trusted and m_[1] - d["apa_delta"] <= start < m_[1]) else None)
        elif d["pair"] == "micro":
            rr, introns, mi = d["args"]
            last_exon = (introns[-1][1] + 1 if introns else rr[0], rr[1])
            keys.add(K_MICRO if last_exon[0] <= mi[0] and mi[1] <= last_exon[1] else None)
        elif d["pair"] == "ovl":
            a, b, dl = d["args"]
            shared_left = a[0] == b[0] and a[1] < b[1] and a[1] - a[0] < dl - 1
            shared_right = a[1] == b[1] and b[0] < a[0] and a[1] - a[0] < dl - 1
            keys.add(K_OVL if shared_left or shared_right else None)
    return keys

PAIR_OF_KEY = {K_WINDOW: "finder", K_OFFSET: "finder", K_PROJ: "finder", K_CLAMP: "finder", K_EXTRA: "extra_right", K_OVL: "ovl", K_MICRO: "micro", K_THREAD: "thread"}


def make_world(seed, noise_free, special=True):
    import gen_data
    w = gen_data.World(seed, n_chr=2)
    rnd = w.rnd; n = 0
    if noise_free:
        for g in w.genes:
            for tid, ix in g["isoforms"].items():
                full = [g["pool"][i] for i in ix]
                for rep in range(4):
                    w.add_read("fl_%s_%d" % (tid, n), g["chr"], full, g["strand"]); n += 1
                if len(full) > 2:
                    w.add_read("trL_%s_%d" % (tid, n), g["chr"], [(full[1][0] + 10, full[1][1])] + full[2:], g["strand"], polya=g["strand"] == "+"); n += 1
                    w.add_read("trR_%s_%d" % (tid, n), g["chr"], full[:-2] + [(full[-2][0], full[-2][1] - 10)], g["strand"], polya=g["strand"] == "-"); n += 1
        w.novel_reads(per_gene=6)
    else:
        w.reads_from_annotation(per_isoform=5); w.novel_reads()
    if special:
        for g in w.genes:
            full = [g["pool"][i] for i in g["isoforms"][g["id"] + ".T0"]]
            if len(full) < 2: continue
            for d in (8, 25):
                # reads reaching beyond one end of the transcript by more than delta (no polyA): the terminal penalty of select_similar_isoforms
                w.add_read("ovR%d_%s_%d" % (d, g["id"], n), g["chr"], full[:-1] + [(full[-1][0], full[-1][1] + d)], g["strand"], polya=False); n += 1
                w.add_read("ovL%d_%s_%d" % (d, g["id"], n), g["chr"], [(full[0][0] - d, full[0][1])] + full[1:], g["strand"], polya=False); n += 1
            # an unspliced read inside the first / last intron sharing its end with the intron (overlaps_at_least corner) and one across an exon boundary
            i0 = (full[0][1] + 1, full[1][0] - 1); i1 = (full[-2][1] + 1, full[-1][0] - 1)
            if i0[1] - i0[0] > 60:
                w.add_read("inL_%s_%d" % (g["id"], n), g["chr"], [(i0[0], i0[0] + 30)], g["strand"], polya=False); n += 1
                w.add_read("irL_%s_%d" % (g["id"], n), g["chr"], [(full[0][0] + 2, i0[0] + 25)], g["strand"], polya=False); n += 1
            if i1[1] - i1[0] > 60:
                w.add_read("inR_%s_%d" % (g["id"], n), g["chr"], [(i1[1] - 30, i1[1])], g["strand"], polya=False); n += 1
                w.add_read("irR_%s_%d" % (g["id"], n), g["chr"], [(i1[1] - 25, full[-1][1] - 2)], g["strand"], polya=False); n += 1
    return w


def corner_world(seed):
    """one chromosome whose first gene (minus strand) starts at the first base: the polyT heads of its reads hang over the chromosome start
       (find_polyt_head clamps the position with max(1, .)); a plus-strand gene ends at the last base"""
    import gen_data
    w = gen_data.World.__new__(gen_data.World)
    w.rnd = random.Random(seed); w.genes = []; w.reads = []; w.truth = {}
    L = 6000; seq = [w.rnd.choice("ACGT") for _ in range(L)]; w.chroms = {"chrC": seq}
    g1 = dict(id="chrC_G0", chr="chrC", strand="-", pool=[(1, 300), (600, 900)], isoforms={"chrC_G0.T0": [0, 1]}, start=1, end=900)
    g2 = dict(id="chrC_G1", chr="chrC", strand="+", pool=[(5000, 5300), (5600, L)], isoforms={"chrC_G1.T0": [0, 1]}, start=5000, end=L)
    g3 = dict(id="chrC_G2", chr="chrC", strand="-", pool=[(2000, 2300), (2600, 2900), (3200, 3400)], isoforms={"chrC_G2.T0": [0, 1, 2]}, start=2000, end=3400)
    for g in (g1, g2, g3):
        w.genes.append(g); w.plant([g["pool"][i] for i in g["isoforms"][g["id"] + ".T0"]], "chrC", g["strand"])
    w.chroms["chrC"] = "".join(seq)
    n = 0
    for g in w.genes:
        for rep in range(4):
            w.add_read("fl_%s_%d" % (g["id"], n), "chrC", list(g["pool"]), g["strand"]); n += 1
    return w


def threshold_world(ga_end, tail_end):
    """a locus whose reads span 1025..tail_end next to MAX_REGION_LEN = 32768: 20 spliced reads at its left end, one read over the 30-kb last intron,
       and one unspliced tail read (the only read in the last bins) over the end of the mono-exonic gene GA (.. ga_end), a 15-base gap and the start
       of the mono-exonic gene GZ; a separate minus-strand gene further right"""
    import gen_data
    rnd = random.Random(5)
    w = gen_data.World.__new__(gen_data.World)
    w.rnd = rnd; w.genes = []; w.reads = []; w.truth = {}
    L = 60000; seq = [rnd.choice("ACGT") for _ in range(L)]; w.chroms = {"chr1": seq}
    G = [("GL", "+", {"TL1": [(1025, 1400), (2000, 2400), (32700, 33000)], "TL2": [(1025, 1400), (2000, 2400)]}),
         ("GA", "+", {"TA1": [(32900, ga_end)]}), ("GZ", "+", {"TZ1": [(ga_end + 15, 34500)]}), ("GS", "-", {"TS1": [(40000, 40300), (41000, 41500)]})]
    for gid, strand, tr in G:
        pool = sorted(set(e for t in tr.values() for e in t)); iso = {tid: [pool.index(e) for e in t] for tid, t in tr.items()}
        w.genes.append(dict(id=gid, chr="chr1", strand=strand, pool=pool, isoforms=iso, start=pool[0][0], end=pool[-1][1]))
        for t in tr.values():
            if len(t) > 1: w.plant(t, "chr1", strand)
    w.chroms["chr1"] = "".join(seq)
    for i in range(20): w.add_read("short_%d" % i, "chr1", [(1025 + i, 1400), (2000, 2380 - i)], "+", polya=False)
    w.add_read("long_fsm", "chr1", [(1030, 1400), (2000, 2400), (32700, 33000)], "+", polya=False)
    w.add_read("tail_read", "chr1", [(32990, tail_end)], "+", polya=False)
    for i in range(5): w.add_read("other_%d" % i, "chr1", [(40010 + i, 40300), (41000, 41400)], "-", polya=False)
    return w


def pairs_world():
    """noise-free, tail-free alignments on four genes that exercise left/right pairs at their thresholds (run with --polya_requirement never):
       GA (+) two isoforms sharing two introns, reads overhanging A's first exon on the left by 100 and B's last exon on the right by 250, and the
              mirror configuration (left 250 / right 100) on GE (-);
       GB (-) reads with an extra terminal exon of 31 / 40 / 41 / 42 bp beyond the annotated transcript on either side;
       GC (+) novel isoforms starting / ending inside an intron of the annotated isoform with which they share their first / last intron;
       GD (-) two ordinary isoforms, full, partial and mono-exonic reads"""
    import gen_data
    rnd = random.Random(7)
    w = gen_data.World.__new__(gen_data.World)
    w.rnd = rnd; w.genes = []; w.reads = []; w.truth = {}
    L = 48000; seq = [rnd.choice("ACGT") for _ in range(L)]; w.chroms = {"chrP": seq}
    A = [(3100, 3400), (3700, 3900), (4300, 5000), (5400, 5700)]; Bi = [(2200, 2400), (3000, 3400), (3700, 3900), (4300, 4750)]
    T_ = [(12100, 12400), (12800, 13000), (13500, 13900)]
    X = [(20100, 20400), (21000, 21200), (21600, 21800), (22200, 22600)]
    D1 = [(30100, 30350), (30700, 30900), (31300, 31500), (31900, 32300)]; D2 = [(30100, 30350), (31300, 31500), (31900, 32300)]
    E1 = [(40300, 40600), (41000, 41700), (42100, 42300), (42600, 42900)]; E2 = [(41250, 41700), (42100, 42300), (42600, 43000), (43600, 43800)]
    G = [("GA", "+", {"GA.A": A, "GA.B": Bi}), ("GB", "-", {"GB.T": T_}), ("GC", "+", {"GC.X": X}), ("GD", "-", {"GD.1": D1, "GD.2": D2}), ("GE", "-", {"GE.1": E1, "GE.2": E2})]
    strand = {}
    for gid, st, tr in G:
        strand[gid] = st
        pool = sorted(set(e for t in tr.values() for e in t)); iso = {tid: [pool.index(e) for e in t] for tid, t in tr.items()}
        w.genes.append(dict(id=gid, chr="chrP", strand=st, pool=pool, isoforms=iso, start=pool[0][0], end=pool[-1][1]))
    R = []
    def add(prefix, gid, exons, n): R.extend(("%s_%d" % (prefix, i), gid, list(exons)) for i in range(n))
    add("GA_fsmA", "GA", A, 4); add("GA_fsmB", "GA", Bi, 4); add("GA_over", "GA", [(3000, 3400), (3700, 3900), (4300, 5000)], 3)
    add("GE_fsm1", "GE", E1, 4); add("GE_fsm2", "GE", E2, 4); add("GE_over", "GE", [(41000, 41700), (42100, 42300), (42600, 43000)], 3)
    add("GB_fsm", "GB", T_, 5)
    for ln in (31, 40, 41, 42):
        add("GB_extraR%d" % ln, "GB", T_ + [(14200 + 10 * ln, 14200 + 11 * ln - 1)], 2); add("GB_extraL%d" % ln, "GB", [(11900 - 11 * ln + 1, 11900 - 10 * ln)] + T_, 2)
    add("GC_fsmX", "GC", X, 10); add("GC_altstart", "GC", [(20800, 21200), (21600, 21800), (22200, 22600)], 6); add("GC_altend", "GC", [(20100, 20400), (21000, 21200), (21600, 22000)], 6)
    add("GD_fsm1", "GD", D1, 5); add("GD_fsm2", "GD", D2, 4); add("GD_ism1", "GD", [(30750, 30900), (31300, 31500), (31900, 32250)], 3); add("GD_mono", "GD", [(32000, 32280)], 2)
    for gid, st, tr in G:
        for t in tr.values(): w.plant(t, "chrP", st)
    for nm, gid, ex in R:
        if len(ex) > 1: w.plant(ex, "chrP", strand[gid])
    w.chroms["chrP"] = "".join(seq)
    for nm, gid, ex in R: w.add_read(nm, "chrP", ex, strand[gid], polya=False)
    return w


def cut_phase_key(bam, read_id, k):
    """structural key of a read whose output changes under a shift by k: replay the REAL clustering + split_coverage_regions for the read's
       cluster at shift 0 and at shift k; the key holds iff the cluster is beyond the splitting thresholds (so that neither
       C11_unsplit_decision_shift_invariant nor - k not being a multiple of the bin - C11_split_regions_shift applies), the cuts differ after
       shifting back, and the read lies across a cut under one shift but not under the other (it is then processed in two sub-regions,
       each with its own gene set, under one shift only)"""
    import pysam
    from src import alignment_processor as ap
    from src.common import interval_len
    B = ap.AbstractAlignmentStorage.COVERAGE_BIN
    with pysam.AlignmentFile(bam, "rb") as f: recs = [(a.reference_name, a.reference_start, a.reference_end, a.query_name) for a in f.fetch(until_eof=True) if a.reference_id >= 0 and a.reference_end]
    mine = [r for r in recs if r[3] == read_id]
    if not mine or k % B == 0: return None
    chrom, a0, b0 = mine[0][0], mine[0][1], mine[0][2] - 1
    class F: pass
    def clusters(kk):
        st = ap.InMemoryAlignmentStorage(); out = []; names = []
        for c, s_, e_, nm in recs:
            if c != chrom: continue
            x = F(); x.reference_start = s_ + kk; x.reference_end = e_ + kk
            if st.alignment_is_not_adjacent(x):
                out.append((st.region, st.get_read_count(), ap.AlignmentCollector.split_coverage_regions(st.region, st), names)); st.reset(); names = []
            st.add_alignment(0, x); names.append(nm)
        out.append((st.region, st.get_read_count(), ap.AlignmentCollector.split_coverage_regions(st.region, st), names))
        return [c for c in out if read_id in c[3]][0]
    c0, ck = clusters(0), clusters(k)
    if interval_len(c0[0]) < ap.AlignmentCollector.MAX_REGION_LEN and c0[1] < ap.AlignmentCollector.MIN_READS_TO_SPLIT: return None
    cuts0 = set(r[1] for r in c0[2][:-1]); cutsk = set(r[1] - k for r in ck[2][:-1])
    across = lambda cuts: set(c for c in cuts if a0 <= c < b0)
    return K_CUT if cuts0 != cutsk and across(cuts0) != across(cutsk) else None        # K_CUT is only a marker here: it never reaches ctx.violation


def pipeline_metamorphic(ctx, quick):
    import pipeline as P
    rnd = ctx.rnd
    base = P.scratch("iqc11_")
    try:
        datasets = []          # (name, inputs, compare_models[, transforms])
        ALL = [("shift", 1), ("shift", 37), ("shift", 256), ("shift", 1000), ("mirror",)]
        b = P.bundled(os.path.join(base, "bundled", "orig"))
        datasets.append(("bundled", dict(fasta=b["fasta"], gtf=b["gtf"], bam=b["bam"]), False))
        seeds = [(ctx.seed * 7 + 1, True), (ctx.seed * 7 + 2, False)] + ([] if quick else [(ctx.seed * 7 + i, i % 2 == 0) for i in range(3, 9)])
        for sd, nf in seeds:
            w = make_world(sd, nf); d = os.path.join(base, "w%d" % sd, "orig"); w.write(d)
            datasets.append(("world%d%s" % (sd, "_noise_free" if nf else "_noisy"), dict(fasta=os.path.join(d, "genome.fa"), gtf=os.path.join(d, "annotation.gtf"), bam=os.path.join(d, "reads0.bam")), nf))
        w = corner_world(ctx.seed); d = os.path.join(base, "corner", "orig"); w.write(d)
        datasets.append(("corner_world", dict(fasta=os.path.join(d, "genome.fa"), gtf=os.path.join(d, "annotation.gtf"), bam=os.path.join(d, "reads0.bam")), True))
        # a locus one base below MAX_REGION_LEN (never split, whatever the shift: C11_unsplit_decision_shift_invariant) with neighbouring mono-exonic genes at its tail
        w = threshold_world(33530, 33791); d = os.path.join(base, "below_threshold", "orig"); w.write(d)
        datasets.append(("locus_32767bp", dict(fasta=os.path.join(d, "genome.fa"), gtf=os.path.join(d, "annotation.gtf"), bam=os.path.join(d, "reads0.bam")), True,
                         [("shift", 1), ("shift", 255), ("shift", 256), ("mirror",)]))
        # the same locus 309 bases longer (split in every phase): the cut lies on the bin grid, so which genes share a sub-region with the tail read depends on k mod 256
        w = threshold_world(33700, 34100); d = os.path.join(base, "above_threshold", "orig"); w.write(d)
        datasets.append(("locus_33076bp", dict(fasta=os.path.join(d, "genome.fa"), gtf=os.path.join(d, "annotation.gtf"), bam=os.path.join(d, "reads0.bam")), True,
                         [("shift", 1), ("shift", 100), ("shift", 255), ("shift", 256), ("shift", 512)]))
        w = pairs_world(); d = os.path.join(base, "pairs", "orig"); w.write(d)
        datasets.append(("pairs_world", dict(fasta=os.path.join(d, "genome.fa"), gtf=os.path.join(d, "annotation.gtf"), bam=os.path.join(d, "reads0.bam")), True,
                         [("shift", 1), ("shift", 1000), ("mirror",)], ["--polya_requirement", "never"]))
        datasets = [dd if len(dd) >= 4 else dd + (ALL,) for dd in datasets]
        datasets = [dd if len(dd) == 5 else dd + ([],) for dd in datasets]
        extra_args = {dd[0]: dd[4] for dd in datasets}
        datasets = [dd[:4] for dd in datasets]
        inputs = {}; trs = {}
        for name, inp, cm, specs in datasets:
            droot = os.path.dirname(os.path.dirname(inp["fasta"]))
            inputs[(name, "orig")] = inp
            for spec in specs:
                tn = spec[0] + (str(spec[1]) if len(spec) > 1 else "")
                out, tr = T.transform_inputs(inp, os.path.join(droot, tn), spec); trs[(name, tn)] = tr; inputs[(name, tn)] = out
        results = {}
        def run(job):
            name, tn, sym = job; inp = inputs[(name, tn)]
            droot = os.path.dirname(os.path.dirname(inp["fasta"]))
            out = os.path.join(droot, "out_%s_%s" % (tn, sym.replace(",", "+") or "plain"))
            args = ["--reference", inp["fasta"], "--genedb", inp["gtf"], "--complete_genedb", "--bam", inp["bam"], "--data_type", "nanopore", "--delta", str(DELTA), "-p", "OUT", "-t", "1"] + extra_args.get(name, [])
            rc, log = P.run_isoquant(out, args, wrapper=WRAPPER, env_extra=dict(C11_SYM=sym, C11_LOG=out + ".c11log", VERIF_REPO=REPO), timeout=900)
            return job, out, rc, log
        def wave(jobs):
            jobs = [j for j in jobs if j not in results]
            with ThreadPoolExecutor(NPROC) as ex:
                for job, out, rc, log in ex.map(run, jobs):
                    name, tn, sym = job; ctx.cov["pipeline_runs"] += 1
                    if rc != 0:
                        ctx.violation(None, "isoquant.py exits %d on the %s input of %s%s" % (rc, tn, name, " (symmetrised: %s)" % sym if sym else ""),
                                      {"dataset": name, "transform": tn, "symmetrised": sym, "log_tail": log[-1500:]})
                        results[job] = None; continue
                    results[job] = out
        t0 = time.time()
        wave([(name, tn, "") for (name, tn) in inputs])
        n_reads = 0; n_diff = 0; pending = []; outside = []
        for name, inp, cm, specs in datasets:
            if not results.get((name, "orig", "")): continue
            O = load_run(P, results[(name, "orig", "")], None); n_reads += len(O["reads"])
            olog = load_log(results[(name, "orig", "")] + ".c11log")
            for (nm, tn), tr in trs.items():
                if nm != name or not results.get((name, tn, "")): continue
                M = load_run(P, results[(name, tn, "")], tr)
                mlog = load_log(results[(name, tn, "")] + ".c11log")
                replay0 = {"dataset": name + (" (tests/simple_data)" if name == "bundled" else " (harness/props/c11.py make_world, VERIF_SEED=%d)" % ctx.seed), "transform": tn,
                           "args": "--data_type nanopore --delta %d --complete_genedb -t 1" % DELTA}
                fields = ("reads", "bed", "mreads") if (cm or tn != "mirror") else ("reads", "bed")      # read -> model only where models are compared
                diff_reads = sorted(r for r in set(O["reads"]) | set(M["reads"]) | set(O["mreads"]) | set(M["mreads"]) if any(O[x].get(r) != M[x].get(r) for x in fields))
                n_diff += len(diff_reads)
                tab_diff = {k: sorted(f for f in set(O["counts"].get(k, {})) | set(M["counts"].get(k, {})) if O["counts"].get(k, {}).get(f) != M["counts"].get(k, {}).get(f)) for k in O["counts"]}
                tab_diff = {k: v for k, v in tab_diff.items() if v}
                mod_diff = (O["models"] - M["models"]) + (M["models"] - O["models"]) if cm or tn != "mirror" else collections.Counter()
                ctx.count(evaluations=len(O["reads"]), nontrivial=len(O["reads"]), traces=len(O["reads"]))
                if tn != "mirror":
                    for r in diff_reads:
                        rep = dict(replay0, read=r, original=O["reads"].get(r), transformed_back=M["reads"].get(r), bed_original=O["bed"].get(r), bed_transformed_back=M["bed"].get(r),
                                   model_original=O["mreads"].get(r), model_transformed_back=M["mreads"].get(r))
                        # translation: only the clamp of find_polyt_head (a T head hanging over the start of a chromosome) is a known deviation
                        clamp = any(e[0].startswith(POLYA_EV) and e[0].endswith("_left") and e[1] == "1" for v in (O["reads"].get(r) or []) for e in v[6])     # the clamped value itself
                        if not clamp and cut_phase_key(inp["bam"], r, tr.k) == K_CUT:
                            # outside the property's quantifier (split loci are claimed for shifts that are multiples of the bin only): an observation, not a violation
                            outside.append(dict(dataset=name, shift=tr.k, read=r, original=[(v[2], v[4]) for v in O["reads"].get(r) or []], shifted_back=[(v[2], v[4]) for v in M["reads"].get(r) or []]))
                            continue
                        ctx.violation(K_CLAMP if clamp else None, "read-level output changes under translation by %d" % tr.k, rep)
                    if (tab_diff or mod_diff) and not diff_reads:
                        ctx.violation(None, "count tables or transcript models change under translation by %d" % tr.k, dict(replay0, count_tables=tab_diff, models=[list(map(str, k)) for k in list(mod_diff)[:6]]))
                    continue
                # reflection: the pairs whose two real halves disagree on the read (unit-level log of the wrapper, both runs)
                need = {}
                for r in diff_reads:
                    ent = olog.get(r, []) + mlog.get(r, []); keys = log_keys(ent)
                    need[r] = (tuple(sorted(set(PAIR_OF_KEY[k] for k in keys if k is not None))), keys, ent)
                union = tuple(sorted(set(p for v in need.values() for p in v[0])))
                pending.append((name, tn, tr, cm, O, M, replay0, diff_reads, need, union, tab_diff, mod_diff, fields))
        # second wave: re-runs with exactly those pairs replaced by the mirror image of their other half
        jobs = []
        for name, tn, tr, cm, O, M, replay0, diff_reads, need, union, tab_diff, mod_diff, fields in pending:
            for s in set(v[0] for v in need.values()) | {union}:
                if s: jobs += [(name, "orig", ",".join(s)), (name, tn, ",".join(s))]
        wave(sorted(set(jobs)))
        cache = {}
        def sym_run(name, tn, s, tr):
            k = (name, tn, s)
            if k not in cache:
                cache[k] = load_run(P, results[k], tr) if results.get(k) else None
            return cache[k]
        for name, tn, tr, cm, O, M, replay0, diff_reads, need, union, tab_diff, mod_diff, fields in pending:
            for r in diff_reads:
                pairs, keys, ent = need[r]
                rep = dict(replay0, read=r, original=O["reads"].get(r), transformed_back=M["reads"].get(r), bed_original=O["bed"].get(r), bed_transformed_back=M["bed"].get(r),
                           model_original=O["mreads"].get(r), model_transformed_back=M["mreads"].get(r), unit_disagreements=ent[:6], keys=sorted(map(str, keys)))
                if not pairs or None in keys:
                    ctx.violation(None, "read-level output of the mirrored input is not the mirror image, and the unit replay on this read shows %s" % ("no disagreement of a known pair" if not pairs else "a disagreement outside the known corners"), rep)
                    continue
                s = ",".join(pairs); Os = sym_run(name, "orig", s, None); Ms = sym_run(name, tn, s, tr)
                if Os is None or Ms is None: continue
                if any(Os[x].get(r) != Ms[x].get(r) for x in fields):
                    ctx.violation(None, "read-level output of the mirrored input is not the mirror image, also with the pairs that disagree on this read (%s) replaced by exact mirror images" % s,
                                  dict(rep, symmetrised=s, symmetrised_original=Os["reads"].get(r), symmetrised_transformed_back=Ms["reads"].get(r),
                                       symmetrised_bed=[Os["bed"].get(r), Ms["bed"].get(r)]))
                    continue
                for k in sorted(keys):
                    ctx.violation(k, "read-level output of the mirrored input is not the mirror image (the two halves of the %s pair disagree on this read; with the pair made symmetric the difference vanishes)" % PAIR_OF_KEY[k],
                                  dict(rep, symmetrised=s))
            if tab_diff or mod_diff:
                rep = dict(replay0, count_tables=tab_diff, models=[list(map(str, k)) for k in list(mod_diff)[:6]])
                ok = False
                if union:
                    Os = sym_run(name, "orig", ",".join(union), None); Ms = sym_run(name, tn, ",".join(union), tr)
                    ok = Os is not None and Ms is not None and Os["counts"] == Ms["counts"] and (not cm or Os["models"] == Ms["models"])
                if ok: ctx.notes.append("%s/%s: count tables / models differ on %d features, %d models; the differences vanish with the pairs %s made symmetric" % (name, tn, sum(map(len, tab_diff.values())), sum(mod_diff.values()), list(union)))
                else: ctx.violation(None, "count tables or transcript models of the mirrored input are not the mirrored tables / models, beyond what the attributed reads explain", dict(rep, symmetrised=list(union)))
        ctx.notes.append("pipeline: %d runs in %.0f s" % (ctx.cov["pipeline_runs"], time.time() - t0))
        if outside:
            ctx.notes.append("observation, outside the quantifier (split locus beyond the thresholds, shift not a multiple of the coverage bin; cuts replayed with the real split_coverage_regions differ and the read "
                             "lies across a cut under one shift only) - not required, not reported: " + json.dumps(outside)[:1500])
            ctx.sample({"outside_quantifier_split_locus_shift_not_multiple_of_bin": outside[:4]})
        ctx.rule("pipeline: tests/simple_data, a 32767-bp locus (one base below MAX_REGION_LEN; shifts 1 / 255 / 256 and reflection), the same locus at 33076 bp (split in every phase: shifts 256 / 512 must be exactly equivariant, shifts 1 / 100 / 255 are outside the quantifier and only recorded when the replayed cuts explain the difference) and generated worlds (2 chromosomes, annotated genes on both strands; noisy and noise-free reads with polyA tails / polyT heads, truncated and novel exon-skipping reads, "
                 "reads reaching 8 / 25 bases beyond a transcript end, unspliced reads inside and across terminal introns) through isoquant.py: original, shifted by 1 / 37 / 256 / 1000 and reverse-complemented; "
                 "read_assignments (type, isoform, gene, exons, strand, events with coordinates, additional info), corrected BED, reference count tables and (noise-free data; every shift) transcript models with counts "
                 "compared after transforming back; every difference attributed: unit-level disagreement of a known pair logged for that read + the difference vanishes when exactly those pairs are made symmetric")
        ctx.notes.append("pipeline: %d reads compared under 5 transforms, %d read-level differences in total" % (n_reads, n_diff))
        ctx.assume.append("pysam reading / writing of BAM records in the transform (c11_transform.py) and the parsers of harness/pipeline.py")
    finally:
        shutil.rmtree(base, ignore_errors=True)


def run(ctx):
    quick = ctx.tier == "quick"
    t0 = time.time(); timing = []
    def phase(name, f, *a):
        t = time.time(); f(*a); timing.append("%s %.0f s" % (name, time.time() - t))
    phase("prepare", ctx.prepare, "C11.v")
    phase("tables", unit_tables, ctx)
    phase("prims", unit_prims, ctx, quick)
    phase("lists", unit_lists, ctx, quick)
    phase("polya pairs", unit_polya_pairs, ctx, quick)
    phase("finder", unit_finder, ctx, quick)
    phase("verifier", unit_verifier, ctx, quick)
    phase("assigner", unit_assigner, ctx, quick)
    phase("thread", unit_thread, ctx, quick)
    phase("split", unit_split, ctx, quick)
    phase("score", unit_score, ctx, quick)
    phase("internal", unit_internal, ctx, quick)
    phase("junctions", unit_junctions, ctx, quick)
    phase("pipeline", pipeline_metamorphic, ctx, quick)
    ctx.notes.append("phases: " + ", ".join(timing))
    ctx.exhaustive = False
    ctx.assume.append("the halves modelled earlier (get_read_blocks, PolyAFinder, interval utilities, split_coverage_regions) are corresponded with their models by C16 / C19 / C05; here they are re-checked metamorphically on the real functions")
