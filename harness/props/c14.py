"""C14 — corrected alignments: ExonCorrector / IlluminaExonCorrector / BEDPrinter / splice-correction presets."""
import os, sys, json, glob, types, itertools, collections, shutil, io, signal, time
from concurrent.futures import ThreadPoolExecutor
from lib import *

COQ_KEYWORDS = ("all", "none", "at", "in", "if", "then", "else", "fun", "match", "end", "with", "Type", "Set", "Prop", "return")   # tools/translate_tables.py coq_ident
def mes(name): return "MES_" + (name + "_" if name in COQ_KEYWORDS else name)
def cev(e): return "(mkev %s %s %s)" % (mes(e[0]), civ(e[1]), civ(e[2]))
def cflags(f): return "(mkflags %s)" % " ".join(cbool(x) for x in f)
def cerrs(o): return "(%s,%s)" % (civ(o[0]), civ(o[1]))
def ccin(d):
    return "(mkcin %s %s %s %s %s %s %s %s %s)" % (civs(d["exons"]), cbool(d["noninf"]), cbool(d["has_match"]), clist(d["events"], cev), civs(d["known"]),
                                                    civ(d["isoreg"]), civs(d["iso_introns"]), clist(d["oracle"], cerrs), cz(d["delta"]))
def cout(r): return "(Raises %d)" % r[1] if r[0] == "raises" else "(Ok %s)" % civs(r[1])
def ccalls(calls): return clist(calls, lambda c: "(%s,%s,%s,%s)" % (cz(c[0]), cz(c[1]), cz(c[2]), cbool(c[3]))) if calls else "(@nil (Z*Z*Z*bool))"   # typed: a shard of call-free cases must still infer

STRATEGIES = ["none", "default_pacbio", "conservative_ont", "default_ont", "all", "assembly"]
FLAG_FIELDS = ["correct_fuzzy_junctions", "correct_intron_shifts", "correct_skipped_exons", "correct_terminal_exons", "correct_fake_terminal_exons", "correct_microintron_retention"]
ABSENT = (1 << 31) - 1; UNDEF = 1 << 31; XL = (1 << 30) - 1; XR = (1 << 30) + 1
EXC = {"IndexError": 1, "AssertionError": 2, "Hang": 3}

PRE_EC = r"""From IQ Require Import Exons Corrector.
From IQ.gen Require Import Tables.
Open Scope Z_scope.
Definition call_eqb (a b:Z*Z*Z*bool) := let '(s,e,i,l) := a in let '(s',e',i',l') := b in (s =? s') && (e =? e') && (i =? i') && Bool.eqb l l'.
Definition T := (flags * cin * outcome (list iv) * list (Z*Z*Z*bool))%type.
(* model = implementation: the outcome (exons or exception class) and the get_error_count calls made *)
Definition check (c:T) : bool :=
  let '(fl, inp, out, calls) := c in
  outcome_eqb ivs_eqb (correct_assigned_read_v VARIANT fl inp) out &&
  list_eqb call_eqb (if early_return inp then [] else error_count_calls fl inp) calls.
(* the specification (the statements of the C14 theorems) evaluated on the implementation's output *)
Definition spec_ok (fl:flags) (inp:cin) (ex:list iv) : bool :=
  ends_ok fl inp ex && sites_ok fl inp ex && (negb (flags_eqb fl no_flags) || negb (sdg_b (c_exons inp)) || ivs_eqb ex (c_exons inp)).
Definition prop (c:T) : bool :=
  let '(fl, inp, out, calls) := c in
  match out with
  | Ok ex => (negb (events_wf_v VARIANT fl inp) || sd_b ex) && (negb (regions_ordered (c_events inp)) || spec_ok fl inp ex)
  | Raises _ => negb (events_wf_v VARIANT fl inp)
  end.
"""
# real event lists: the hypotheses themselves are part of what is checked
PRE_REAL = PRE_EC.replace("""  | Ok ex => (negb (events_wf_v VARIANT fl inp) || sd_b ex) && (negb (regions_ordered (c_events inp)) || spec_ok fl inp ex)
  | Raises _ => negb (events_wf_v VARIANT fl inp)""", """  | Ok ex => events_wf_v VARIANT fl inp && regions_ordered (c_events inp) && sd_b ex && spec_ok fl inp ex
  | Raises _ => false""")
assert PRE_REAL != PRE_EC


class Hang(Exception): pass
def _alarm(sig, frm): raise Hang()


def real_flags():
    """flags per strategy from the real isoquant.set_splice_correction_options"""
    import isoquant
    out = {}
    for s in STRATEGIES:
        a = types.SimpleNamespace(splice_correction_strategy=s)
        isoquant.set_splice_correction_options(a)
        out[s] = tuple(bool(getattr(a, f)) for f in FLAG_FIELDS)
    return out


def run_corrector(flags, d, guard_hang=False):
    """the real ExonCorrector on fake gene_info / alignment_info / read_assignment objects exposing exactly what it reads"""
    from src.exon_corrector import ExonCorrector
    from src.isoform_assignment import MatchEvent, MatchEventSubtype, ReadAssignmentType
    params = types.SimpleNamespace(delta=d["delta"], **dict(zip(FLAG_FIELDS, flags)))
    exons = [tuple(e) for e in d["exons"]]
    known = [tuple(x) for x in d["known"]]
    gi = types.SimpleNamespace(intron_profiles=types.SimpleNamespace(features=known, profiles={}), start=min([exons[0][0]] + [k[0] for k in known]) - 10,
                               end=max([exons[-1][1]] + [k[1] for k in known]) + 10, all_isoforms_introns={"T": [tuple(x) for x in d["iso_introns"]]},
                               transcript_region=lambda tid: tuple(d["isoreg"]))
    calls = []
    def gec(start, end, intron_index=None, left_site=True, chr_record=None):
        calls.append((start, end, intron_index, left_site))
        o = d["oracle"][intron_index] if intron_index < len(d["oracle"]) else ((0, 0), (0, 0))
        return o[0] if left_site else o[1]
    from src.common import junctions_from_blocks
    ai = types.SimpleNamespace(read_exons=exons, read_start=exons[0][0], read_end=exons[-1][1], get_error_count=gec,
                               combined_profile=types.SimpleNamespace(read_intron_profile=types.SimpleNamespace(read_features=junctions_from_blocks(exons))))
    evs = [MatchEvent(MatchEventSubtype[t], tuple(ir), tuple(rr)) for t, ir, rr in d["events"]]
    ra = types.SimpleNamespace(assignment_type=ReadAssignmentType.noninformative if d["noninf"] else ReadAssignmentType.unique,
                               isoform_matches=[types.SimpleNamespace(assigned_transcript="T", match_subclassifications=evs)] if d["has_match"] else [])
    ec = ExonCorrector(gi, params, None)
    try:
        if guard_hang:
            signal.signal(signal.SIGALRM, _alarm); signal.setitimer(signal.ITIMER_REAL, 0.5)
        try:
            res = ec.correct_assigned_read(ai, ra)
        finally:
            if guard_hang: signal.setitimer(signal.ITIMER_REAL, 0)
        return ("ok", [tuple(map(int, e)) for e in res]), calls
    except (IndexError, AssertionError, Hang) as e:
        return ("raises", EXC[type(e).__name__]), calls
    except Exception as e:
        return ("raises", 9, repr(e)), calls


def ec_case(flags, d, guard_hang=False):
    r, calls = run_corrector(flags, d, guard_hang)
    term = "(%s, %s, %s, %s)" % (cflags(flags), ccin(d), cout(r), ccalls(calls))
    return term, dict(d, flags=flags, impl=r, calls=calls)


# ------------------------------------------------------------------ generators (unit level)
REACTING = ["fake_terminal_exon_left", "fake_terminal_exon_right", "terminal_exon_misalignment_left", "terminal_exon_misalignment_right", "intron_shift", "exon_misalignment",
            "extra_intron_known", "intron_alternation_known", "intron_migration", "exon_skipping_known", "exon_merge_known", "terminal_exon_shift_known",
            "mutually_exclusive_exons_known", "exon_gain_known", "exon_detach_known", "alternative_structure_known", "alternative_structure_novel",
            "fake_micro_intron_retention"]
OTHERS = ["none", "extra_intron_novel", "intron_retention", "exon_skipping_novel", "alt_left_site_novel", "extra_intron_flanking_left", "intron_alternation_novel"]

def introns_of(exons): return [(a[1] + 1, b[0] - 1) for a, b in zip(exons, exons[1:])]

def small_exhaustive(FL):
    """fixed geometry (3 read introns, 4 isoform introns); every reacting event type x read regions x isoform regions x strategies, alone and next to a fake-IR event"""
    iso = [(1000, 1100), (1141, 1200), (1400, 1500), (1530, 1560), (1800, 2000)]            # introns (1101,1140) micro, (1201,1399), (1501,1529) micro, (1561,1799)
    read = [(1020, 1203), (1396, 1500), (1533, 1563), (1801, 1950)]                          # retains the first micro intron; introns ~ iso introns 1, 2, 3
    known = sorted(set(introns_of(iso) + [(1204, 1395), (1199, 1399), (1561, 1800)]))
    base = dict(exons=read, noninf=False, has_match=True, known=known, isoreg=(1000, 2000), iso_introns=introns_of(iso), delta=6,
                oracle=[((0, 0), (0, 2)), ((1, 0), (0, 1)), ((0, 0), (0, 0))])
    for t in REACTING + OTHERS:
        for rr in ((0, 0), (1, 1), (2, 2), (0, 1), (1, 2), (ABSENT, 0), (ABSENT, 1), (ABSENT, 3)):
            for ir in ((0, 0), (1, 1), (2, 2), (3, 3), (0, 1), (1, 2), (4, 4), (XL, XL)):
                if rr[0] == ABSENT and ir[0] != ir[1]: continue
                for extra in ([], [("fake_micro_intron_retention", (0, 0), (ABSENT, 0))], [("exon_misalignment", (2, 3), (2, 2))]):
                    for s in STRATEGIES:
                        yield FL[s], dict(base, events=[(t, ir, rr)] + extra)
    for noninf, has in ((True, True), (False, False)):
        for s in STRATEGIES: yield FL[s], dict(base, events=[("intron_shift", (1, 1), (0, 0))], noninf=noninf, has_match=has)
    for s in STRATEGIES: yield FL[s], dict(base, exons=[(1020, 1950)], events=[("fake_micro_intron_retention", (0, 0), (ABSENT, 0))])


def random_gene(rnd):
    k = rnd.randint(2, 7); p = rnd.randint(50, 5000); ex = []
    for i in range(k):
        ln = rnd.choice([rnd.randint(3, 15), rnd.randint(16, 60), rnd.randint(60, 400)]) if 0 < i < k - 1 else rnd.randint(30, 400)
        ex.append((p, p + ln - 1)); p += ln + rnd.choice([rnd.randint(4, 50), rnd.randint(51, 300), rnd.randint(300, 3000)])
    return ex

def jitter(rnd, exons, amp):
    out = []
    for i, (a, b) in enumerate(exons):
        a2 = a + (rnd.randint(-amp, amp) if i > 0 and rnd.random() < .6 else 0); b2 = b + (rnd.randint(-amp, amp) if i < len(exons) - 1 and rnd.random() < .6 else 0)
        out.append((a2, max(a2, b2)))
    ok = all(x[1] + 1 < y[0] for x, y in zip(out, out[1:]))
    return out if ok else list(exons)

def random_structured(rnd, FL, n):
    """random gene / jittered (or locally modified) read / events aimed at the matching isoform introns, plus a share of off-nominal regions"""
    for _ in range(n):
        iso = random_gene(rnd); delta = rnd.choice([0, 4, 6, 6, 12]); II = introns_of(iso)
        read = jitter(rnd, iso, rnd.choice([0, 2, delta, delta + 3]))
        shift = 0                                   # read intron j corresponds to isoform intron j + shift (after dropping exons)
        mod = rnd.random()
        if mod < .25 and len(read) > 2:             # drop an internal exon (skipped exon in the read)
            j = rnd.randint(1, len(read) - 2); read = read[:j] + read[j + 1:]; dropped = j
        else: dropped = None
        if rnd.random() < .2: read = [(read[0][0] - rnd.randint(100, 900) - 10, read[0][0] - rnd.randint(100, 900) + rnd.randint(0, 30))] + read if False else read
        if rnd.random() < .15:                      # short fake exon on the left
            s = read[0][0] - rnd.randint(60, 2000); read = [(s, s + rnd.randint(2, 30))] + read; fake_left = True
            if read[0][1] + 1 >= read[1][0]: read = read[1:]; fake_left = False
        else: fake_left = False
        if rnd.random() < .15:
            s = read[-1][1] + rnd.randint(60, 2000); read = read + [(s, s + rnd.randint(2, 30))]; fake_right = True
        else: fake_right = False
        if rnd.random() < .2 and len(read) > 2:     # retain an intron (merge two exons)
            j = rnd.randint(0, len(read) - 2); read = read[:j] + [(read[j][0], read[j + 1][1])] + read[j + 2:]
        RI = introns_of(read); n_r = len(RI)
        if n_r == 0 and rnd.random() < .7: continue
        known = set(II)
        for x in RI + II:
            if rnd.random() < .5: known.add((x[0] + rnd.randint(-delta - 1, delta + 1), x[1] + rnd.randint(-delta - 1, delta + 1)))
        known = sorted(k for k in known if k[0] <= k[1])
        def near_iso(a):
            if not II: return 0
            return min(range(len(II)), key=lambda j: abs(II[j][0] - RI[min(a, n_r - 1)][0]) + abs(II[j][1] - RI[min(a, n_r - 1)][1])) if n_r else 0
        evs = []
        if fake_left and rnd.random() < .8: evs.append(("fake_terminal_exon_left", (XL, XL), (0, 0)))
        if fake_right and rnd.random() < .8: evs.append(("fake_terminal_exon_right", (XR, XR), (n_r - 1, n_r - 1)))
        for _e in range(rnd.choice([0, 1, 1, 2, 3])):
            t = rnd.choice(REACTING + REACTING + OTHERS)
            if t == "fake_micro_intron_retention":
                kk = rnd.randint(0, n_r); c = rnd.randint(0, max(0, len(II) - 1))
                # prefer an isoform intron lying inside the exon that precedes read intron kk
                cands = [j for j, x in enumerate(II) if read[min(kk, len(read) - 1)][0] < x[0] and x[1] < read[min(kk, len(read) - 1)][1]]
                if cands and rnd.random() < .8: c = rnd.choice(cands)
                evs.append((t, (c, c), (ABSENT, kk))); continue
            a = rnd.randint(0, max(0, n_r - 1)) if n_r else 0
            if t.endswith("_left") and rnd.random() < .8: a = 0
            if t.endswith("_right") and rnd.random() < .8: a = max(0, n_r - 1)
            b = a if rnd.random() < .75 else a + rnd.randint(1, 2)
            if rnd.random() < .9: b = min(b, max(a, n_r - 1))
            c = near_iso(a); dd = c if rnd.random() < .6 else c + 1
            if t == "exon_misalignment" and rnd.random() < .7: dd = c + 1
            if rnd.random() < .05: c, dd = rnd.choice([(len(II), len(II)), (XL, XL), (c, c - 1), (-1, -1), (ABSENT, c)])
            if rnd.random() < .03: a, b = rnd.choice([(n_r, n_r), (a, n_r + 1), (UNDEF, UNDEF)])
            evs.append((t, (c, dd), (a, b)))
        rnd.shuffle(evs)
        isoreg = (iso[0][0] + rnd.choice([0, 0, -20, 15]), iso[-1][1] + rnd.choice([0, 0, 25, -10]))
        d = dict(exons=read, noninf=rnd.random() < .03, has_match=rnd.random() > .03, events=evs, known=known, isoreg=isoreg, iso_introns=II, delta=delta,
                 oracle=[(rnd.choice([(0, 0), (0, 1), (0, 2), (1, 0), (2, 3)]), rnd.choice([(0, 0), (0, 1), (0, 2), (1, 0)])) for _ in range(n_r)])
        for s in (STRATEGIES if rnd.random() < .5 else rnd.sample(STRATEGIES, 2) + ["all"]):
            yield FL[s], d



# ------------------------------------------------------------------ Illumina corrector, BED rows, presets
PRE_ILL = r"""From IQ Require Import Exons Corrector.
Open Scope Z_scope.
Definition T := (list iv * list iv * outcome (list iv))%type.
Definition check (c:T) : bool := let '(short, exons, out) := c in outcome_eqb ivs_eqb (Ok (MODEL short exons)) out.
(* for every set of short-read introns: well-formed non-empty exons, read ends kept, every splice site the read's or a short-read intron's *)
Definition prop (c:T) : bool :=
  let '(short, exons, out) := c in
  match out with
  | Ok ex => (negb (sdg_b exons) || (sd_b ex && negb (length ex =? 0)%nat && iv_eqb (hull ex) (hull exons))) && illumina_sites_ok short exons ex
  | Raises _ => false
  end.
"""
ILL_CORPUS = [([(90, 120), (130, 199)], [(100, 110), (200, 300)]),      # skipped-exon pair starting left of the read: the read start moves (unrepaired code)
              ([(90, 120), (121, 215)], [(100, 110), (200, 210)]),      # abutting pair reaching beyond both ends: no exon left (unrepaired code)
              ([(111, 180), (185, 320)], [(100, 110), (200, 300)])]
PRE_BED = r"""From IQ Require Import Exons Corrector.
Open Scope Z_scope.
Definition T := (list iv * bedrow)%type.
Definition check (c:T) : bool := bedrow_eqb (bed_row (fst c)) (snd c).
Definition prop (c:T) : bool := negb (sd_b (fst c)) || bed_valid_b (snd c).
"""
PRE_TAB = r"""From IQ Require Import Corrector.
Open Scope Z_scope.
Definition T := (strategy * flags)%type.
Definition check (c:T) : bool := flags_eqb (strategy_flags (fst c)) (snd c).
Definition prop (c:T) : bool := negb (match fst c with St_none => true | _ => false end) || flags_eqb (snd c) no_flags.
"""
PRE_CONST = r"""From IQ Require Import Corrector.
Open Scope Z_scope.
Definition check (c:Z*Z) : bool := fst c =? snd c.
Definition prop (c:Z*Z) : bool := true.
"""

def run_illumina(short, exons):
    from src.illumina_exon_corrector import IlluminaExonCorrector
    cor = IlluminaExonCorrector.from_data(short)
    order = [tuple(x) for x in cor.short_introns]          # the order Python iterates in
    try:
        return order, ("ok", [tuple(map(int, e)) for e in cor.correct_exons([tuple(e) for e in exons])])
    except (IndexError, AssertionError) as e:
        return order, ("raises", EXC[type(e).__name__])

def ill_case(short, exons):
    order, r = run_illumina(short, exons)
    return "(%s, %s, %s)" % (civs(order), civs(exons), cout(r)), dict(short=order, exons=exons, impl=r)

def repo_illumina_tests():
    """the parametrized inputs of tests/test_illumina_exon_corrector.py, read from its AST"""
    import ast
    out = []
    try:
        tree = ast.parse(open(os.path.join(REPO, "tests", "test_illumina_exon_corrector.py")).read())
    except OSError:
        return out
    for node in ast.walk(tree):
        if isinstance(node, ast.Call) and isinstance(node.func, ast.Attribute) and node.func.attr == "parametrize" and len(node.args) == 2:
            try:
                for tup in eval(compile(ast.Expression(node.args[1]), "<tests>", "eval"), {"dict": dict, "set": set}):
                    out.append((tup[0] if tup[0] else set(), list(tup[1])))
            except Exception:
                pass
    return out

# ---- which of the two repairs of ExonCorrector.process_events the checked-out code carries (fixes/C01_fuzzy_junction_keeps_exons.diff,
#      fixes/C14_fake_terminal_exon_drops_restored_microintron.diff): decided by running the REAL corrector on the two witnesses
W_FUZZY = dict(exons=[(1000, 1100), (1300, 1304)], noninf=False, has_match=True, events=[("none", (UNDEF, UNDEF), (UNDEF, UNDEF))], known=[(1101, 1305)], isoreg=(1000, 1500),
               iso_introns=[(1101, 1305)], delta=6, oracle=[((0, 0), (1, 0))])
W_FAKE = dict(exons=[(100, 130), (301, 400)], noninf=False, has_match=True, events=[("fake_micro_intron_retention", (0, 0), (ABSENT, 0)), ("fake_terminal_exon_left", (XL, XL), (0, 0))],
              known=[(110, 120)], isoreg=(50, 600), iso_introns=[(110, 120)], delta=6, oracle=[((0, 0), (0, 0))])
KEY_FUZZY = "corrector:fuzzy-junction-beyond-exon"
KEY_FAKE = "corrector:fake-terminal-exon-keeps-microintron"
_VARIANT = {}
def corrector_variant():
    """(fuzzy repaired?, fake-terminal-exon repaired?, Coq term)"""
    if not _VARIANT:
        FL = real_flags()
        r1, _ = run_corrector(FL["default_ont"], W_FUZZY); r2, _ = run_corrector(FL["default_ont"], W_FAKE)
        fz = r1 == ("ok", [(1000, 1100), (1300, 1304)]); fk = r2 == ("ok", [(301, 400)])
        _VARIANT.update(fuzzy=fz, fake=fk, term="(mkVar %s %s)" % (cbool(fz), cbool(fk)), out=(r1, r2))
    return _VARIANT
def pre_variant(pre): return pre.replace("VARIANT", corrector_variant()["term"])

def malformed(res): return any(a[0] > a[1] for a in res) or any(a[1] >= b[0] for a, b in zip(res, res[1:]))
def defect_signature(o):
    """structural attribution of a malformed result to one of the two known defects of the unrepaired corrector: re-run the REAL corrector with
       the repaired choice emulated on the same input (fuzzy flag off = no reference sites at all; fake-terminal flag off) and see which change cures it"""
    r = o["impl"]
    if r[0] != "ok" or not malformed(r[1]): return None
    fl = list(o["flags"]); v = corrector_variant()
    if not v["fuzzy"] and fl[0]:
        r2, _ = run_corrector(tuple([False] + fl[1:]), o)
        if r2[0] == "ok" and not malformed(r2[1]): return KEY_FUZZY
    if not v["fake"] and fl[4] and any(e[0] == "fake_terminal_exon_left" for e in o["events"]) and any(e[0] == "fake_micro_intron_retention" for e in o["events"]):
        r2, _ = run_corrector(tuple(fl[:4] + [False] + fl[5:]), o)
        if r2[0] == "ok" and not malformed(r2[1]): return KEY_FAKE
    return None

def corrector_key(o):
    """structural signature of a violation found on real assigner output"""
    r = o["impl"]
    if r[0] != "ok": return "corrector:raises-%s" % r[1]
    sig = defect_signature(o)
    if sig: return sig
    res = r[1]; ex = o["exons"]
    bad = any(a[0] > a[1] for a in res) or any(a[1] >= b[0] for a, b in zip(res, res[1:]))
    types_ = sorted(set(e[0] for e in o["events"] if e[2][0] != UNDEF))
    return "corrector:%s:%s" % ("malformed-exons" if bad else "hypothesis-or-origin", "+".join(types_))

def illumina_key(o):
    """structural signature of a violation of the short-read corrector"""
    ex = o["exons"]; r = o["impl"]
    if r[0] != "ok": return "illumina:raises"
    res = r[1]
    if not res: return "illumina:empty-result"
    if any(a[0] > a[1] for a in res) or any(a[1] >= b[0] for a, b in zip(res, res[1:])): return "illumina:malformed-exons"
    if res[0][0] != ex[0][0] or res[-1][1] != ex[-1][1]: return "illumina:read-end-moved"
    return "illumina:other"

def gen_illumina(rnd, n):
    for short, exons in repo_illumina_tests(): yield short, exons
    for _ in range(n):
        exons = random_gene(rnd)
        if rnd.random() < .3:                            # short terminal exons: replacements may reach beyond the read
            exons[0] = (exons[0][1] - rnd.randint(0, 20), exons[0][1]); exons[-1] = (exons[-1][0], exons[-1][0] + rnd.randint(0, 20))
        RI = introns_of(exons); short = []
        for (a, b) in RI:
            r = rnd.random()
            if r < .2: short.append(rnd.choice([(a, b + 4), (a - 4, b), (a, b - 4), (a + 4, b), (a, b)]))
            elif r < .5:                                 # two introns around a skipped exon
                ln = b - a + 1
                if ln > 12:
                    m1 = a + rnd.randint(1, ln - 8); m2 = m1 + rnd.choice([1, 2, rnd.randint(1, 60)])
                    short.append((a + rnd.choice([0, 0, -3, 5, -24, -26, 25]), m1)); short.append((m2, b + rnd.choice([0, 0, 3, -5, 24, 26, -25])))
            elif r < .7:
                short.append((a + rnd.randint(-30, 30), b + rnd.randint(-30, 30)))
            if rnd.random() < .2: short.append((a - rnd.randint(0, 40), a + rnd.randint(0, 40)))
            if rnd.random() < .2: short.append((b - rnd.randint(0, 40), b + rnd.randint(0, 40)))
        short = [s for s in short if s[0] <= s[1] and s[0] > 0]
        rnd.shuffle(short)
        yield (short if rnd.random() < .5 else set(short)), exons


def bed_rows(ctx, exon_lists):
    """print through the real BEDPrinter, parse the rows back"""
    from src.assignment_io import BEDPrinter
    path = os.path.join(ctx.scratch, "unit.bed")
    pr = BEDPrinter(path, None, print_corrected=True)
    meta = []
    for i, ex in enumerate(exon_lists):
        strand = "+-."[i % 3]; name = "read_%d" % i; chrom = "chr%d" % (i % 5)
        ra = types.SimpleNamespace(assignment_type=1, gene_info=types.SimpleNamespace(chr_id=chrom), mapped_strand=strand, read_id=name, corrected_exons=ex, exons=[(1, 2)])
        pr.add_read_info(ra); meta.append((chrom, name, strand))
    pr.flush(); pr.output_file.close()
    lines = [l.rstrip("\n").split("\t") for l in open(path)]
    return lines[0], lines[1:], meta


# ------------------------------------------------------------------ real assigner, in process
def mk_params(matching, strategy):
    import isoquant
    a = types.SimpleNamespace(matching_strategy=matching, delta=None, resolve_ambiguous='default', splice_correction_strategy=strategy, count_exons=False, cage=None)
    isoquant.set_matching_options(a); isoquant.set_splice_correction_options(a)
    return a

def gene_with_isoforms(rnd):
    """exon pool with some micro introns / micro exons; 1-4 isoforms"""
    k = rnd.randint(3, 9); p = rnd.randint(500, 5000); pool = []
    for i in range(k):
        ln = rnd.choice([rnd.randint(4, 30), rnd.randint(30, 100), rnd.randint(100, 500)]) if 0 < i < k - 1 else rnd.randint(45, 500)
        pool.append((p, p + ln - 1)); p += ln + rnd.choice([rnd.randint(5, 50), rnd.randint(51, 300), rnd.randint(300, 3000)])
    isoforms = [list(pool)]
    for _ in range(rnd.randint(0, 3)):
        keep = [pool[0]] + [e for e in pool[1:-1] if rnd.random() < .7] + [pool[-1]]
        if rnd.random() < .3:                       # alternative splice site / terminal exon
            j = rnd.randrange(len(keep)); a, b = keep[j]; sh = rnd.choice([-9, -5, -3, 3, 5, 9, 14])
            if j > 0 and a + sh > keep[j - 1][1] + 2 and a + sh < b: keep[j] = (a + sh, b)
        if keep not in isoforms: isoforms.append(keep)
    return isoforms

def derive_read(rnd, iso, P):
    """a read from an isoform exon chain by one or two alignment-artifact recipes; returns exon list or None"""
    ex = list(iso); d = P.delta
    for _ in range(rnd.choice([1, 1, 2])):
        r = rnd.choice(["exact", "jit", "jit", "jit_big", "skip", "shift", "fake_l", "fake_r", "tmis_l", "tmis_r", "retain", "trunc", "extra", "merge_far"])
        n = len(ex)
        if r == "jit": ex = jitter(rnd, ex, max(1, d))
        elif r == "jit_big": ex = jitter(rnd, ex, d + 5)
        elif r == "skip" and n > 2:
            j = rnd.randint(1, n - 2); ex = ex[:j] + ex[j + 1:]
        elif r == "shift" and n > 1:
            j = rnd.randint(0, n - 2); sh = rnd.choice([-1, 1]) * rnd.randint(1, P.max_intron_shift + 5)
            a, b = ex[j], ex[j + 1]
            if a[0] < a[1] + sh and b[0] + sh < b[1]: ex[j] = (a[0], a[1] + sh); ex[j + 1] = (b[0] + sh, b[1])
        elif r == "fake_l":
            s_ = ex[0][0] - rnd.randint(50, 3000); ln = rnd.randint(2, P.max_fake_terminal_exon_len + 10)
            if s_ > 10 and s_ + ln + 1 < ex[0][0]: ex = [(s_, s_ + ln)] + [(ex[0][0] + rnd.randint(0, 20), ex[0][1])] + ex[1:] if ex[0][0] + 20 < ex[0][1] else [(s_, s_ + ln)] + ex
        elif r == "fake_r":
            s_ = ex[-1][1] + rnd.randint(50, 3000); ln = rnd.randint(2, P.max_fake_terminal_exon_len + 10); ex = ex + [(s_, s_ + ln)]
        elif r == "tmis_l" and n > 1:               # first exon aligned somewhere else with a similar length
            ln = ex[0][1] - ex[0][0] + rnd.randint(-d, d); e_ = ex[1][0] - rnd.randint(2, 400) - 1
            if ln > 0 and e_ - ln > 10: ex = [(e_ - ln, e_)] + ex[1:]
        elif r == "tmis_r" and n > 1:
            ln = ex[-1][1] - ex[-1][0] + rnd.randint(-d, d); s_ = ex[-2][1] + rnd.randint(2, 400) + 1
            if ln > 0: ex = ex[:-1] + [(s_, s_ + ln)]
        elif r == "retain" and n > 1:               # prefer micro introns
            js = [j for j in range(n - 1) if ex[j + 1][0] - ex[j][1] - 1 <= P.micro_intron_length] or list(range(n - 1))
            j = rnd.choice(js); ex = ex[:j] + [(ex[j][0], ex[j + 1][1])] + ex[j + 2:]
        elif r == "trunc" and n > 2:
            if rnd.random() < .5: ex = [(ex[1][0] + rnd.randint(0, max(0, (ex[1][1] - ex[1][0]) // 2)), ex[1][1])] + ex[2:]
            else: ex = ex[:-2] + [(ex[-2][0], ex[-2][1] - rnd.randint(0, max(0, (ex[-2][1] - ex[-2][0]) // 2)))]
        elif r == "extra":                          # an extra (novel) intron inside an exon
            j = rnd.randrange(n); a, b = ex[j]
            if b - a > 30:
                c1 = rnd.randint(a + 5, b - 20); c2 = min(b - 5, c1 + rnd.randint(3, 80))
                if c1 + 1 < c2: ex = ex[:j] + [(a, c1), (c2, b)] + ex[j + 1:]
        elif r == "merge_far" and n > 3:
            j = rnd.randint(1, n - 3); ex = ex[:j] + ex[j + 2:]
    ok = all(a <= b for a, b in ex) and all(x[1] + 1 < y[0] for x, y in zip(ex, ex[1:])) and ex[0][0] > 0
    return ex if ok else None

def real_assigner_cases(ctx, rnd, n_genes, reads_per_gene, stats):
    from src.gene_info import GeneInfo, TranscriptModel, TranscriptModelType
    from src.long_read_profiles import CombinedProfileConstructor
    from src.long_read_assigner import LongReadAssigner
    from src.exon_corrector import ExonCorrector
    from src.alignment_info import AlignmentInfo
    from src.polya_finder import PolyAInfo
    from src.isoform_assignment import ReadAssignmentType
    cases = []
    for g in range(n_genes):
        matching = rnd.choice(["exact", "precise", "default", "default", "loose"])
        P = {s_: mk_params(matching, s_) for s_ in STRATEGIES}
        isoforms = gene_with_isoforms(rnd); strand = rnd.choice("+-")
        models = [TranscriptModel("chr1", strand, "T%d" % i, "G", iso, TranscriptModelType.known) for i, iso in enumerate(isoforms)]
        gi = GeneInfo.from_models(models, P["all"].delta)
        pc = CombinedProfileConstructor(gi, P["all"]); asg = LongReadAssigner(gi, P["all"])
        ecs = {s_: ExonCorrector(gi, P[s_], None) for s_ in STRATEGIES}
        for _r in range(reads_per_gene):
            ex = derive_read(rnd, rnd.choice(isoforms), P["all"])
            if ex is None: continue
            n_i = len(ex) - 1
            oracle = [(rnd.choice([(0, 0), (0, 1), (0, 2), (1, 0)]), rnd.choice([(0, 0), (0, 1), (0, 2), (1, 0)])) for _ in range(n_i)]
            calls = []
            def gec(start, end, intron_index=None, left_site=True, chr_record=None):
                calls.append((start, end, intron_index, left_site)); o = oracle[intron_index]
                return o[0] if left_site else o[1]
            ai = AlignmentInfo.__new__(AlignmentInfo)
            ai.alignment = None; ai.read_exons = list(ex); ai.read_start = ex[0][0]; ai.read_end = ex[-1][1]; ai.cage_hits = []; ai.exons_changed = False
            pa = rnd.random()
            ai.polya_info = PolyAInfo(ex[-1][1] if pa < .25 else -1, ex[0][0] if .25 <= pa < .5 else -1, -1, -1)
            ai.get_error_count = gec
            try:
                ai.construct_profiles(pc)
                ra = asg.assign_to_isoform("r", ai.combined_profile)
            except Exception as e:
                stats["assigner_raised:" + type(e).__name__] += 1; continue       # not this property's concern
            has = bool(ra.isoform_matches)
            m = ra.isoform_matches[0] if has else None
            noninf = ra.assignment_type == ReadAssignmentType.noninformative
            if has and m.assigned_transcript is None and not noninf and len(ex) > 1:
                stats["match_without_transcript"] += 1; continue
            tid = m.assigned_transcript if has and m.assigned_transcript is not None else "T0"
            evs = [(e.event_type.name, tuple(e.isoform_region), tuple(e.read_region)) for e in m.match_subclassifications] if has else []
            d = dict(exons=ex, noninf=noninf, has_match=has, events=evs, known=list(gi.intron_profiles.features), isoreg=gi.transcript_region(tid),
                     iso_introns=list(gi.all_isoforms_introns[tid]), oracle=oracle, delta=P["all"].delta)
            for e in evs: stats["event:" + e[0]] += 1
            feat = ai.combined_profile.read_intron_profile.read_features
            if [tuple(x) for x in feat] != introns_of(ex) or (ai.read_start, ai.read_end) != (ex[0][0], ex[-1][1]):
                ctx.violation(None, "read_features / read_start / read_end are not derived from read_exons", {"exons": ex, "read_features": feat})
            for s_ in STRATEGIES:
                del calls[:]
                try:
                    r = ("ok", [tuple(map(int, e)) for e in ecs[s_].correct_assigned_read(ai, ra)])
                except (IndexError, AssertionError) as e:
                    r = ("raises", EXC[type(e).__name__])
                fl = tuple(bool(getattr(P[s_], f)) for f in FLAG_FIELDS)
                term = "(%s, %s, %s, %s)" % (cflags(fl), ccin(d), cout(r), ccalls(calls))
                cases.append((term, dict(d, flags=fl, strategy=s_, matching=matching, impl=r, calls=list(calls), isoforms=isoforms, source="real assigner")))
    return cases

def changed(o): return o["impl"][0] == "ok" and [tuple(e) for e in o["impl"][1]] != [tuple(e) for e in o["exons"]]


# ------------------------------------------------------------------ pipeline level
WRAPPER = os.path.join(VERIF, "harness", "c14_wrapper.py")

def cbedrow(b):
    return "(mkbed %s %s %s %s %s %s %s)" % (cz(b["start"]), cz(b["end"]), cz(b["thick"][0]), cz(b["thick"][1]), cz(b["nblocks"]), czs(b["sizes"]), czs(b["starts"]))

def event_names(col):
    """names in the assignment_events column (additional info such as ':100-200,300-400' dropped)"""
    out = []
    for tok in col.split(","):
        if tok and not tok[0].isdigit() and tok != ".": out.append(tok.split(":")[0])
    return out

def terminal_listed(names, strand):
    """((fake_left, mis_left), (fake_right, mis_right)) decoded with the real printable-name table"""
    from src.isoform_assignment import match_subtype_printable_names as TAB, MatchEventSubtype as M
    k = 0 if strand == "+" else 1 if strand == "-" else 2
    def has(t): return (TAB[t][k] if t in TAB else t.name) in names
    return (has(M.fake_terminal_exon_left), has(M.terminal_exon_misalignment_left)), (has(M.fake_terminal_exon_right), has(M.terminal_exon_misalignment_right))

def short_introns_of(bam):
    import pysam
    f = pysam.AlignmentFile(bam, "rb"); out = {}
    for ref in f.references:
        out[ref] = sorted((a + 1, b) for (a, b) in f.find_introns(f.fetch(ref)).keys())
    f.close(); return out

def one_run(job):
    """job: dict(name, outdir, args, strategy, illumina(bool)) -> adds rc, log, traces"""
    import pipeline as P
    trace = job["outdir"] + ".trace"
    rc, log = P.run_isoquant(job["outdir"], job["args"], wrapper=WRAPPER, env_extra={"C14_TRACE": trace, "ABLAB_ISOQUANT_VERIF": "1", "VERIF_REPO": REPO})
    recs = []
    for f in sorted(glob.glob(trace + ".*")):
        for l in open(f):
            try: recs.append(json.loads(l))
            except ValueError: pass
    job.update(rc=rc, log=log, traces=recs)
    return job

def trace_case(rec):
    """a logged call of correct_assigned_read -> (term, obj) for PRE_REAL, or None"""
    if rec.get("log_error"): return None
    calls = rec.get("calls", []); n_i = len(rec["exons"]) - 1
    oracle = [[(0, 0), (0, 0)] for _ in range(n_i)]
    for c in calls:
        if 0 <= c[2] < n_i: oracle[c[2]][0 if c[3] else 1] = (c[4], c[5])
    d = dict(exons=[tuple(e) for e in rec["exons"]], noninf=rec["assignment_type"] == "noninformative", has_match=rec["n_matches"] > 0,
             events=[(e[0], tuple(e[1]), tuple(e[2])) for e in rec.get("events", [])], known=[tuple(k) for k in rec.get("known", [])],
             isoreg=tuple(rec.get("isoform_region", (0, 0))), iso_introns=[tuple(x) for x in rec.get("isoform_introns", [])],
             oracle=[tuple(o) for o in oracle], delta=rec["delta"])
    r = ("ok", [tuple(e) for e in rec["result"]]) if "result" in rec else ("raises", EXC.get(rec.get("raised"), 9))
    fl = tuple(rec["flags"])
    derived_ok = [tuple(x) for x in rec.get("read_introns", introns_of(d["exons"]))] == introns_of(d["exons"]) and tuple(rec["read_region"]) == (d["exons"][0][0], d["exons"][-1][1])
    term = "(%s, %s, %s, %s)" % (cflags(fl), ccin(d), cout(r), ccalls([c[:4] for c in calls]))
    return term, dict(d, flags=fl, strategy=rec.get("strategy"), read_id=rec["read_id"], impl=r, calls=calls, source="pipeline trace", derived_ok=derived_ok)

# ---- synthetic data set with targeted artifacts (genome/annotation by gen_data.World + genes with micro exons / micro introns)
def synthetic_dataset(seed, dest):
    import random, pysam
    from gen_data import World
    rnd = random.Random(seed * 7919 + 13)
    w = World(seed, n_chr=2, chr_len=(150000, 190000), genes_per_chr=(1, 2))
    P = mk_params("default", "all")
    extra = []; unann = []
    for chrom in list(w.chroms):
        seq = list(w.chroms[chrom]); w.chroms[chrom] = seq; pos = 70000
        for g in range(3):
            isoforms = gene_with_isoforms(rnd); shift = pos - isoforms[0][0][0]
            isoforms = [[(a + shift, b + shift) for a, b in iso] for iso in isoforms]
            end = max(iso[-1][1] for iso in isoforms)
            if end + 5000 > len(seq): break
            strand = rnd.choice("+-"); pool = sorted(set(e for iso in isoforms for e in iso))
            gene = dict(id="%s_X%d" % (chrom, g), chr=chrom, strand=strand, pool=pool, isoforms={"%s_X%d.T%d" % (chrom, g, k): [pool.index(e) for e in iso] for k, iso in enumerate(isoforms)},
                        start=pool[0][0], end=pool[-1][1])
            for iso in isoforms: w.plant(iso, chrom, strand)
            if g == 2: unann.append(gene)            # reads but no annotation: the short-read corrector's territory
            else: w.genes.append(gene); extra.append(gene)
            pos = end + rnd.randint(4000, 9000)
        w.chroms[chrom] = "".join(seq)
    def add(name, chrom, exons, strand):
        seq = w.chroms[chrom]; cig = []; q = ""
        for k, (a, b) in enumerate(exons):
            if k: cig.append((3, a - exons[k - 1][1] - 1))
            ln = b - a + 1; sub = seq[a - 1:b].upper(); r = rnd.random()
            if r < .25 and ln > 14 and k < len(exons) - 1:   # insertion close to the exon end (left splice site of the next intron)
                cut = ln - rnd.randint(2, 5); cig += [(0, cut), (1, 1), (0, ln - cut)]; sub = sub[:cut] + "G" + sub[cut:]
            elif r < .45 and ln > 14 and k > 0:             # deletion close to the exon start
                cut = rnd.randint(2, 5); cig += [(0, cut), (2, 1), (0, ln - cut - 1)]; sub = sub[:cut] + sub[cut + 1:]
            elif r < .6 and ln > 14:                        # two mismatches near an end
                j = rnd.choice([1, ln - 3]); sub = sub[:j] + "".join("ACGT"[("ACGT".index(c) + 1) % 4] if c in "ACGT" else c for c in sub[j:j + 2]) + sub[j + 2:]; cig.append((0, ln))
            else: cig.append((0, ln))
            q += sub
        if rnd.random() < .7:
            if strand == "+": cig.append((4, 25)); q += "A" * 25
            else: cig.insert(0, (4, 25)); q = "T" * 25 + q
        w.reads.append(dict(name=name, chr=chrom, start=exons[0][0] - 1, cigar=cig, seq=q, flag=16 if strand == "-" else 0, mapq=60, tags={}))
    n = 0
    for g in w.genes + unann:
        for tid, ix in g["isoforms"].items():
            iso = [g["pool"][i] for i in ix]
            for rep in range(10 if g in extra or g in unann else 5):
                ex = derive_read(rnd, iso, P) if len(iso) > 1 else list(iso)
                if ex is None or ex[-1][1] + 10 > len(w.chroms[g["chr"]]): continue
                if g in unann and len(iso) > 1 and rnd.random() < .6:     # the offsets (+-4 on one side) the short-read corrector repairs
                    j = rnd.randrange(len(iso) - 1); ex = list(iso)
                    if rnd.random() < .5: ex[j + 1] = (ex[j + 1][0] - 4, ex[j + 1][1])
                    else: ex[j] = (ex[j][0], ex[j][1] + 4)
                    if not all(x[1] + 1 < y[0] for x, y in zip(ex, ex[1:])): continue
                add("r%d_%s" % (n, tid), g["chr"], ex, g["strand"]); n += 1
    # reads whose first / last exon is aligned inside the isoform's terminal intron, away from the isoform's terminal exon, with the same length and the
    # inner splice site kept: the comparator types them terminal_exon_misalignment_left / _right (single read intron against the isoform's terminal intron,
    # not surrounded by overlapping exons, other site within 2*delta, exon lengths differing by less than 2*delta); only --splice_correction_strategy all
    # (correct_terminal_exons) may move their start / end
    for g in w.genes:
        for tid, ix in g["isoforms"].items():
            iso = [g["pool"][i] for i in ix]
            if len(iso) < 3: continue
            for side in ("l", "r"):
                ex = list(iso)
                if side == "l":
                    ln = iso[0][1] - iso[0][0] + 1; room = iso[1][0] - 3 - (iso[0][1] + 3) - ln
                    if room < 10: continue
                    s_ = iso[0][1] + 3 + rnd.randint(0, room); ex[0] = (s_, s_ + ln - 1 + rnd.choice([-2, 0, 0, 3]))
                else:
                    ln = iso[-1][1] - iso[-1][0] + 1; room = iso[-1][0] - 3 - (iso[-2][1] + 3) - ln
                    if room < 10: continue
                    s_ = iso[-2][1] + 3 + rnd.randint(0, room); ex[-1] = (s_ + rnd.choice([-2, 0, 0, 3]), s_ + ln - 1)
                if not all(a <= b for a, b in ex) or not all(x[1] + 1 < y[0] for x, y in zip(ex, ex[1:])): continue
                add("tmis%s%d_%s" % (side, n, tid), g["chr"], ex, g["strand"]); n += 1
    paths = w.write(dest)
    # short reads across the true junctions of the unannotated genes (and some annotated ones)
    names = list(w.chroms); hdr = {"HD": {"VN": "1.6", "SO": "unsorted"}, "SQ": [{"SN": c, "LN": len(w.chroms[c])} for c in names]}
    u = os.path.join(dest, "u_ill.bam"); ill = os.path.join(dest, "illumina.bam"); k = 0
    with pysam.AlignmentFile(u, "wb", header=hdr) as out:
        for g in unann + extra[:1]:
            for tid, ix in g["isoforms"].items():
                iso = [g["pool"][i] for i in ix]
                for a, b in zip(iso, iso[1:]):
                    for rep in range(3):
                        l1 = min(40, a[1] - a[0] + 1); l2 = min(40, b[1] - b[0] + 1)
                        r = pysam.AlignedSegment(); r.query_name = "s%d" % k; k += 1; r.flag = 0; r.reference_id = names.index(g["chr"]); r.reference_start = a[1] - l1
                        r.cigartuples = [(0, l1), (3, b[0] - a[1] - 1), (0, l2)]; r.query_sequence = (w.chroms[g["chr"]][a[1] - l1:a[1]] + w.chroms[g["chr"]][b[0] - 1:b[0] - 1 + l2]).upper(); r.mapping_quality = 60
                        out.write(r)
    pysam.sort("-o", ill, u); pysam.index(ill); os.remove(u)
    return dict(bam=paths[0], fasta=os.path.join(dest, "genome.fa"), gtf=os.path.join(dest, "annotation.gtf"), illumina=ill)


def pipeline_level(ctx, quick):
    import pipeline as P
    root = P.scratch("iqv_c14_")
    try:
        b = P.bundled(os.path.join(root, "bundled"))
        base = ["--reference", b["fasta"], "--genedb", b["gtf"], "--complete_genedb", "--bam", b["bam"], "--data_type", "nanopore", "-t", "1", "-p", "OUT"]
        jobs = []
        for s_ in STRATEGIES:
            jobs.append(dict(name="bundled:" + s_, data=b, outdir=os.path.join(root, "b_" + s_), args=base + ["--splice_correction_strategy", s_], strategy=s_, illumina=False))
        for s_ in (["default_ont"] if quick else ["default_ont", "all", "none"]):
            jobs.append(dict(name="bundled+illumina:" + s_, data=b, outdir=os.path.join(root, "bi_" + s_), args=base + ["--splice_correction_strategy", s_, "--illumina_bam", b["illumina"]], strategy=s_, illumina=True))
        jobs.append(dict(name="bundled:default(data_type)", data=b, outdir=os.path.join(root, "b_dflt"), args=base, strategy="default_ont", illumina=False))
        for seed in ([ctx.seed] if quick else [ctx.seed + k for k in range(6)]):
            syn = synthetic_dataset(seed, os.path.join(root, "syn%d" % seed))
            sbase = ["--reference", syn["fasta"], "--genedb", syn["gtf"], "--complete_genedb", "--bam", syn["bam"], "--data_type", "nanopore", "-t", "1", "-p", "OUT"]
            for s_ in (["default_ont", "conservative_ont", "default_pacbio", "all", "none"] if quick else STRATEGIES):
                jobs.append(dict(name="synthetic%d:%s" % (seed, s_), data=syn, outdir=os.path.join(root, "s%d_%s" % (seed, s_)), args=sbase + ["--splice_correction_strategy", s_], strategy=s_, illumina=False))
            for s_ in (["all"] if quick else ["all", "default_pacbio"]):
                jobs.append(dict(name="synthetic%d+illumina:%s" % (seed, s_), data=syn, outdir=os.path.join(root, "si%d_%s" % (seed, s_)),
                                 args=sbase + ["--splice_correction_strategy", s_, "--illumina_bam", syn["illumina"]], strategy=s_, illumina=True))
        with ThreadPoolExecutor(min(NPROC, 12)) as ex: jobs = list(ex.map(one_run, jobs))
        ctx.cov["pipeline_runs"] += len(jobs)
        FL = real_flags()
        tcases = []; icases = []; bcases = []; ctxs = []; n_changed = 0; ev_seen = collections.Counter()
        cache = {}
        for job in jobs:
            if job["rc"] != 0:
                ctx.violation(None, "IsoQuant failed with --splice_correction_strategy %s%s" % (job["strategy"], " and --illumina_bam" if job["illumina"] else ""),
                              {"run": job["name"], "args": job["args"][12:], "log_tail": job["log"][-1500:]}); continue
            data = job["data"]
            if data["gtf"] not in cache:
                tr, _ = P.read_gtf(data["gtf"])
                cache[data["gtf"]] = (tr, P.fasta_lengths(data["fasta"]), short_introns_of(data["illumina"]))
            tr, lens, short = cache[data["gtf"]]
            # traces -> model
            traced = collections.defaultdict(list)
            for rec in job["traces"]:
                if rec["kind"] == "assigned":
                    tc = trace_case(rec)
                    if tc is None: ctx.broken("trace-wrapper", "the wrapper could not log a call: %s" % rec.get("log_error")); continue
                    if not tc[1]["derived_ok"]:
                        ctx.violation(None, "read_features / read_start / read_end are not derived from read_exons", {"run": job["name"], "read_id": rec["read_id"]})
                    tc[1]["run"] = job["name"]; tcases.append(tc)
                    if "result" in rec: traced[(rec["read_id"], tuple(map(tuple, rec["exons"])))].append([tuple(e) for e in rec["result"]])
                    for e in tc[1]["events"]:
                        if e[2][0] != UNDEF: ev_seen[e[0]] += 1
                else:
                    r = ("ok", [tuple(e) for e in rec["result"]]) if "result" in rec else ("raises", EXC.get(rec.get("raised"), 9))
                    order = [tuple(x) for x in rec["short"]]; exons = [tuple(e) for e in rec["exons"]]
                    icases.append(("(%s, %s, %s)" % (civs(order), civs(exons), cout(r)), dict(short=order, exons=exons, impl=r, run=job["name"], source="pipeline trace")))
                    if "result" in rec: traced[("*", tuple(exons))].append([tuple(e) for e in rec["result"]])
            # output files -> bed_ok
            bedp = P.find(job["outdir"], "OUT", "corrected_reads.bed"); tsvp = P.find(job["outdir"], "OUT", "read_assignments.tsv")
            if not bedp or not tsvp:
                ctx.violation(None, "corrected_reads.bed / read_assignments.tsv missing", {"run": job["name"]}); continue
            bed = P.read_bed(bedp); tsv = P.read_assignments(tsvp)
            groups = collections.defaultdict(list)          # read id -> consecutive groups of TSV lines with the same exons
            prev = None
            for l in tsv:
                key = (l["read_id"], tuple(l["exons"]))
                if key != prev: groups[l["read_id"]].append(l); prev = key
            taken = collections.Counter()
            by_chr = {}
            for c_, L in lens.items():
                by_chr[c_] = len(ctxs)
                annot = sorted(set(i for t in tr.values() if t["chr"] == c_ for i in t["introns"]))
                ctxs.append("(mkctx %s %s %s %s %s %s)" % ("(strategy_flags St_%s)" % job["strategy"], cz(job["traces"][0]["delta"] if job["traces"] and "delta" in job["traces"][0] else 6), cz(L), civs(annot),
                                                            cbool(job["illumina"]), civs(short.get(c_, []) if job["illumina"] else [])))
            for rrow in bed:
                g = groups.get(rrow["name"], []); k = taken[rrow["name"]]; taken[rrow["name"]] += 1
                if k >= len(g):
                    ctx.violation(None, "BED record without a line in read_assignments.tsv", {"run": job["name"], "record": rrow["raw"]}); continue
                l = g[k]; assigned = l["isoform_id"] not in (".", "*")
                left, right = terminal_listed(event_names(l["assignment_events"]), l["strand"])
                iso = list(tr[l["isoform_id"]]["introns"]) if assigned and l["isoform_id"] in tr else []
                t = traced.get((rrow["name"], tuple(l["exons"]))) or traced.get(("*", tuple(l["exons"])))
                # an alignment processed in several regions is corrected once per region (the multi-mapper resolution keeps one record):
                # the BED row must be the row of ONE of the logged results for this read and alignment
                if t: t = [x for x in t if list(x) == list(map(tuple, rrow["exons"]))] or t
                tterm = "(Some %s)" % civs(t[0]) if t else "None"
                if list(map(tuple, rrow["exons"])) != [tuple(e) for e in l["exons"]]: n_changed += 1
                term = "(mkcase %s %s %s %s (%s,%s) (%s,%s) %s %s)" % (cnat(by_chr[rrow["chr"]]) if rrow["chr"] in by_chr else "0%nat", cbedrow(rrow), civs(l["exons"]), cbool(assigned),
                                                                       cbool(left[0]), cbool(left[1]), cbool(right[0]), cbool(right[1]), civs(iso), tterm)
                bcases.append((term, dict(run=job["name"], args=job["args"][12:], record=rrow["raw"], tsv_line=[l["read_id"], l["isoform_id"], l["assignment_type"], l["assignment_events"], l["exons"]],
                                          changed=list(map(tuple, rrow["exons"])) != [tuple(e) for e in l["exons"]], illumina=job["illumina"], assigned=assigned)))
        mism, viol = ctx.corr("pipeline_traces_exon_corrector", pre_variant(PRE_REAL), tcases, shard=300, nontrivial=changed, timeout=300)
        ctx.corr_report("pipeline_traces_exon_corrector", mism, viol, keyfn=corrector_key)
        variant = illumina_variant()
        mism, viol = ctx.corr("pipeline_traces_illumina", PRE_ILL.replace("MODEL", variant), icases, shard=300, nontrivial=changed, timeout=300)
        ctx.corr_report("pipeline_traces_illumina", mism, viol, keyfn=illumina_key)
        pre = "From IQ Require Import Exons Corrector.\nOpen Scope Z_scope.\nDefinition ctxs : list bedctx := [\n" + ";\n".join(ctxs) + "].\n" + \
              "Definition dflt := mkctx no_flags 0 0 [] false [].\nDefinition check (k:bedcase) : bool := bed_is_traced_row k.\nDefinition prop (k:bedcase) : bool := bed_ok (nth (k_ctx k) ctxs dflt) k.\n"
        mism, viol = ctx.corr("pipeline_bed_records", pre, bcases, shard=300, nontrivial=lambda o: o["changed"], timeout=300)
        ctx.corr_report("pipeline_bed_records", mism, viol, keyfn=lambda o: "bed:%s:%s" % ("illumina" if o["illumina"] and not o["assigned"] else "assigned" if o["assigned"] else "unassigned", "changed" if o["changed"] else "same"))
        ctx.notes.append("pipeline level: %d runs, %d BED records (%d differ from the input alignment), %d traced corrector calls, %d traced short-read corrector calls; positioned events seen: %s" %
                         (len(jobs), len(bcases), n_changed, len(tcases), len(icases), dict(ev_seen)))
        ctx.rule("pipeline: bundled chr9 data with each of the 6 --splice_correction_strategy values, the data-type default, with --illumina_bam; a synthetic genome (gen_data.World + genes with micro "
                 "exons / micro introns, one unannotated gene with short-read junctions) with reads carrying the artifact recipes and indels / mismatches next to splice sites; every logged corrector "
                 "call goes through the model (and events_wf / regions_ordered must hold), every BED record through bed_ok (Appendix E) against TSV exons, TSV events, GTF, FASTA lengths and "
                 "short-read introns, and must be the row of the logged corrected exons; the strategy's flags in bed_ok are the MODEL's preset table (strategy_flags), not what the code under test computed; "
                 "the synthetic reads include first / last exons misaligned inside the terminal intron (terminal_exon_misalignment events) under default_ont / conservative_ont / default_pacbio / all / none; "
                 "non-trivial = the record differs from the input alignment")
    finally:
        shutil.rmtree(root, ignore_errors=True)


def illumina_variant():
    """which model describes the checked-out code: the repaired corrector (fixes/C14_illumina_read_span.diff) or the unrepaired one"""
    order, r = run_illumina(*ILL_CORPUS[0])
    return "illumina_correct_exons" if r == ("ok", [tuple(e) for e in ILL_CORPUS[0][1]]) else "illumina_correct_exons_unrepaired"


def run(ctx):
    quick = ctx.tier == "quick"
    ctx.prepare("C14.v")
    FL = real_flags()
    rnd = ctx.rnd
    v = corrector_variant()
    ctx.notes.append("ExonCorrector: the checked-out code behaves like the model variant %s (fuzzy-junction repair %s, fake-terminal-exon repair %s)" %
                     (v["term"], "present" if v["fuzzy"] else "ABSENT", "present" if v["fake"] else "ABSENT"))
    if not v["fuzzy"]:
        ctx.violation(KEY_FUZZY, "ExonCorrector.process_events (correct_fuzzy_junctions): a reference splice site within delta is taken although it lies beyond the read's terminal exon "
                      "(or crosses the intron's other site): the corrected exon list is malformed", {"input": W_FUZZY, "strategy": "default_ont", "impl_output": v["out"][0],
                      "expected": [(1000, 1100), (1300, 1304)], "fix": "fixes/C01_fuzzy_junction_keeps_exons.diff"})
    if not v["fake"]:
        ctx.violation(KEY_FAKE, "ExonCorrector.process_events: a micro-intron restored inside the first read exon is kept although that exon is dropped as fake terminal exon: the first "
                      "corrected exon is inverted", {"input": W_FAKE, "strategy": "default_ont", "impl_output": v["out"][1], "expected": [(301, 400)],
                      "fix": "fixes/C14_fake_terminal_exon_drops_restored_microintron.diff"})

    # ---- 1. unit correspondence: ExonCorrector on generated exon lists and event lists
    cases = []
    for k, (fl, d) in enumerate(small_exhaustive(FL)):
        if quick and k % 3 != ctx.seed % 3: continue
        cases.append(ec_case(fl, d))
    for fl, d in random_structured(rnd, FL, 1500 if quick else 20000): cases.append(ec_case(fl, d))
    # the loop never terminates when an event region runs backwards: a handful of such inputs, guarded by an alarm
    base = dict(exons=[(100, 200), (300, 400), (500, 600), (700, 800)], noninf=False, has_match=True, known=[], isoreg=(100, 800), iso_introns=[(201, 299), (401, 499), (601, 699)], delta=6,
                oracle=[((0, 0), (0, 0))] * 3)
    for evs in ([("extra_intron_novel", (1, 1), (1, 0))], [("alternative_structure_novel", (0, 1), (2, 0))], [("extra_intron_novel", (0, 0), (0, 2)), ("intron_retention", (1, 1), (1, 0))]):
        for s_ in ("none", "all"): cases.append(ec_case(FL[s_], dict(base, events=evs), guard_hang=True))
    ctx.rule("ExonCorrector.correct_assigned_read on fake gene_info/alignment_info/read_assignment objects: fixed geometry x every event type the corrector reacts to "
             "(+7 it ignores) x read regions x isoform regions x 6 strategies (flags from the real preset table; a third of this grid per seed in the quick tier), then random genes with jittered / "
             "exon-skipping / intron-retaining / fake-terminal-exon reads and 0-5 events (5% off-nominal index regions -> IndexError/AssertionError; backwards regions -> non-termination, alarm-guarded); "
             "the get_error_count calls are compared too; non-trivial = corrected exons differ from the input")
    mism, viol = ctx.corr("exon_corrector_unit", pre_variant(PRE_EC), cases, shard=400, nontrivial=changed, timeout=300)
    ctx.corr_report("exon_corrector_unit", mism, viol, keyfn=corrector_key)

    # ---- 2. the preset table and the constants the model copies
    import ast
    from src.isoform_assignment import SupplementaryMatchConstants as SMC
    from src.illumina_exon_corrector import IlluminaExonCorrector as IEC
    keys = None
    for node in ast.walk(ast.parse(open(os.path.join(REPO, "isoquant.py")).read())):
        if isinstance(node, ast.FunctionDef) and node.name == "set_splice_correction_options":
            for n in ast.walk(node):
                if isinstance(n, ast.Assign) and isinstance(n.value, ast.Dict) and getattr(n.targets[0], "id", "") == "strategies":
                    keys = [k.value for k in n.value.keys]
                if isinstance(n, ast.Call) and getattr(n.func, "id", "") == "namedtuple":
                    fields = [e.value for e in n.args[1].elts]
                    if fields != ["fuzzy_junctions", "intron_shifts", "skipped_exons", "terminal_exons", "fake_terminal_exons", "microintron_retention"]:
                        ctx.broken("preset-table", "the fields of SplicSiteCorrectionStrategy changed: %s" % fields)
    if keys is None or sorted(keys) != sorted(STRATEGIES):
        ctx.broken("preset-table", "the set of splice correction strategies changed: %s (model: %s)" % (keys, STRATEGIES))
    cases = [("(St_%s, %s)" % (s_, cflags(FL[s_])), {"strategy": s_, "real_flags": FL[s_]}) for s_ in STRATEGIES]
    mism, viol = ctx.corr("preset_table", PRE_TAB, cases)
    ctx.corr_report("preset_table", mism, viol)
    consts = [("absent_position", SMC.absent_position), ("undefined_position", SMC.undefined_position), ("MAX_SCORE", IEC.MAX_SCORE), ("EXON_LENGTH", IEC.EXON_LENGTH),
              ("SIDE_DIFF", IEC.SIDE_DIFF), ("fst ABSENT_INTRON", IEC.ABSENT_INTRON[0]), ("snd ABSENT_INTRON", IEC.ABSENT_INTRON[1]),
              ("fst undefined_region_model", SMC.undefined_region[0]), ("snd undefined_region_model", SMC.undefined_region[1])]
    cases = [("(%s, %s)" % (n_, cz(v)), {"constant": n_, "real": v}) for n_, v in consts]
    mism, viol = ctx.corr("constants", PRE_CONST.replace("Definition check", "Definition undefined_region_model := (undefined_position, undefined_position).\nDefinition check"), cases)
    ctx.corr_report("constants", mism, viol)
    ctx.rule("preset table: strategy_flags of the model = the namedtuple set_splice_correction_options stores for each of the 6 strategies (strategy and field lists read from the AST); "
             "constants of SupplementaryMatchConstants / IlluminaExonCorrector")

    # ---- 3. IlluminaExonCorrector.correct_exons
    variant = illumina_variant()
    ctx.notes.append("short-read corrector: the checked-out code behaves like the model `%s`" % variant)
    cases = [ill_case(short, exons) for short, exons in ILL_CORPUS] + [ill_case(short, exons) for short, exons in gen_illumina(rnd, 2500 if quick else 30000)]
    ctx.rule("IlluminaExonCorrector.correct_exons (from_data): 3 corpus inputs (short-read introns reaching beyond the read / abutting), the repository's test inputs, random exon chains with "
             "short-read introns at offsets {0,+-4,...}, pairs around a skipped exon (gap 1..60, sides up to +-26), short terminal exons, random overlapping introns, lists and sets "
             "(iteration order passed to the model); non-trivial = exons changed")
    mism, viol = ctx.corr("illumina_unit", PRE_ILL.replace("MODEL", variant), cases, shard=400, nontrivial=changed, timeout=300)
    ctx.corr_report("illumina_unit", mism, viol, keyfn=illumina_key)

    # ---- 4. BED rows through the real BEDPrinter
    exl = []
    for _ in range(1500 if quick else 10000):
        ex = random_gene(rnd)
        if rnd.random() < .15: ex = [ex[0]]
        if rnd.random() < .1: ex = [(a, b) for a, b in ex if rnd.random() < .7] or ex
        if rnd.random() < .1: rnd.shuffle(ex)                                  # malformed: model correspondence only
        if rnd.random() < .05: ex = [(a, a - 1 + rnd.randint(0, 2)) for a, b in ex]
        exl.append(ex)
    hdr, rows, meta = bed_rows(ctx, exl)
    if hdr != "#chrom chromStart chromEnd name score strand thickStart thickEnd itemRgb blockCount blockSizes blockStarts".split():
        ctx.violation(None, "BED header changed", {"header": hdr})
    cases = []
    for ex, v, (chrom, name, strand) in zip(exl, rows, meta):
        if len(v) != 12 or (v[0], v[3], v[4], v[5], v[8]) != (chrom, name, "0", strand, "0"):
            ctx.violation(None, "BED row: wrong column count or chrom/name/score/strand/itemRgb column", {"exons": ex, "row": v}); continue
        sizes = [int(x) for x in v[10].split(",")]; starts = [int(x) for x in v[11].split(",")]
        row = "(mkbed %s %s %s %s %s %s %s)" % (cz(int(v[1])), cz(int(v[2])), cz(int(v[6])), cz(int(v[7])), cz(int(v[9])), czs(sizes), czs(starts))
        cases.append(("(%s, %s)" % (civs(ex), row), {"exons": ex, "row": v}))
    ctx.rule("BEDPrinter.add_read_info (print_corrected) through a real file: random exon lists incl. single-exon, unsorted and empty-block lists; the 7 numeric columns are compared "
             "with the model row in Coq, the 5 textual ones in Python; specification: sd exons => valid BED12 arithmetic")
    mism, viol = ctx.corr("bed_row", PRE_BED, cases, shard=500)
    ctx.corr_report("bed_row", mism, viol)

    # ---- 5. the real profile constructor + LongReadAssigner + ExonCorrector in process: real event lists, hypothesis validation
    stats = collections.Counter()
    cases = real_assigner_cases(ctx, rnd, 120 if quick else 1500, 14, stats)
    ctx.rule("GeneInfo.from_models + CombinedProfileConstructor + LongReadAssigner.assign_to_isoform + ExonCorrector (all real) on random genes (1-4 isoforms, micro exons and "
             "micro introns) and reads derived by artifact recipes (jitter within/beyond delta, skipped exon, intron shift, fake terminal exon, misplaced terminal exon, "
             "retained (micro) intron, truncation, extra intron, combinations) x 4 matching strategies x 6 correction strategies; events_wf and regions_ordered must hold of EVERY real event list "
             "(validation of the hypotheses of the theorems); non-trivial = corrected exons differ from the input")
    mism, viol = ctx.corr("real_assigner_inprocess", pre_variant(PRE_REAL), cases, shard=400, nontrivial=changed, timeout=300)
    ctx.corr_report("real_assigner_inprocess", mism, viol, keyfn=corrector_key)
    ctx.notes.append("real assigner stream: %s" % dict(stats))

    # ---- 6. pipeline level
    pipeline_level(ctx, quick)

    ctx.assume.append("events_wf (the events select well-formed, start-ordered introns strictly inside the corrected region) and regions_ordered are validated on every real event list "
                      "(in-process assigner stream, pipeline traces), not proved from the comparator (growth path of C01)")
    ctx.assume.append("AlignmentInfo.get_error_count is an oracle of the model (its answers are logged and replayed); pysam/htslib for BAM reading and find_introns; "
                      "Python's set iteration order is passed to the short-read corrector model as a list")
    ctx.assume.append("harness/c14_wrapper.py logs the arguments and the result of correct_assigned_read / correct_exons without changing them")
